#!/bin/bash
# usage: trypatch.sh <patch.diff> <prop> [prop...]
# Applies a patch to a scratch worktree of /repo HEAD (outside /repo and /verif),
# runs the named checks against it without writing evidence, removes the copy.
set -u
patch=$(readlink -f "$1"); shift
wt=$(mktemp -d /tmp/trypatch.XXXXXX)
git -C /repo worktree add -q --detach "$wt" HEAD || exit 2
trap 'git -C /repo worktree remove --force "$wt" >/dev/null 2>&1; rm -rf "$wt"' EXIT
if ! git -C "$wt" apply "$patch"; then echo "PATCH-DOES-NOT-APPLY $patch"; exit 3; fi
rc=0
for p in "$@"; do
  ${FDOCHECK:-/verif/bin/fdocheck} -no-write -repo "$wt" -tier "${TIER:-quick}" "$p" | grep -v "^  \[entry" | cut -c1-400
  r=${PIPESTATUS[0]}
  echo "== $p exit=$r"
  [ "$r" -ne 0 ] && rc=$r
done
exit $rc
