#!/bin/bash
# usage: refmatrix.sh <patch.diff>...
# Applies each (supposedly behaviour-preserving) patch to a scratch worktree of
# /repo HEAD, builds it, and runs ALL checks against it. Anything but exit 0 is
# a false alarm candidate. Prints one line per patch and the failing details.
export GOFLAGS=-mod=mod GOPROXY=off; unset GOWORK GOTOOLCHAIN GOSUMDB
for patch in "$@"; do
  patch=$(readlink -f "$patch")
  wt=$(mktemp -d /tmp/refmx.XXXXXX)
  git -C /repo worktree add -q --detach "$wt" HEAD || exit 2
  if ! git -C "$wt" apply "$patch" 2>/dev/null; then echo "REF $patch: does-not-apply"; git -C /repo worktree remove --force "$wt"; rm -rf "$wt"; continue; fi
  if ! (cd "$wt" && go build ./... && cd sqlite && go build ./... && cd ../fsim && go build ./...) >/dev/null 2>&1; then echo "REF $patch: does-not-build"; git -C /repo worktree remove --force "$wt"; rm -rf "$wt"; continue; fi
  out=$(mktemp -d /tmp/refmxout.XXXXXX)
  ${FDOCHECK:-/verif/bin/fdocheck} -list | tr ' ' '\n' | xargs -P ${PAR:-10} -I{} sh -c "${FDOCHECK:-/verif/bin/fdocheck} -no-write -repo $wt {} > $out/{}.txt 2>&1; echo \$? > $out/{}.rc"
  bad=""
  for f in $out/*.rc; do id=$(basename $f .rc); rc=$(cat $f); [ "$rc" != "0" ] && bad="$bad $id(rc=$rc)"; done
  if [ -z "$bad" ]; then echo "REF $patch: all 20 checks pass"; else
    echo "REF $patch: ALARM$bad"
    for f in $out/*.rc; do id=$(basename $f .rc); rc=$(cat $f); [ "$rc" != "0" ] && grep -A5 "^VIOLATION\|^CHECK-FAILURE" $out/$id.txt | grep -v "^  \[entry" | cut -c1-300 | head -24; done
  fi
  rm -rf "$out"
  git -C /repo worktree remove --force "$wt" >/dev/null 2>&1; rm -rf "$wt"
done
