#!/bin/bash
# usage: confirm_seed.sh <seed dir with patch.diff, demo_test.go.txt, agent_meta.json>
# Confirms in a scratch worktree of /repo HEAD: patch applies, everything builds,
# the whole existing suite passes with the patch, the demo fails with the patch
# and passes without it. Writes <seed dir>/meta.json.
set -u
d=$(readlink -f "$1")
export GOFLAGS=-mod=mod GOPROXY=off; unset GOWORK GOTOOLCHAIN GOSUMDB
wt=$(mktemp -d /tmp/confirm.XXXXXX)
git -C /repo worktree add -q --detach "$wt" HEAD || exit 2
trap 'git -C /repo worktree remove --force "$wt" >/dev/null 2>&1; rm -rf "$wt"' EXIT
pkgdir=$(python3 -c "import json,sys; print(json.load(open('$d/agent_meta.json')).get('demo_pkg_dir','.'))")
run=$(python3 -c "import json,sys; print(json.load(open('$d/agent_meta.json')).get('demo_run',''))")
name=$(echo "$run" | sed -n 's/.*-run \([^ ]*\).*/\1/p' | tr -d "'\"")
[ -z "$name" ] && name=Test
race=""; echo "$run" | grep -q -- "-race" && race="-race"
pkgdir=${pkgdir#./}; [ -z "$pkgdir" ] && pkgdir=.
cd "$wt"
applies=false; builds=false; suite=false; demo_fails=false; demo_passes=false
if git apply "$d/patch.diff"; then applies=true; fi
if $applies; then
  ok=true
  for m in . ./fsim ./sqlite ./tpm; do (cd $m && go build ./... && go vet -vettool=/bin/true ./... >/dev/null 2>&1; go test -vet=off -count=1 ./... >/tmp/confirm_suite.$$ 2>&1) || { ok=false; tail -5 /tmp/confirm_suite.$$; }; done
  $ok && builds=true && suite=true
  cp "$d/demo_test.go.txt" "$pkgdir/zz_seed_demo_test.go"
  # module root for the demo package
  mod=.; case "$pkgdir" in sqlite*) mod=sqlite;; fsim*) mod=fsim;; esac
  rel=${pkgdir#$mod}; rel=${rel#/}; [ -z "$rel" ] && rel=.
  (cd $mod && go test $race -vet=off -count=1 -run "$name" ./$rel >/tmp/confirm_demo.$$ 2>&1) || demo_fails=true
  grep -q "no tests to run" /tmp/confirm_demo.$$ && demo_fails=false
  tail -3 /tmp/confirm_demo.$$ | sed 's/^/   with-change: /'
  git apply -R "$d/patch.diff"
  (cd $mod && go test $race -vet=off -count=1 -run "$name" ./$rel >/tmp/confirm_demo.$$ 2>&1) && demo_passes=true
  grep -q "no tests to run" /tmp/confirm_demo.$$ && demo_passes=false
  tail -2 /tmp/confirm_demo.$$ | sed 's/^/   without-change: /'
fi
rm -f /tmp/confirm_suite.$$ /tmp/confirm_demo.$$
python3 - "$d" "$applies" "$builds" "$suite" "$demo_fails" "$demo_passes" "$name" "$pkgdir" <<'PY'
import json,sys,subprocess
d,applies,builds,suite,df,dp,name,pkgdir=sys.argv[1:9]
am=json.load(open(d+'/agent_meta.json'))
head=subprocess.check_output(['git','-C','/repo','rev-parse','HEAD'],text=True).strip()
meta={'property':am.get('property'),'summary':am.get('summary'),'needs_to_manifest':am.get('needs_to_manifest'),
 'files':am.get('files'),'demo':'demo_test.go.txt (copy into '+pkgdir+' as a _test.go file; go test -run '+name+')',
 'base_commit':head,
 'confirmed_by_me':{'applies':applies=='true','builds':builds=='true','existing_suite_passes_with_change':suite=='true','demo_fails_with_change':df=='true','demo_passes_without_change':dp=='true'},
 'what_i_ran':'tools/confirm_seed.sh: scratch worktree of /repo HEAD under /tmp; git apply; go build + go test -vet=off -count=1 ./... in ., ./fsim, ./sqlite, ./tpm; demo with and without the patch; worktree removed'}
json.dump(meta,open(d+'/meta.json','w'),indent=1)
print(d.split('/')[-1], meta['confirmed_by_me'])
PY
