#!/usr/bin/env python3
"""Mutation self-test of one property's check (thorough tier): every seeded
change that seeded/DETECTION.json records as caught by this property is applied
to a scratch worktree of /repo HEAD (under $TMPDIR or /tmp, removed at once) and
must still be reported as a VIOLATION. Prints one line per seed; exit 0 if all
still caught (patches that no longer apply are skipped), exit 2 otherwise."""
import json, os, subprocess, sys, tempfile, shutil
here = os.path.dirname(os.path.dirname(os.path.abspath(__file__)))
prop = sys.argv[1]
det = json.load(open(os.path.join(here, 'seeded/DETECTION.json')))
env = dict(os.environ, GOFLAGS='-mod=mod', GOPROXY='off')
for k in ('GOWORK', 'GOTOOLCHAIN', 'GOSUMDB'):
    env.pop(k, None)
bad = 0
n = 0
for sid in sorted(det):
    res = det[sid].get('results', {}).get(prop)
    if not res or res.get('status') != 'caught':
        continue
    wt = tempfile.mkdtemp(prefix='selftest.', dir=os.environ.get('TMPDIR', '/tmp'))
    try:
        subprocess.check_call(['git', '-C', '/repo', 'worktree', 'add', '-q', '--detach', wt, 'HEAD'])
        # the scratch copy must carry the working tree under test, not just HEAD
        diff = subprocess.run(['git', '-C', '/repo', 'diff', 'HEAD'], capture_output=True, text=True).stdout
        if diff.strip():
            subprocess.run(['git', '-C', wt, 'apply'], input=diff, text=True)
        ap = subprocess.run(['git', '-C', wt, 'apply', os.path.join(here, 'seeded', sid, 'patch.diff')], capture_output=True, text=True)
        if ap.returncode != 0:
            print(f'SELFTEST property={prop} seed={sid} skipped (patch does not apply to the current tree)')
            continue
        n += 1
        out = subprocess.run([os.path.join(here, 'bin/fdocheck'), '-no-write', '-repo', wt, prop], capture_output=True, text=True, env=env)
        if out.returncode == 1 and 'VIOLATION' in out.stdout:
            rules = sorted({l.split('rule=')[1].strip() for l in out.stdout.splitlines() if l.strip().startswith('rule=')})
            print(f'SELFTEST property={prop} seed={sid} detected by {", ".join(rules)}')
        else:
            bad += 1
            print(f'CHECK-FAILURE property={prop} selftest: seeded change {sid} is no longer detected (exit {out.returncode})')
    finally:
        subprocess.run(['git', '-C', '/repo', 'worktree', 'remove', '--force', wt], capture_output=True)
        shutil.rmtree(wt, ignore_errors=True)
# every repaired defect must be reported again when its fix is reverted
kf = json.load(open(os.path.join(here, 'known_findings.json')))
seen = set()
m = 0
for f in kf.get('findings', []):
    if f.get('status') != 'fixed' or f.get('property') != prop or f.get('commit') in seen:
        continue
    seen.add(f['commit'])
    rev = subprocess.run(['git', '-C', '/repo', 'diff', f['commit'], f['commit'] + '^'], capture_output=True, text=True)
    if rev.returncode != 0 or not rev.stdout.strip():
        print(f'SELFTEST property={prop} fix={f["commit"]} skipped (commit not in /repo history)')
        continue
    wt = tempfile.mkdtemp(prefix='selftest.', dir=os.environ.get('TMPDIR', '/tmp'))
    try:
        subprocess.check_call(['git', '-C', '/repo', 'worktree', 'add', '-q', '--detach', wt, 'HEAD'])
        diff = subprocess.run(['git', '-C', '/repo', 'diff', 'HEAD'], capture_output=True, text=True).stdout
        if diff.strip():
            subprocess.run(['git', '-C', wt, 'apply'], input=diff, text=True)
        ap = subprocess.run(['git', '-C', wt, 'apply'], input=rev.stdout, capture_output=True, text=True)
        if ap.returncode != 0:
            print(f'SELFTEST property={prop} fix={f["commit"]} skipped (reverse patch does not apply to the current tree)')
            continue
        bld = subprocess.run(['go', 'build', './...'], cwd=wt, capture_output=True, text=True, env=env)
        if bld.returncode != 0:
            print(f'SELFTEST property={prop} fix={f["commit"]} skipped (reverted tree does not build)')
            continue
        m += 1
        out = subprocess.run([os.path.join(here, 'bin/fdocheck'), '-no-write', '-repo', wt, prop], capture_output=True, text=True, env=env)
        rules = sorted({l.split('rule=')[1].strip() for l in out.stdout.splitlines() if l.strip().startswith('rule=')})
        if out.returncode == 1 and f['rule'] in rules:
            print(f'SELFTEST property={prop} fix={f["commit"]} reverted: reported again by {f["rule"]}')
        else:
            bad += 1
            print(f'CHECK-FAILURE property={prop} selftest: reverting fix {f["commit"]} is not reported by {f["rule"]} (exit {out.returncode}, rules {rules})')
    finally:
        subprocess.run(['git', '-C', '/repo', 'worktree', 'remove', '--force', wt], capture_output=True)
        shutil.rmtree(wt, ignore_errors=True)
print(f'SELFTEST property={prop}: {n} seeded change(s) and {m} reverted fix(es) re-checked, {bad} not detected')
sys.exit(2 if bad else 0)
