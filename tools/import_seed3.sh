#!/bin/bash
# usage: import_seed3.sh <prop id>...   imports /tmp/seedout3/<id>/{A,B}.* as seeded/<id>-E and <id>-F
for id in "$@"; do
  for pair in A:E B:F; do
    s=${pair%%:*}; t=${pair##*:}
    src=/tmp/seedout3/$id
    [ -f $src/$s.patch.diff ] || { echo "no $s for $id"; continue; }
    d=/verif/seeded/$id-$t; mkdir -p $d
    cp $src/$s.patch.diff $d/patch.diff
    cp $src/$s.demo_test.go $d/demo_test.go.txt
    cp $src/$s.meta.json $d/agent_meta.json
    echo imported $id-$t
  done
done
