#!/bin/bash
# usage: refpairs.sh [file]   re-runs the (refactoring patch, property) pairs listed in the file
# (default /tmp/refpairs.txt) and prints the ones that still alarm.
f=${1:-/tmp/refpairs.txt}
while read -r pr props; do
  [ -z "$pr" ] && continue
  patch=/verif/refactorings/${pr%/*}-${pr#*/}.patch.diff
  [ -f "$patch" ] || patch=/tmp/refout/${pr%/*}/${pr#*/}.patch.diff
  out=$(/verif/tools/trypatch.sh "$patch" $props 2>&1)
  bad=$(echo "$out" | grep "^== " | grep -v "exit=0" | sed 's/== //' | tr '\n' ' ')
  if echo "$out" | grep -q "PATCH-DOES-NOT-APPLY"; then echo "NOAPPLY $pr"; continue; fi
  if [ -z "$bad" ]; then echo "OK    $pr ($props)"; else echo "ALARM $pr: $bad"; fi
done < "$f"
