#!/usr/bin/env python3
"""Regenerates /verif/MANIFEST.json from the table below (single source)."""
import json, os, subprocess
here = os.path.dirname(os.path.dirname(os.path.abspath(__file__)))
props = [json.loads(l) for l in open(os.path.join(here, 'properties.jsonl'))]

# id -> (technique, level text, level note, design ref)
claimed = {
 'C04': ('interprocedural must-pass dataflow (check dominates success return) over go/ssa + call graph',
         'Structural necessary condition decided on all paths: each exported voucher verifier returns success only after its comparison atoms (hmac.Equal over recomputed values, x509 Verify, per-entry Sign1.Verify/header-hash/previous-hash, recursion on entries[1:] with the verified key) and ExtendVoucher only after type/size/owner-key equality. It does not prove that untampered vouchers verify nor bit-level tamper coverage; that is value-level and outside static reach.',
         'Trusts go/types+go/ssa, the atom/anchor tables in /verif/checker, and that stdlib hash/HMAC/x509/ECDSA/RSA behave as documented; provenance is over-approximate.', 'DESIGN.md §2 C04'),
 'C06': ('interprocedural must-pass dataflow (check dominates effect) over go/ssa + call graph, provenance-typed comparison atoms',
         'Structural necessary condition decided on all paths from (*TO0Server).Respond: the single wire-reachable SetRVBlob is dominated by the to0d-hash, non-empty-entries, VerifyEntries, session-nonce, TTL-policy and owner-signature checks (with operand provenance), VerifyEntries\' own summary carries the per-entry checks, and stored expiry and reply derive from the same ttl value. Does not decide cryptographic binding or clock behaviour.',
         'Trusts go/types+go/ssa, the rule tables, stdlib crypto; atoms are never killed (a checked variable later overwritten is not seen).', 'DESIGN.md §2 C06'),
}
na_reason = {}
for p in props:
    na_reason[p['id']] = 'check not built yet (work in progress; DESIGN.md §2 names the structural clause planned for it)'

checks = []
for p in props:
    i = p['id']
    if i not in claimed: continue
    tech, text, note, ref = claimed[i]
    checks.append({
        'property_id': i,
        'quick_cmd': f'./check {i} quick',
        'thorough_cmd': f'./check {i} thorough',
        'evidence_file': f'/verif/evidence/{i}.json',
        'replay_cmd_template': './check --replay {path}',
        'engine': 'fdocheck',
        'level_claimed': {'category': 'other', 'text': text, 'design_ref': ref},
        'level_note': note,
        'technique': 'static analysis: ' + tech,
    })
m = {
 'version': 1,
 'setup_cmd': './setup.sh',
 'hooks': {'guard': 'verif', 'enable': 'none: the checker reads /repo\'s working tree as is; no hook or build tag is used',
           'baseline_off_cmd': 'for m in . ./fsim ./sqlite ./tpm; do (cd /repo/$m && GOFLAGS=-mod=mod GOPROXY=off go test -vet=off -count=1 -timeout 25m ./...) || exit 1; done',
           'source_commits': [], 'add_only': True},
 'engines': [{'name': 'fdocheck', 'path': '/verif/checker', 'serves_properties': sorted(claimed),
              'kind_free_text': 'custom Go static analyser over go/packages + go/ssa (x/tools v0.29.0): E1 interprocedural must-pass dataflow with provenance-typed atoms, E2 structural tables, E3 wire-taint guards, E4 lockset'}],
 'checks': checks,
 'notes': 'Static analysis only; every check reloads /repo from disk, writes evidence/<id>.json, prints KNOWN-FINDING lines for entries of known_findings.json and VIOLATION lines otherwise. Exit 2 = machinery failure (load error, unresolved anchor, vacuous rule).',
 'not_applicable': [{'property_id': p['id'], 'reason': na_reason[p['id']]} for p in props if p['id'] not in claimed],
}
json.dump(m, open(os.path.join(here, 'MANIFEST.json'), 'w'), indent=1)
print('claimed:', sorted(claimed))
