#!/usr/bin/env python3
"""Regenerates /verif/MANIFEST.json from the table below (single source)."""
import json, os, subprocess
here = os.path.dirname(os.path.dirname(os.path.abspath(__file__)))
props = [json.loads(l) for l in open(os.path.join(here, 'properties.jsonl'))]

# id -> (technique, level text, level note, design ref)
claimed = {

 'C11': ('codec-symmetry tables over the type-checked program (tag constants, shared field-order function, single head encoder, sort-before-emit order, encodable static argument types, canonical boundary comparisons)',
         'NARROW. Only structural symmetry clauses necessary for the round trip are decided; decode(encode(v))==v, shortest-form arithmetic, int64 minimum and timestamp fidelity are value-level and are NOT decided by this check (static analysis cannot reach them).',
         'Trusts go/types+go/ssa; the clauses are listed in the evidence explanation.', 'DESIGN.md §2 C11'),
 'C14': ('sibling-agreement table for the three key derivations, persistence field-completeness table, gen/kill dataflow for PRF reset, must-pass for peer-parameter validation, value-origin scan of every KDF secret (no variable-width big.Int.Bytes())',
         'NARROW. Decides derivation shape agreement, completeness of session (un)marshalling, PRF reset per KDF block and rejection gates for degenerate peer parameters; equality of both parties\' keys, conformance with SP 800-108 and session independence are numerical and NOT decided.',
         'Trusts go/types+go/ssa, crypto/ecdh, crypto/rsa, math/big.', 'DESIGN.md §2 C14'),
 'C15': ('loop-carried budget shape check, must-pass for MTU and overhead guards, boundary-comparison lint',
         'NARROW. Decides budget accounting only (budget minus appended chunk size, owner MTU gate, overhead from the raw key, forced break closes the pipe, canonical size boundaries, key of the next service info read independently of the remaining budget); losslessness/ordering over all sizes, splits and schedules are NOT decided.',
         'Trusts go/types+go/ssa.', 'DESIGN.md §2 C15'),
 'C16': ('must-pass dataflow for dispatch gates, all-paths search, linear forms over SSA values, path-sensitive boolean evaluation',
         'NARROW. Decides the dispatch gates (Receive and Yield only when active, unknown modules answer, unread bodies are errors, Done only after IsDone, IsDone from NextModule after completion, the budget of the devmod writer covers the message wrapper, no owner response can carry IsDone together with IsMoreServiceInfo, the chunk reader re-decodes its cached key with the raw key, the yield target follows the last received message); exactly-once in-order delivery across messages and schedules is NOT decided.',
         'Trusts go/types+go/ssa.', 'DESIGN.md §2 C16'),

 'C19': ('effect-confinement scans (global / receiver stores) over the wire-reachable call graph + lockset (guarded-by) dataflow with gen/kill on Lock/Unlock',
         'Structural necessary conditions only: wire-reachable code writes no package-level state, shared server objects are never written through their receivers, the sqlite store signs with the secret it read back, the service-info pipes access their buffer/error/channels only under their mutexes (one reviewed exception), the closable readers channel is sent on only after its close indicator was seen open under the closing lock, no mutating method is called on package-level objects, sqlite.Open limits its pool to one connection, and every field of the service-info writer that a closer and the producer both touch (with a write on either side) is accessed under one common mutex. Race freedom in general, deadlock freedom, lost wake-ups and isolation inside other backends are properties of schedules and are not decided.',
         'Trusts go/types+go/ssa; lock identity is by canonical receiver address, carried into helpers through their call sites; the guarded-field table and its single exception are in /verif/checker/c19.go.', 'DESIGN.md §2 C19'),

 'C10': ('peer-taint analysis over the class-hierarchy call graph + guard obligations (explicit panics, partial lookups, allocations, compiler-unproven bounds, stdlib preconditions, type assertions, decoded-pointer nil checks, optional fields and optional parameters across static calls — contradiction rule) + must-pass dataflow',
         'Structural necessary conditions over all code reachable from the wire entry points: no explicit panic, unbounded allocation, unguarded index/slice (among those the Go compiler could not prove), unguarded stdlib precondition or unchecked type assertion is reachable with a peer-controlled operand without a dominating guard; pointers the decoder can leave nil (CBOR null) are compared with nil before they are dereferenced; responders convert failures to error messages; content-length guards dominate body processing. Nil dereferences of pointers that do not come from decoding, hangs, CPU and memory below the bounds are not decided.',
         'Trusts go/types+go/ssa, the Go compiler\'s prove pass (bounds-check elimination) as discharge oracle, the taint source/sink tables and three reviewed tables (panics, bounds, preconditions: one reason per entry) in /verif/checker/e3.go; values from the state store, callbacks and registries are assumed not attacker-controlled.', 'DESIGN.md §2 C10'),
 'C12': ('peer-taint guard obligations restricted to package cbor + must-pass (trailing data) + byte-string bounding table + who-may-call table for reader primitives (exact reads)',
         'Structural necessary conditions for the decoder with every input byte attacker-controlled: allocations sized from a wire head are dominated by an upper bound (and are non-negative), Unmarshal succeeds only without trailing bytes, byte-string wrappers decode from a reader limited to the announced length, explicit panics and compiler-unproven bounds are discharged; allocations proportional to claimed (not received) length are enumerated and carried as known findings. Termination, exact consumption and reflect-internal panics are not decided.',
         'Trusts go/types+go/ssa, the compiler\'s prove pass, the reviewed tables in /verif/checker/e3.go.', 'DESIGN.md §2 C12'),

 'C03': ('interprocedural must-pass dataflow + composite-literal field-source tables over go/ssa + sibling agreement of the replacement-key encoder',
         'Structural necessary conditions for agreement of credential and stored voucher: atomic placement of AddVoucher/ReplaceVoucher behind their session prerequisites and nonce checks; credentials returned only after the final message; the replacement header built by the device and the one stored by the owner assign all fields from the prescribed sources; SetupDevice carries the very values stored in the session; the HMACed header is the one that fills the credential; the DI header stored is the one sent. Equality of the encoded bytes, blob round trips, multi-round histories and crash points are not decided (value-/execution-level).',
         'Trusts go/types+go/ssa and the rule tables; field-source classes are provenance over-approximations.', 'DESIGN.md §2 C03'),
 'C09': ('registry / constant / switch tables extracted from the type-checked program and cross-compared; two must-pass gates',
         'Structural necessary conditions: suite, cipher, MAC, signature-algorithm and key-type registries and name tables agree with each other and with the constants; both sides reach Suite.New / ProveDevice only after Suite.Valid and kex.Available. That the ~750 valid configurations actually onboard is a run, not a shape, and Suite.Valid\'s truth table is not re-derived.',
         'Trusts go/types+go/ssa; constants are read from the packages, crypto.Hash numeric values from the Go standard library.', 'DESIGN.md §2 C09'),
 'C13': ('composite-literal agreement between sibling routines, must-pass dataflow, call-site tables over go/ssa',
         'Structural necessary conditions: Sign and Verify hash the same structure with the same field sources; the algorithm id is bound into the protected bucket before serialisation and verification hashes with the parsed, registered, available algorithm; a verifier-supplied detached payload is never ignored; one MAC routine; RFC 8152 fixed-width r||s layout; true only from ecdsa/rsa primitives; signature slicing only after the exact-length check. Bit-level unforgeability and runtime leading-zero behaviour are not decided.',
         'Trusts go/types+go/ssa, the rule tables, crypto/ecdsa, crypto/rsa, math/big.', 'DESIGN.md §2 C13'),
 'C17': ('must-pass dataflow (check dominates rename) inside package fsim + file-creation who-may-call table',
         'Structural necessary condition: each of the three rename-to-destination sites is dominated by the digest comparison (or explicit absence of a digest) and, where bytes are counted, by the length comparison; received data goes only to CreateTemp files. Bit identity, chunk/MTU boundaries and short transfers are not decided.',
         'Trusts go/types+go/ssa, rule tables, crypto/sha512, os.Rename atomicity.', 'DESIGN.md §2 C17'),
 'C18': ('SQL access table (constant arguments of insert/update/query/remove) vs schema parsed from Init; must-pass for session binding; receiver/global store scan; strict-insert table for the add that ReplaceVoucher builds on',
         'Structural necessary conditions: every table/column used exists; every access to a session-scoped table is keyed by the authenticated session id; upsert targets are unique keys (session for session tables); cascades exist; setter/getter column agreement and no shared value columns; ReplaceVoucher needs both insert and delete; expiry enforced with matching units; no in-memory state in *DB. SQLite semantics, concurrent histories, value fidelity and restarts as executions are not decided.',
         'Trusts go/types+go/ssa and the small SQL/DDL parser in the checker (regular CREATE TABLE shapes only; anything else is reported as undecided).', 'DESIGN.md §2 C18'),
 'C20': ('must-pass dataflow with complementary-flag correlation, role-arm shape check, decoded-on-success use analysis, constant coverage table',
         'Structural necessary conditions: role markers reject the other role; results copied only when non-nil; the port instruction is decoded only for the matching role; decoded values are read only on the success edge (or are of kinds the decoder assigns only on success); every RvVar constant is handled or listed as ignored by design. The value tables of the specification and order independence are not decided.',
         'Trusts go/types+go/ssa, rule tables.', 'DESIGN.md §2 C20'),

 'C01': ('interprocedural must-pass dataflow (check dominates effect) over go/ssa + call graph incl. goroutines/closures, provenance-typed atoms',
         'Structural necessary condition decided on all paths of the call graph of fdo.TO2: ProveDevice (type 64) is sent, device modules are invoked and TO2 reports success only after header-HMAC, manufacturer-key, entry-chain, chain-end-key equality, ProveOVHdr signature, fresh-nonce echo, HelloDevice-hash, to1d signature (or nil) and key-exchange validity checks passed, each with operand provenance; the verifiers\' own summaries are checked too. It does not prove cryptographic binding, nor behaviour for every tampered byte (value-level).',
         'Trusts go/types+go/ssa, the rule tables, stdlib crypto; atoms are never killed; provenance is over-approximate.', 'DESIGN.md §2 C01'),
 'C02': ('interprocedural must-pass dataflow + who-may-write / who-may-call tables over go/ssa',
         'Structural necessary conditions: key-exchange completion, session storage and SetupDevice only after the device proof (signature under the voucher\'s device key, session nonce, UEID=GUID); Respond for types 65..254 only after Session.Decrypt succeeded; SEK/SVK written only by constructors (empty), KDF-derived steps and restore; ProveOVHdr signed only after owner-key equality and suite validity; owner effects only in the 68/70 arms. Does not decide message ordering beyond what decryption under derived keys implies.',
         'Trusts go/types+go/ssa, rule tables, stdlib crypto; http.Handler is the only transport analysed.', 'DESIGN.md §2 C02'),
 'C05': ('interprocedural must-pass dataflow + call-site tables (session argument per message type, IV buffer identity) over go/ssa',
         'Structural necessary conditions for the tunnel: server and client encrypt before encoding and decrypt before dispatching/returning for every type in 65..254 (constants read from package protocol); SessionCrypter.Decrypt authenticates (MAC recomputed and compared, or AEAD suite) before decrypting; Encrypt0.Decrypt pins the algorithm header; every Crypter.Encrypt fills a fresh IV completely from rand and uses that buffer. Does not decide secrecy, bit-flip rejection inside AES/HMAC, or cross-session replay.',
         'Trusts go/types+go/ssa, rule tables, stdlib crypto/cipher, crypto/hmac.', 'DESIGN.md §2 C05'),
 'C07': ('interprocedural must-pass dataflow over go/ssa + sibling agreement table (expiry units)',
         'Structural necessary condition: the TO1 responder returns the registered blob only after nonce, UEID shape, registration lookup, device key and EAT signature checks (with provenance), returns the stored blob untouched, and the sqlite store enforces expiry with matching write/read time units. Device-side verification of the blob is decided under C01. Does not decide byte fidelity through storage or other backends.',
         'Trusts go/types+go/ssa, rule tables, stdlib crypto/time.', 'DESIGN.md §2 C07'),
 'C08': ('interprocedural must-pass dataflow, backward all-paths search, dispatch/constant tables over go/ssa',
         'Structural necessary conditions: each server effect has one wire-reachable call site, in the arm of the causing message, after the session reads of its prerequisite step; dispatch tables agree with message_types.go; token creation only on start messages, invalidation after every failure response, before final/error responses and on client error messages, always with a token-bearing context; sqlite tokens are MAC-checked. Does not explore histories or interleavings as executions.',
         'Trusts go/types+go/ssa, rule tables; sessions are assumed isolated by token (C18).', 'DESIGN.md §2 C08'),
 'C04': ('interprocedural must-pass dataflow (check dominates success return) over go/ssa + call graph + slice-aliasing scan of appends to the voucher entry list',
         'Structural necessary condition decided on all paths: each exported voucher verifier returns success only after its comparison atoms (hmac.Equal over recomputed values, x509 Verify, per-entry Sign1.Verify/header-hash/previous-hash, recursion on entries[1:] with the verified key) and ExtendVoucher only after type/size/owner-key equality. It does not prove that untampered vouchers verify nor bit-level tamper coverage; that is value-level and outside static reach.',
         'Trusts go/types+go/ssa, the atom/anchor tables in /verif/checker, and that stdlib hash/HMAC/x509/ECDSA/RSA behave as documented; provenance is over-approximate.', 'DESIGN.md §2 C04'),
 'C06': ('interprocedural must-pass dataflow (check dominates effect) over go/ssa + call graph, provenance-typed comparison atoms',
         'Structural necessary condition decided on all paths from (*TO0Server).Respond: the single wire-reachable SetRVBlob is dominated by the to0d-hash, non-empty-entries, VerifyEntries, session-nonce, TTL-policy and owner-signature checks (with operand provenance), VerifyEntries\' own summary carries the per-entry checks, and stored expiry and reply derive from the same ttl value. Does not decide cryptographic binding or clock behaviour.',
         'Trusts go/types+go/ssa, the rule tables, stdlib crypto; atoms are never killed (a checked variable later overwritten is not seen).', 'DESIGN.md §2 C06'),
}
na_reason = {}
for p in props:
    na_reason[p['id']] = 'check not built yet (work in progress; DESIGN.md §2 names the structural clause planned for it)'

checks = []
for p in props:
    i = p['id']
    if i not in claimed: continue
    tech, text, note, ref = claimed[i]
    checks.append({
        'property_id': i,
        'quick_cmd': f'./check {i} quick',
        'thorough_cmd': f'./check {i} thorough',
        'evidence_file': f'/verif/evidence/{i}.json',
        'replay_cmd_template': './check --replay {path}',
        'engine': 'fdocheck',
        'level_claimed': {'category': 'other', 'text': text, 'design_ref': ref},
        'level_note': note,
        'technique': 'static analysis: ' + tech,
    })
m = {
 'version': 1,
 'setup_cmd': './setup.sh',
 'hooks': {'guard': 'verif', 'enable': 'none: the checker reads /repo\'s working tree as is; no hook or build tag is used',
           'baseline_off_cmd': 'for m in . ./fsim ./sqlite ./tpm; do (cd /repo/$m && GOFLAGS=-mod=mod GOPROXY=off go test -vet=off -count=1 -timeout 25m ./...) || exit 1; done',
           'source_commits': [], 'add_only': True},
 'engines': [{'name': 'fdocheck', 'path': '/verif/checker', 'serves_properties': sorted(claimed),
              'kind_free_text': 'custom Go static analyser over go/packages + go/ssa (x/tools v0.29.0): E1 interprocedural must-pass dataflow with provenance-typed atoms, E2 structural tables, E3 wire-taint guards, E4 lockset'}],
 'checks': checks,
 'notes': 'Static analysis only; every check reloads /repo from disk, writes evidence/<id>.json, prints KNOWN-FINDING lines for entries of known_findings.json and VIOLATION lines otherwise. Exit 2 = machinery failure (load error, unresolved anchor, vacuous rule).',
 'not_applicable': [{'property_id': p['id'], 'reason': na_reason[p['id']]} for p in props if p['id'] not in claimed],
}
json.dump(m, open(os.path.join(here, 'MANIFEST.json'), 'w'), indent=1)
print('claimed:', sorted(claimed))
