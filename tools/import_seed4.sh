#!/bin/bash
# usage: import_seed4.sh <prop id>...   imports /tmp/seedout4/<id>/{patch.diff,demo_test.go,meta.json} as seeded/<id>-G
for id in "$@"; do
  src=/tmp/seedout4/$id
  [ -f $src/patch.diff ] || { echo "no patch for $id"; continue; }
  d=/verif/seeded/$id-G; mkdir -p $d
  cp $src/patch.diff $d/patch.diff
  cp $src/demo_test.go $d/demo_test.go.txt
  cp $src/meta.json $d/agent_meta.json
  echo imported $id-G
done
