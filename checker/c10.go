package main

import "golang.org/x/tools/go/ssa"

func init() {
	checks["C10"] = checkC10
	explanations["C10"] = "wip"
}

func checkC10(c *Ctx, p *Prog, r *Result) {
	e := newE3(p, r, wireRoots, nil)
	if debugDump == "survey" {
		e.survey()
	}
	e.g1(r, "C10")
	f := NewFlow(p, e3Rules(p), e.roots, nil)
	e.g2(r, "C10", f)
	e.g3(r, "C10", f, c.Repo)
	_ = ssa.Function{}
}
