package main

import (
	"fmt"
	"strings"

	"golang.org/x/tools/go/ssa"
)

// C10 — no peer-supplied bytes can crash, hang or exhaust a protocol endpoint.

func init() {
	checks["C10"] = checkC10
	explanations["C10"] = "Structural necessary conditions over everything reachable (class-hierarchy call graph incl. promoted methods and codec dispatch) from the wire entry points of the root, sqlite and fsim modules — http.Handler.ServeHTTP, the four Respond/HandleError, DI, TO1, TO2, TO0Client.RegisterBlob, http.Transport.Send, Parse*RvInfo — with a peer-taint analysis (E3): G1 every explicit panic is an SSA artifact, untainted, exhaustive-switch fallthrough or in a reviewed table, and every call of a panicking registry/enumeration accessor with a peer-controlled receiver is dominated by a validator; G2 every allocation with a peer-controlled size is len-derived, narrow-typed, constant-field or dominated by an upper bound (<= 2^24); G3 every index/slice the Go compiler's prove pass could NOT eliminate is untainted, guarded by comparisons on the very values, or reviewed (constant indices always need a length guard); G4 stdlib calls that panic on malformed arguments (IV/nonce length, whole blocks, short buffers) are guarded; G5 no unchecked type assertion on decoded values; G6 every pointer the decoder can leave nil (CBOR null into a pointer-typed exported field or slice element of a decoded object, followed through copies, fields, parameters and results) is compared with nil before it is dereferenced (also discharged by a completed loop that checks every element; callbacks shipped with the library are reached through signature-matched callback edges); G7 (contradiction rule) an interface- or function-typed struct field that some wire-reachable code compares with nil is optional, and every call through it is dominated by a nil check or an assignment of a call result; G8 a subtraction on an unsigned peer-controlled value outside the codec is dominated by a comparison that excludes wrap-around; G4 additionally covers reflect.Value.SetMapIndex (comparable key) and big.Int.FillBytes (buffer sized from the value's source); plus (E1) each Respond returns either its response under err==nil or the error message type, and both content-length guards dominate body processing on server and client. Also: a function that fills a ChunkInPipe from a slice and drains it afterwards in the same goroutine gives the pipe len(that slice) buffers. G7b carries G7 across static calls: a parameter compared with nil by its own function (not as a panic assertion) is nil-tolerant, the struct fields and caller parameters flowing into it may be nil, so may the parameters they are handed on to, and every invoke through a value derived from such a parameter needs a non-nil fact for it or for each value merged into it. Not decided: nil dereferences of pointers that do not come from decoding (configuration, state store, maps), nil interface values, panics inside reflect/stdlib other than the listed preconditions, hangs and CPU exhaustion (e.g. blocking pipes), memory below the stated bounds."
}

func checkC10(c *Ctx, p *Prog, r *Result) {
	e := newE3(p, r, wireRoots, nil)
	if debugDump == "survey" {
		e.survey()
	}
	e.g1(r, "C10")
	f := NewFlow(p, e3Rules(p), e.roots, nil)
	dumpFlow(f)
	e.g2(r, "C10", f)
	e.g3(r, "C10", f, c.Repo)
	e.g4(r, "C10", f)
	e.g5(r, "C10")
	e.g6(r, "C10", f)
	e.g7(r, "C10", f)
	e.g7b(r, "C10", f)
	e.g8(r, "C10", f)
	r.floor("C10.panics", 45)
	r.floor("C10.partial-lookups", 15)
	r.floor("C10.alloc-bounded", 35)
	r.floor("C10.bounds", 45)
	r.floor("C10.stdlib-preconditions", 8)
	r.floor("C10.type-assertions", 2)
	r.floor("C10.decoded-pointers", 30)
	c10ErrorConversion(p, r)
	c10ContentLength(p, r)
	c10PipeBuffer(p, r, f.Order)
}

// c10ErrorConversion: each Respond returns its response only under err==nil,
// otherwise the error message type.
func c10ErrorConversion(p *Prog, r *Result) {
	rule := "C10.error-conversion"
	r.rule(rule, "each server Respond method returns (respType, resp) only on the err==nil edge of its handler result; every other return carries the constant error message type")
	r.floor(rule, 8)
	errT, _ := p.constOf("fdo/protocol", "ErrorMsgType")
	rs := &RuleSet{Atoms: []AtomDef{
		{Name: "handler-ok", Doc: "the arm's handler returned a nil error", Edge: func(m *Matcher, pd Pred, holds bool) bool {
			return pd.Kind == "nil" && holds && isErrorType(pd.X.Type())
		}},
	}}
	for _, n := range []string{"fdo.DIServer.Respond", "fdo.TO0Server.Respond", "fdo.TO1Server.Respond", "fdo.TO2Server.Respond"} {
		fn := p.ByName[n]
		if fn == nil {
			r.fail("anchor %s not found", n)
			continue
		}
		f := NewFlow(p, rs, []*ssa.Function{fn}, func(g *ssa.Function) bool { return g != fn })
		for i, b := range fn.Blocks {
			ret, ok := b.Instrs[len(b.Instrs)-1].(*ssa.Return)
			if !ok || b == fn.Recover {
				continue
			}
			st := f.StateAt(ret)
			isErr := isConstInt(returnValue(ret, 0), errT) || resultAlwaysConst(p, returnValue(ret, 0), errT, 0)
			r.table(p, rule, fmt.Sprintf("return #%d of %s", i, n), p.instrPos(ret), isErr || st.Has("handler-ok"),
				fmt.Sprintf("error type constant=%v under err==nil=%v", isErr, st.Has("handler-ok")))
		}
	}
}

// c10ContentLength: body processing happens only after the content-length guards.
func c10ContentLength(p *Prog, r *Result) {
	rule := "C10.content-length"
	r.rule(rule, "on the server (before decrypting or dispatching the request body) and on the client (before decrypting or returning the response body): the size limit is disabled by configuration or 0 <= ContentLength <= limit was established")
	r.floor(rule, 4)
	isLimit := func(m *Matcher, v ssa.Value) bool {
		pv := m.Prov(v)
		return pv.Has("field:fdo/http.Handler.MaxContentLength") || pv.Has("field:fdo/http.Transport.MaxContentLength")
	}
	isLen := func(m *Matcher, v ssa.Value) bool {
		pv := m.Prov(v)
		return pv.HasX("field:net/http.Request.ContentLength") || pv.HasX("field:net/http.Response.ContentLength")
	}
	rs := &RuleSet{
		Atoms: []AtomDef{
			{Name: "limit-on", Edge: func(m *Matcher, pd Pred, holds bool) bool {
				return pd.Kind == "lt" && holds && isConstInt(pd.X, 0) && isLimit(m, pd.Y)
			}},
			{Name: "limit-off", Edge: func(m *Matcher, pd Pred, holds bool) bool {
				if pd.Kind == "lt" && !holds && isConstInt(pd.X, 0) && isLimit(m, pd.Y) { // !(0 < limit)
					return true
				}
				if pd.Kind == "lt" && holds && isConstInt(pd.Y, 0) && isLimit(m, pd.X) { // limit < 0
					return true
				}
				return pd.Kind == "le" && holds && isConstInt(pd.Y, 0) && isLimit(m, pd.X) // limit <= 0
			}},
			{Name: "len-le-max", Edge: func(m *Matcher, pd Pred, holds bool) bool {
				return pd.Kind == "lt" && !holds && isLimit(m, pd.X) && isLen(m, pd.Y)
			}},
			{Name: "len-nonneg", Edge: func(m *Matcher, pd Pred, holds bool) bool {
				return pd.Kind == "lt" && !holds && isLen(m, pd.X) && isConstInt(pd.Y, 0)
			}},
		},
		Complement: [][2]Atom{{"limit-on", "limit-off"}},
		Derive: []Derivation{
			{"len-guarded", []Atom{"limit-off"}},
			{"len-guarded", []Atom{"len-le-max", "len-nonneg"}},
		},
	}
	if h := p.ByName["fdo/http.Handler.ServeHTTP"]; h != nil {
		f := NewFlow(p, rs, []*ssa.Function{h}, nil)
		sites := f.CallSites(func(cal Callee, call ssa.CallInstruction) bool {
			return (cal.Name == "fdo/protocol.Responder.Respond" || cal.Name == "fdo/kex.Session.Decrypt") && strings.HasPrefix(p.FuncName(call.Parent()), "fdo/http.Handler")
		})
		r.requireAtSites(f, rule, sites, []Atom{"len-guarded"})
	} else {
		r.fail("anchor fdo/http.Handler.ServeHTTP not found")
	}
	if t := p.ByName["fdo/http.Transport.Send"]; t != nil {
		f := NewFlow(p, rs, []*ssa.Function{t}, nil)
		sites := f.CallSites(func(cal Callee, call ssa.CallInstruction) bool {
			return cal.Name == "fdo/kex.Session.Decrypt" && strings.HasPrefix(p.FuncName(call.Parent()), "fdo/http.Transport")
		})
		r.requireAtSites(f, rule, sites, []Atom{"len-guarded"})
		for _, fn := range f.Order {
			if fn == t || !strings.HasPrefix(p.FuncName(fn), "fdo/http.Transport.") {
				continue
			}
			res := fn.Signature.Results()
			if res.Len() == 3 && isErrorType(res.At(2).Type()) {
				r.requireAtReturns(f, rule, fn, 2, []Atom{"len-guarded"})
			}
		}
	} else {
		r.fail("anchor fdo/http.Transport.Send not found")
	}
}

// resultAlwaysConst: v is result i of a call to a module function every return
// of which yields the constant c for that result (directly or through another
// such function).
func resultAlwaysConst(p *Prog, v ssa.Value, c int64, depth int) bool {
	if depth > 3 {
		return false
	}
	var call *ssa.Call
	idx := 0
	switch x := v.(type) {
	case *ssa.Extract:
		call, _ = x.Tuple.(*ssa.Call)
		idx = x.Index
	case *ssa.Call:
		call = x
	}
	if call == nil {
		return false
	}
	body := p.body(call.Common().StaticCallee())
	if body == nil {
		return false
	}
	n := 0
	for _, b := range body.Blocks {
		ret, ok := b.Instrs[len(b.Instrs)-1].(*ssa.Return)
		if !ok || b == body.Recover {
			continue
		}
		if idx >= len(ret.Results) {
			return false
		}
		rv := returnValue(ret, idx)
		if !isConstInt(rv, c) && !resultAlwaysConst(p, rv, c, depth+1) {
			return false
		}
		n++
	}
	return n > 0
}
