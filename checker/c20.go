package main

import (
	"fmt"
	"go/token"
	"go/types"
	"strings"

	"golang.org/x/tools/go/ssa"
)

// C20 — rendezvous instructions are interpreted totally and per role.

func init() {
	checks["C20"] = checkC20
	explanations["C20"] = "Structural necessary conditions inside package protocol, from ParseDeviceRvInfo / ParseOwnerRvInfo: (1) role filter: in the per-directive parser the arm of the device-only marker returns nil when the role flag is false and the arm of the owner-only marker returns nil when it is true, and a directive is copied into the result only after the parser's result was found non-nil; (2) the port instruction is used only under (device && variable==RVDevPort) || (!device && variable==RVOwnerPort); (3) every value decoded with cbor.Unmarshal is read only on the err==nil edge of that call, except targets of string / byte-slice kind whose error is deliberately discarded (the decoder assigns those only on success); (4) every RvVar constant is tested by one of the two interpreters or is in the one-line ignored-by-design table; (5) E3: no explicit panic or unguarded index reachable from the two entry points depends on instruction values (ArrayShift is total). Also: a constant default port is assigned only where the port variable was found empty. Not decided: the value tables of the specification (which scheme/port/medium a value denotes), order independence."
}

func c20Rules(p *Prog, unmarshals map[ssa.CallInstruction]string) *RuleSet {
	devPort, _ := p.constOf("fdo/protocol", "RVDevPort")
	ownPort, _ := p.constOf("fdo/protocol", "RVOwnerPort")
	isVar := func(m *Matcher, v ssa.Value) bool { return m.Prov(v).Has("field:fdo/protocol.RvInstruction.Variable") }
	roleParam := func(v ssa.Value) bool {
		pr, ok := v.(*ssa.Parameter)
		return ok && isBool(pr.Type())
	}
	varIs := func(name Atom, c int64) AtomDef {
		return AtomDef{Name: name, Doc: fmt.Sprintf("the instruction variable is %d", c), Edge: func(m *Matcher, pd Pred, holds bool) bool {
			if pd.Kind != "eq" || !holds {
				return false
			}
			return (isConstInt(pd.Y, c) && isVar(m, pd.X)) || (isConstInt(pd.X, c) && isVar(m, pd.Y))
		}}
	}
	rs := &RuleSet{
		Atoms: []AtomDef{
			varIs("var=devport", devPort), varIs("var=ownerport", ownPort),
			AtomDef{Name: "is-device", Doc: "the role flag is true", Edge: func(m *Matcher, pd Pred, holds bool) bool { return pd.Kind == "bool" && holds && roleParam(pd.X) }},
			AtomDef{Name: "port-role-match", Doc: "the instruction variable equals a value that is RVDevPort exactly when the role flag is true and RVOwnerPort otherwise", Edge: func(m *Matcher, pd Pred, holds bool) bool {
				if pd.Kind != "eq" || !holds {
					return false
				}
				for _, pr := range [][2]ssa.Value{{pd.X, pd.Y}, {pd.Y, pd.X}} {
					if isVar(m, pr[0]) && rolePortPhi(pr[1], roleParam, devPort, ownPort) {
						return true
					}
				}
				return false
			}},
			AtomDef{Name: "not-device", Doc: "the role flag is false", Edge: func(m *Matcher, pd Pred, holds bool) bool { return pd.Kind == "bool" && !holds && roleParam(pd.X) }},
			AtomDef{Name: "str-empty", Doc: "a string value was found empty", EdgeDyn: func(m *Matcher, pd Pred, holds bool) []Atom {
				if pd.Kind != "eq" || !holds {
					return nil
				}
				for _, pr := range [][2]ssa.Value{{pd.X, pd.Y}, {pd.Y, pd.X}} {
					if c, ok := pr[1].(*ssa.Const); ok && c.Value != nil && c.Value.ExactString() == `""` {
						return []Atom{Atom("v:empty:" + pr[0].Name())}
					}
				}
				return nil
			}},
			notNil("dir-nonnil", "the per-directive parser returned a directive", func(m *Matcher, v ssa.Value) bool {
				_, _, call := m.ResultOf(v)
				return call != nil && m.P.body(call.Common().StaticCallee()) != nil
			}),
		},
		Complement: [][2]Atom{{"is-device", "not-device"}},
		Derive: []Derivation{
			{"port-role-match", []Atom{"is-device", "var=devport"}},
			{"port-role-match", []Atom{"not-device", "var=ownerport"}},
		},
	}
	for call, name := range unmarshals {
		c := call
		rs.Atoms = append(rs.Atoms, AtomDef{Name: name, Doc: "that cbor.Unmarshal returned nil", Edge: func(m *Matcher, pd Pred, holds bool) bool {
			if pd.Kind != "nil" || !holds {
				return false
			}
			got, _ := m.CallResult(pd.X)
			return got == c
		}})
	}
	return rs
}

// rolePortPhi reports whether v is a two-way merge that selects dev when the
// role flag is true and own when it is false: the merge block's incoming edge
// carrying dev comes (directly or through one empty block) from the true
// successor of `if flag`, the edge carrying own from its false successor.
func rolePortPhi(v ssa.Value, roleParam func(ssa.Value) bool, dev, own int64) bool {
	if cv, ok := v.(*ssa.Convert); ok {
		v = cv.X
	}
	phi, ok := v.(*ssa.Phi)
	if !ok || len(phi.Edges) != 2 {
		return false
	}
	blk := phi.Block()
	// origin(i): the (if-block, successor index) that edge i descends from
	origin := func(i int) (*ssa.If, int) {
		pred := blk.Preds[i]
		if ifi, ok := pred.Instrs[len(pred.Instrs)-1].(*ssa.If); ok {
			for k, s := range pred.Succs {
				if s == blk {
					return ifi, k
				}
			}
			return nil, -1
		}
		if len(pred.Preds) == 1 && len(pred.Succs) == 1 {
			pp := pred.Preds[0]
			if ifi, ok := pp.Instrs[len(pp.Instrs)-1].(*ssa.If); ok {
				for k, s := range pp.Succs {
					if s == pred {
						return ifi, k
					}
				}
			}
		}
		return nil, -1
	}
	okDev, okOwn := false, false
	for i, e := range phi.Edges {
		c, isC := constInt(e)
		ifi, k := origin(i)
		if !isC || ifi == nil {
			return false
		}
		pd, onTrue := normCond(ifi.Cond)
		if pd.Kind != "bool" || !roleParam(pd.X) {
			return false
		}
		flagTrue := (k == 0) == onTrue
		if c == dev && flagTrue {
			okDev = true
		}
		if c == own && !flagTrue {
			okOwn = true
		}
	}
	return okDev && okOwn
}

func checkC20(c *Ctx, p *Prog, r *Result) {
	dev, own := p.ByName["fdo/protocol.ParseDeviceRvInfo"], p.ByName["fdo/protocol.ParseOwnerRvInfo"]
	if dev == nil || own == nil {
		r.fail("anchors ParseDeviceRvInfo / ParseOwnerRvInfo not found")
		return
	}
	roots := []*ssa.Function{dev, own}
	region := p.Reachable(roots, func(fn *ssa.Function) bool { return funcPkgPath(fn) != modulePath+"/protocol" })
	unmarshals := map[ssa.CallInstruction]string{}
	for fn := range region {
		k := 0
		for _, b := range fn.Blocks {
			for _, in := range b.Instrs {
				if call, ok := in.(ssa.CallInstruction); ok && p.calleeOf(call.Common()).Name == "fdo/cbor.Unmarshal" {
					k++
					unmarshals[call] = fmt.Sprintf("unmarshal-ok:%s#%d", p.FuncName(fn), k)
				}
			}
		}
	}
	rs := c20Rules(p, unmarshals)
	f := NewFlow(p, rs, roots, func(fn *ssa.Function) bool { return funcPkgPath(fn) != modulePath+"/protocol" })
	r.useFlow(f)
	dumpFlow(f)

	// (1) role filter
	r.rule("C20.role-filter", "the device-only arm returns nil for the owner view and the owner-only arm returns nil for the device view; results are copied only when non-nil")
	r.floor("C20.role-filter", 4)
	devOnly, _ := p.constOf("fdo/protocol", "RVDevOnly")
	ownOnly, _ := p.constOf("fdo/protocol", "RVOwnerOnly")
	for _, fn := range f.Order {
		m := f.matcherFor(fn)
		for _, b := range fn.Blocks {
			ifi, ok := b.Instrs[len(b.Instrs)-1].(*ssa.If)
			if !ok {
				continue
			}
			bo, ok := ifi.Cond.(*ssa.BinOp)
			if !ok || bo.Op != token.EQL || !m.Prov(bo.X).Has("field:fdo/protocol.RvInstruction.Variable") {
				continue
			}
			cv, ok := constInt(bo.Y)
			if !ok || (cv != devOnly && cv != ownOnly) {
				continue
			}
			// the arm must branch on the role flag with the right polarity to `return nil`
			arm := b.Succs[0]
			ok2 := false
			detail := "arm does not branch on the role flag"
			if ai, isIf := arm.Instrs[len(arm.Instrs)-1].(*ssa.If); isIf {
				// evaluate the arm's condition for this instruction and the role that
				// must be rejected (device-only: the owner view, i.e. flag false;
				// owner-only: the device view, flag true); the chosen edge must return nil
				reject := cv == ownOnly
				var eval func(v ssa.Value, d int) (bool, bool)
				eval = func(v ssa.Value, d int) (bool, bool) {
					if d > 6 {
						return false, false
					}
					switch x := v.(type) {
					case *ssa.Parameter:
						if isBool(x.Type()) {
							return reject, true
						}
					case *ssa.Const:
						if x.Value != nil && isBool(x.Type()) {
							return x.Value.ExactString() == "true", true
						}
					case *ssa.UnOp:
						if x.Op == token.NOT {
							if b, ok := eval(x.X, d+1); ok {
								return !b, true
							}
						}
					case *ssa.BinOp:
						if x.Op != token.EQL && x.Op != token.NEQ {
							return false, false
						}
						for _, pr := range [][2]ssa.Value{{x.X, x.Y}, {x.Y, x.X}} {
							if c, ok := constInt(pr[1]); ok && m.Prov(pr[0]).Has("field:fdo/protocol.RvInstruction.Variable") {
								return (cv == c) == (x.Op == token.EQL), true
							}
						}
						a, ok1 := eval(x.X, d+1)
						b, ok2 := eval(x.Y, d+1)
						if ok1 && ok2 {
							return (a == b) == (x.Op == token.EQL), true
						}
					}
					return false, false
				}
				if val, okE := eval(ai.Cond, 0); okE {
					idx := 1
					if val {
						idx = 0
					}
					ok2 = returnsNil(arm.Succs[idx])
					detail = fmt.Sprintf("for the role to reject the arm's condition is %v and that edge leads to return nil=%v", val, ok2)
				}
			}
			which := "RVDevOnly"
			if cv == ownOnly {
				which = "RVOwnerOnly"
			}
			r.table(p, "C20.role-filter", which+" arm in "+p.FuncName(fn), p.instrPos(ifi), ok2, detail)
		}
	}
	for _, root := range roots {
		k := 0
		for _, b := range root.Blocks {
			for _, in := range b.Instrs {
				st, ok := in.(*ssa.Store)
				if !ok {
					continue
				}
				if _, isIdx := st.Addr.(*ssa.IndexAddr); !isIdx {
					continue
				}
				k++
				s := f.StateAt(st)
				o := Obl{Rule: "C20.role-filter", Construct: fmt.Sprintf("C20.role-filter | result store #%d in %s", k, p.FuncName(root)), Pos: p.instrPos(in), Config: p.Config.Name,
					Required: []string{"dir-nonnil"}, Found: s.list(), OK: s.Has("dir-nonnil")}
				if !o.OK {
					o.Missing = []string{"dir-nonnil"}
					o.Detail = r.explain(f, root, b, o.Missing)
				}
				r.add(o)
			}
		}
	}

	// (1b) default ports never override an explicit one
	r.rule("C20.default-port-guarded", "in the URL interpreter a constant default port is assigned to the port variable only where that variable was found empty (so an explicit port instruction wins regardless of instruction order)")
	r.floor("C20.default-port-guarded", 1)
	for fn := range region {
		k := 0
		for _, b := range fn.Blocks {
			for _, in := range b.Instrs {
				phi, ok := in.(*ssa.Phi)
				if !ok {
					break
				}
				if bt, ok := phi.Type().Underlying().(*types.Basic); !ok || bt.Kind() != types.String {
					continue
				}
				for i, e := range phi.Edges {
					sv, ok := defaultPortValue(p, e)
					if !ok {
						continue
					}
					k++
					pred := b.Preds[i]
					st, reached := f.edgeSt[[2]*ssa.BasicBlock{pred, b}]
					okv := false
					if reached {
						st = f.close(st)
						// the variable tested empty is the one being defaulted: some other edge of this phi (or the phi itself) carries it
						for _, o := range phi.Edges {
							if st.Has(Atom("v:empty:" + o.Name())) {
								okv = true
							}
						}
						if st.Has(Atom("v:empty:" + phi.Name())) {
							okv = true
						}
					}
					r.table(p, "C20.default-port-guarded", fmt.Sprintf("default %q #%d in %s", sv, k, p.FuncName(fn)), p.instrPos(pred.Instrs[len(pred.Instrs)-1]), okv, "assigned only under <port variable> == \"\"")
				}
			}
		}
	}

	// (2) port per role, (3) decoded values only on success
	r.rule("C20.port-per-role", "the port instruction's value is decoded only under (device && RVDevPort) || (!device && RVOwnerPort)")
	r.floor("C20.port-per-role", 1)
	r.rule("C20.decoded-on-success", "a value decoded with cbor.Unmarshal is read only where that call returned nil; discarded errors are allowed only for string / byte-slice targets")
	r.floor("C20.decoded-on-success", 11)
	for call, atom := range unmarshals {
		fn := call.Parent()
		m := f.matcherFor(fn)
		args := allArgs(call)
		al := baseAlloc(stripConv(args[1]))
		key := siteKey(p, call)
		if al == nil {
			r.table(p, "C20.decoded-on-success", key, p.instrPos(call), false, "target is not a local variable: undecided")
			continue
		}
		// port instruction: target is uint16
		if strings.HasSuffix(al.Type().String(), "*uint16") {
			r.requireAtSites(f, "C20.port-per-role", []ssa.CallInstruction{call}, []Atom{"port-role-match"})
		}
		// is the error observed?
		observed := false
		if v, ok := call.(ssa.Value); ok {
			for _, ref := range *v.Referrers() {
				if _, isBin := ref.(*ssa.BinOp); isBin {
					observed = true
				}
			}
		}
		if !observed {
			t := al.Type().String()
			okKind := strings.HasSuffix(t, "*string") || strings.Contains(t, "[]byte") || strings.Contains(t, "net.IP")
			r.table(p, "C20.decoded-on-success", key, p.instrPos(call), okKind, "error discarded; target type "+t+" (decoder assigns string/byte-slice targets only on success)")
			continue
		}
		bad := ""
		n := 0
		for _, ref := range *al.Referrers() {
			var use ssa.Instruction
			switch x := ref.(type) {
			case *ssa.UnOp:
				use = x
			case *ssa.FieldAddr, *ssa.MakeInterface:
				continue
			case *ssa.Store:
				if x.Addr == ssa.Value(al) {
					continue // initialisation
				}
				use = x // address escapes into the directive: must be on the success edge
			default:
				continue
			}
			n++
			if !f.StateAt(use).Has(atom) {
				bad += " use at " + p.instrPos(use)
			}
		}
		_ = m
		r.table(p, "C20.decoded-on-success", key, p.instrPos(call), bad == "", fmt.Sprintf("%d uses of the decoded variable;%s", n, bad))
	}

	// (4) every variable handled or listed
	r.rule("C20.variables-covered", "every protocol.RvVar constant is tested by the directive interpreter or the URL interpreter, or is listed as ignored by design")
	r.floor("C20.variables-covered", 16)
	ignored := map[string]string{"RVUserInput": "asks the installer for input; carries no address information and has no library-level interpretation"}
	tested := map[string]bool{}
	for fn := range region {
		for k := range switchConsts(fn, "fdo/protocol.RvVar") {
			tested[k] = true
		}
	}
	for name, v := range p.constsOfType("fdo/protocol.RvVar") {
		_, ign := ignored[name]
		r.table(p, "C20.variables-covered", name, "-", tested[v.ExactString()] != ign, fmt.Sprintf("tested=%v ignored-by-design=%v", tested[v.ExactString()], ign))
	}

	panicObligations(c, p, r, "C20", roots, nil)
}

// returnsNil: the block (through jumps) returns a nil constant as first result.
func returnsNil(b *ssa.BasicBlock) bool {
	for k := 0; k < 6; k++ {
		last := b.Instrs[len(b.Instrs)-1]
		if ret, ok := last.(*ssa.Return); ok {
			if len(ret.Results) == 0 {
				return false
			}
			c, ok := ret.Results[0].(*ssa.Const)
			return ok && c.IsNil()
		}
		if _, ok := last.(*ssa.Jump); ok && len(b.Instrs) == 1 {
			b = b.Succs[0]
			continue
		}
		return false
	}
	return false
}

// defaultPortValue: v is a constant string of digits, or the result of a module
// function one of whose returns yields such a constant for that result (a
// protocol -> default port table kept in a helper).
func defaultPortValue(p *Prog, v ssa.Value) (string, bool) {
	digits := func(x ssa.Value) (string, bool) {
		c, ok := x.(*ssa.Const)
		if !ok || c.Value == nil {
			return "", false
		}
		sv, err := unquote(c.Value.ExactString())
		if err != nil || sv == "" || strings.Trim(sv, "0123456789") != "" {
			return "", false
		}
		return sv, true
	}
	if sv, ok := digits(v); ok {
		return sv, true
	}
	idx := 0
	var call *ssa.Call
	switch x := v.(type) {
	case *ssa.Extract:
		call, _ = x.Tuple.(*ssa.Call)
		idx = x.Index
	case *ssa.Call:
		call = x
	}
	if call == nil {
		return "", false
	}
	body := p.body(call.Common().StaticCallee())
	if body == nil {
		return "", false
	}
	for _, b := range body.Blocks {
		ret, ok := b.Instrs[len(b.Instrs)-1].(*ssa.Return)
		if !ok || idx >= len(ret.Results) {
			continue
		}
		if sv, ok := digits(returnValue(ret, idx)); ok {
			return "table in " + p.FuncName(body) + " (e.g. " + sv + ")", true
		}
	}
	return "", false
}
