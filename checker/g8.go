package main

// E3 / G8 — unsigned underflow: `x - c` on an unsigned, peer-controlled x wraps
// around when x < c; the result then passes for a huge size or budget. Every
// such subtraction needs a dominating comparison establishing x >= c (or, for
// x - y with both variable, y <= x).

import (
	"fmt"
	"go/token"

	"golang.org/x/tools/go/ssa"
)

func (e *E3) g8(r *Result, prefix string, f *Flow) {
	p := e.p
	rule := prefix + ".unsigned-underflow"
	r.rule(rule, "G8: a subtraction on an unsigned peer-controlled value (x - c, x - y) is dominated by a comparison that excludes wrap-around (x >= c, c <= x, y <= x ...), or its operands are lengths / constants for which it cannot wrap")
	for _, fn := range e.order {
		if !f.Region[fn] || funcPkgPath(fn) == modulePath+"/cbor" {
			continue // the codec's integer arithmetic (two's complement negation, head values) is C11/C12 territory
		}
		m := f.matcherFor(fn)
		k := 0
		for _, b := range fn.Blocks {
			for _, in := range b.Instrs {
				bo, ok := in.(*ssa.BinOp)
				if !ok || bo.Op != token.SUB || !isUnsigned(bo) {
					continue
				}
				if !e.t.Is(bo.X) && !e.t.Is(bo.Y) {
					continue
				}
				k++
				construct := fmt.Sprintf("unsigned subtraction #%d in %s", k, p.FuncName(fn))
				st := f.StateAt(bo)
				okv, detail := false, ""
				if c, isC := constInt(intRootNoVar(bo.Y)); isC {
					// x - c: need x >= c: facts v:lbc:<x>:<c'> with c' >= c
					okv = st.Has(Atom(fmt.Sprintf("v:lbc:%s:%d", canon(bo.X), c)))
					detail = fmt.Sprintf("needs %s >= %d established", canon(bo.X), c)
					if lb, has := maxLowerBound(bo.X); !okv && has && lb >= c {
						okv, detail = true, fmt.Sprintf("the minuend is max(..., %d), which cannot be less than %d", lb, c)
					}
				} else {
					okv = st.Has(Atom("v:le-val:"+canon(bo.Y)+":"+canon(bo.X))) || st.Has(Atom("v:lt-val:"+canon(bo.Y)+":"+canon(bo.X)))
					detail = fmt.Sprintf("needs %s <= %s established", canon(bo.Y), canon(bo.X))
				}
				if !okv && budgetMinusChunkSize(m, bo) {
					okv, detail = true, "budget -= chunk.Size(): the chunk was returned by ReadChunk(budget), whose encoded size does not exceed the budget it was given (the size accounting itself is decided by C15.readchunk-overhead / C15.size-boundaries)"
				}
				r.table(p, rule, construct, p.instrPos(in), okv, detail)
			}
		}
	}
}

// budgetMinusChunkSize: X - Y where Y is KV.Size() of the chunk that
// ChunkReader.ReadChunk returned when it was given X as its size.
func budgetMinusChunkSize(m *Matcher, bo *ssa.BinOp) bool {
	n, _, sz := m.ResultOf(bo.Y)
	if sz == nil || n != "fdo/serviceinfo.KV.Size" {
		return false
	}
	recv := allArgs(sz)[0]
	rn, idx, src := m.ResultOf(recv)
	if src == nil || idx != 0 || rn != "fdo/serviceinfo.ChunkReader.ReadChunk" {
		return false
	}
	given := allArgs(src)[1]
	return canon(given) == canon(bo.X) || given == bo.X
}

// maxLowerBound: v is a call of the builtin max with a constant argument; that
// constant is a lower bound of the result.
func maxLowerBound(v ssa.Value) (int64, bool) {
	call, ok := intRootNoVar(v).(*ssa.Call)
	if !ok {
		return 0, false
	}
	bi, ok := call.Call.Value.(*ssa.Builtin)
	if !ok || bi.Name() != "max" {
		return 0, false
	}
	best, has := int64(0), false
	for _, a := range call.Call.Args {
		if c, isC := constInt(intRootNoVar(a)); isC && (!has || c > best) {
			best, has = c, true
		}
	}
	return best, has
}
