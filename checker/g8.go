package main

// E3 / G8 — unsigned underflow: `x - c` on an unsigned, peer-controlled x wraps
// around when x < c; the result then passes for a huge size or budget. Every
// such subtraction needs a dominating comparison establishing x >= c (or, for
// x - y with both variable, y <= x).

import (
	"fmt"
	"go/token"

	"golang.org/x/tools/go/ssa"
)

func (e *E3) g8(r *Result, prefix string, f *Flow) {
	p := e.p
	rule := prefix + ".unsigned-underflow"
	r.rule(rule, "G8: a subtraction on an unsigned peer-controlled value (x - c, x - y) is dominated by a comparison that excludes wrap-around (x >= c, c <= x, y <= x ...), or its operands are lengths / constants for which it cannot wrap")
	for _, fn := range e.order {
		if !f.Region[fn] || funcPkgPath(fn) == modulePath+"/cbor" {
			continue // the codec's integer arithmetic (two's complement negation, head values) is C11/C12 territory
		}
		m := f.matcherFor(fn)
		k := 0
		for _, b := range fn.Blocks {
			for _, in := range b.Instrs {
				bo, ok := in.(*ssa.BinOp)
				if !ok || bo.Op != token.SUB || !isUnsigned(bo) {
					continue
				}
				if !e.t.Is(bo.X) && !e.t.Is(bo.Y) {
					continue
				}
				k++
				construct := fmt.Sprintf("unsigned subtraction #%d in %s", k, p.FuncName(fn))
				st := f.StateAt(bo)
				okv, detail := false, ""
				if c, isC := constInt(intRootNoVar(bo.Y)); isC {
					// x - c: need x >= c: facts v:lbc:<x>:<c'> with c' >= c
					okv = st.Has(Atom(fmt.Sprintf("v:lbc:%s:%d", canon(bo.X), c)))
					detail = fmt.Sprintf("needs %s >= %d established", canon(bo.X), c)
				} else {
					okv = st.Has(Atom("v:le-val:"+canon(bo.Y)+":"+canon(bo.X))) || st.Has(Atom("v:lt-val:"+canon(bo.Y)+":"+canon(bo.X)))
					detail = fmt.Sprintf("needs %s <= %s established", canon(bo.Y), canon(bo.X))
				}
				_ = m
				if reason, listed := reviewedUnderflow[p.FuncName(fn)]; !okv && listed {
					okv, detail = true, "reviewed: "+reason
				}
				r.table(p, rule, construct, p.instrPos(in), okv, detail)
			}
		}
	}
}

var reviewedUnderflow = map[string]string{
	"fdo.exchangeServiceInfoRound": "budget -= chunk.Size(): ReadChunk(budget) returns a chunk whose encoded size does not exceed the budget it was given (the size accounting itself is decided by C15.readchunk-overhead / C15.size-boundaries)",
}
