package main

// E1 — interprocedural must-pass analysis (check dominates effect).
//
// A forward MUST dataflow over each function's SSA control-flow graph. Facts
// ("atoms") are generated on the edges of conditional branches whose condition
// matches an atom definition, by executed calls, and by the success summaries
// of in-module callees. Calling contexts and summaries are solved together as a
// greatest fixed point over the region reachable from a stated entry point.

import (
	"fmt"
	"go/constant"
	"go/token"
	"go/types"
	"os"
	"sort"
	"strconv"
	"strings"

	"golang.org/x/tools/go/ssa"
)

type Atom = string

// AtomSet is a set of atoms with a distinguished TOP (all atoms; the value of
// unreached program points in the optimistic fixed point).
type AtomSet struct {
	top bool
	m   map[Atom]bool
}

func topSet() AtomSet   { return AtomSet{top: true} }
func emptySet() AtomSet { return AtomSet{m: map[Atom]bool{}} }

func (s AtomSet) Has(a Atom) bool { return s.top || s.m[a] }
func (s AtomSet) clone() AtomSet {
	if s.top {
		return s
	}
	m := make(map[Atom]bool, len(s.m))
	for k := range s.m {
		m[k] = true
	}
	return AtomSet{m: m}
}
func (s AtomSet) with(as ...Atom) AtomSet {
	if s.top || len(as) == 0 {
		return s
	}
	c := s.clone()
	for _, a := range as {
		c.m[a] = true
	}
	return c
}
func (s AtomSet) without(as ...Atom) AtomSet {
	if s.top || len(as) == 0 {
		return s
	}
	c := s.clone()
	for _, a := range as {
		if strings.HasPrefix(a, "~") {
			loc := a[1:]
			for x := range c.m {
				if mentionsLoc(x, loc) {
					delete(c.m, x)
				}
			}
			continue
		}
		delete(c.m, a)
	}
	return c
}

// mentionsLoc: atom a has loc as one of its ':'- or '=>'-separated components.
func mentionsLoc(a, loc string) bool {
	for _, part := range strings.Split(a, "=>") {
		for _, c := range strings.Split(part, ":") {
			if c == loc {
				return true
			}
		}
	}
	return false
}

// dynComplement: v:nn:<x> and v:nil:<x> are mutually exclusive and exhaustive.
func dynComplement(a Atom) (Atom, bool) {
	switch {
	case strings.HasPrefix(a, "v:nn:"):
		return "v:nil:" + a[len("v:nn:"):], true
	case strings.HasPrefix(a, "v:nil:"):
		return "v:nn:" + a[len("v:nil:"):], true
	}
	return "", false
}
func (s AtomSet) union(o AtomSet) AtomSet {
	if s.top || o.top {
		return topSet()
	}
	c := s.clone()
	for a := range o.m {
		c.m[a] = true
	}
	return c
}
func (s AtomSet) meet(o AtomSet) AtomSet {
	if s.top {
		return o
	}
	if o.top {
		return s
	}
	c := emptySet()
	for a := range s.m {
		if o.m[a] {
			c.m[a] = true
		}
	}
	return c
}
func (s AtomSet) equal(o AtomSet) bool {
	if s.top != o.top {
		return false
	}
	if s.top {
		return true
	}
	if len(s.m) != len(o.m) {
		return false
	}
	for a := range s.m {
		if !o.m[a] {
			return false
		}
	}
	return true
}
func (s AtomSet) list() []string {
	if s.top {
		return []string{"<unreached>"}
	}
	var l []string
	for a := range s.m {
		if !strings.HasPrefix(a, "nn:") && !strings.HasPrefix(a, "v:") {
			l = append(l, a)
		}
	}
	sort.Strings(l)
	return l
}

// exported drops function-local facts.
func (s AtomSet) exported() AtomSet {
	if s.top {
		return s
	}
	c := emptySet()
	for a := range s.m {
		if !strings.HasPrefix(a, "nn:") && !strings.HasPrefix(a, "v:") && !strings.HasPrefix(a, "held:") && !strings.Contains(a, "=>") {
			c.m[a] = true
		}
	}
	return c
}

// Pred is a normalised branch condition.
//
//	nil:  X == nil
//	bool: X (a bool-valued value that is not itself a comparison/negation)
//	eq:   X == Y
//	lt:   X < Y        le: X <= Y
type Pred struct {
	Kind string
	X, Y ssa.Value
}

// normCond normalises an If condition; onTrue tells whether the predicate
// holds on the true edge (otherwise on the false edge).
func normCond(v ssa.Value) (Pred, bool) {
	onTrue := true
	for {
		if u, ok := v.(*ssa.UnOp); ok && u.Op == token.NOT {
			v = u.X
			onTrue = !onTrue
			continue
		}
		break
	}
	if b, ok := v.(*ssa.BinOp); ok {
		isNil := func(x ssa.Value) bool {
			c, ok := x.(*ssa.Const)
			return ok && c.IsNil()
		}
		switch b.Op {
		case token.EQL, token.NEQ:
			if b.Op == token.NEQ {
				onTrue = !onTrue
			}
			if isNil(b.Y) {
				return Pred{Kind: "nil", X: b.X}, onTrue
			}
			if isNil(b.X) {
				return Pred{Kind: "nil", X: b.Y}, onTrue
			}
			return Pred{Kind: "eq", X: b.X, Y: b.Y}, onTrue
		case token.LSS:
			return Pred{Kind: "lt", X: b.X, Y: b.Y}, onTrue
		case token.LEQ:
			return Pred{Kind: "le", X: b.X, Y: b.Y}, onTrue
		case token.GTR:
			return Pred{Kind: "lt", X: b.Y, Y: b.X}, onTrue
		case token.GEQ:
			return Pred{Kind: "le", X: b.Y, Y: b.X}, onTrue
		}
	}
	return Pred{Kind: "bool", X: v}, onTrue
}

// AtomDef defines one named check.
type AtomDef struct {
	Name Atom
	Doc  string
	// Edge is called for every conditional edge: p is the normalised
	// predicate and holds says whether p is true on this edge.
	Edge func(m *Matcher, p Pred, holds bool) bool
	// Exec is called for every call instruction; the atom holds after it.
	Exec func(m *Matcher, call ssa.CallInstruction) bool
	// ExecAny is called for every non-call instruction; the atom holds after it.
	ExecAny func(m *Matcher, in ssa.Instruction) bool
	// ExecDyn returns atoms generated (gen) and removed (kill) by executing a
	// call, e.g. lock acquisition and release ("held:<mutex>").
	ExecDyn func(m *Matcher, call ssa.CallInstruction) (gen, kill []Atom)
	// EdgeDyn returns dynamically named, function-local atoms (prefix "v:")
	// established on this edge, e.g. bounds facts about a particular SSA value.
	EdgeDyn func(m *Matcher, p Pred, holds bool) []Atom
	// AnyDyn returns atoms generated and removed by a non-call instruction
	// (e.g. a store that overwrites a location facts were keyed by). A kill
	// entry "~<loc>" removes every atom that mentions location <loc>.
	AnyDyn func(m *Matcher, in ssa.Instruction) (gen, kill []Atom)
}

// Derivation: Head holds wherever all of Body hold.
type Derivation struct {
	Head Atom
	Body []Atom
}

// RuleSet is the atom vocabulary of one analysis.
type RuleSet struct {
	Atoms  []AtomDef
	Derive []Derivation
	// DeriveDyn derives dynamically named atoms from the atoms of a state
	// (called while closing a state), e.g. a bound with a small constant from
	// a relational fact whose right-hand side became a constant by translation.
	DeriveDyn func(has func(Atom) bool, each func(func(Atom))) []Atom
	// Translate is called for every parametric fact of a callee ("v:..:$i..")
	// applied at a call site, with the call's operands; it may return further
	// (statically named) atoms, e.g. "the value classified by the helper is
	// this function's response type".
	Translate func(m *Matcher, fact Atom, ops []ssa.Value) []Atom
	// DynComplement enables the complement treatment for the dynamic pair
	// v:nn:<x> / v:nil:<x>.
	DynComplement bool
	// Complement lists pairs of mutually exclusive, exhaustive atoms about the
	// same value (e.g. a flag being true / false). At a join of a state holding
	// A with a state holding B the analysis keeps "A=>X" for facts X known only
	// on the A side, and re-establishes X where A is generated again (the
	// `(a && p) || (!a && q)` shape, which tests a twice).
	Complement [][2]Atom
}

// Matcher gives atom definitions access to the program and the function under
// analysis.
type Matcher struct {
	P  *Prog
	Fn *ssa.Function
	pv *provCache
}

// Flow is one solved E1 analysis over a region.
type Flow struct {
	P      *Prog
	RS     *RuleSet
	Roots  []*ssa.Function
	Region map[*ssa.Function]bool
	Order  []*ssa.Function

	ctx     map[*ssa.Function]AtomSet
	sumErr  map[*ssa.Function]map[int]AtomSet // result index (type error) -> atoms on "may be nil" returns
	sumTrue map[*ssa.Function]map[int]AtomSet // result index (type bool) -> atoms on "may be true" returns
	in      map[*ssa.BasicBlock]AtomSet
	gen     map[*ssa.BasicBlock][2][]Atom // static per-edge atoms from AtomDefs (index 0 = true edge)
	genSum  map[*ssa.BasicBlock][2][]sumRef
	exec    map[ssa.Instruction][]Atom
	kill    map[ssa.Instruction][]Atom
	// boolean-phi conditions (a && b used as a value, e.g. in a switch case):
	// per predecessor, the atoms generated when that incoming value is
	// true (index 0) / false (index 1), and whether the incoming value is a
	// constant.
	phiGen map[*ssa.BasicBlock][]phiIn
	edgeSt map[[2]*ssa.BasicBlock]AtomSet
	// sumFalse: static atoms holding when a bool result is false
	sumFalse map[*ssa.Function]map[int]AtomSet
	// ctxDyn: non-nil facts about the objects handed to a function, holding at every in-region call site, in the callee's names
	ctxDyn map[*ssa.Function][]Atom
	// dyn: kind ("err"|"true"|"false") -> function -> result index -> parametric facts
	dyn    map[string]map[*ssa.Function]map[int][]Atom
	mcache map[*ssa.Function]*Matcher
	Rounds int
}

type phiIn struct {
	constVal int // -1 not constant, 0 false, 1 true
	gen      [2][]Atom
	sum      [2][]sumRef
}

type sumRef struct {
	fn   *ssa.Function
	idx  int
	kind string // "err" | "true" | "false"
	// call is the call whose result is tested (for translating the callee's
	// parametric facts "v:..:$i.." to the caller's argument names)
	call ssa.CallInstruction
}

func (p *Prog) matcher(fn *ssa.Function) *Matcher {
	return &Matcher{P: p, Fn: fn, pv: newProvCache(p, fn)}
}

// NewFlow solves the analysis for the region reachable from roots.
func NewFlow(p *Prog, rs *RuleSet, roots []*ssa.Function, skip func(*ssa.Function) bool) *Flow {
	f := &Flow{P: p, RS: rs, Roots: roots,
		ctx: map[*ssa.Function]AtomSet{}, sumErr: map[*ssa.Function]map[int]AtomSet{}, sumTrue: map[*ssa.Function]map[int]AtomSet{},
		in: map[*ssa.BasicBlock]AtomSet{}, gen: map[*ssa.BasicBlock][2][]Atom{}, genSum: map[*ssa.BasicBlock][2][]sumRef{},
		exec: map[ssa.Instruction][]Atom{}, kill: map[ssa.Instruction][]Atom{}, mcache: map[*ssa.Function]*Matcher{},
		phiGen: map[*ssa.BasicBlock][]phiIn{}, edgeSt: map[[2]*ssa.BasicBlock]AtomSet{},
		dyn: map[string]map[*ssa.Function]map[int][]Atom{"err": {}, "true": {}, "false": {}}, ctxDyn: map[*ssa.Function][]Atom{}, sumFalse: map[*ssa.Function]map[int]AtomSet{}}
	f.Region = p.Reachable(roots, func(fn *ssa.Function) bool {
		if fn.Pkg != nil && isHarnessPkg(fn.Pkg.Pkg.Path()) {
			return true
		}
		return skip != nil && skip(fn)
	})
	for fn := range f.Region {
		f.Order = append(f.Order, fn)
	}
	sort.Slice(f.Order, func(i, j int) bool { return p.FuncName(f.Order[i]) < p.FuncName(f.Order[j]) })
	for _, fn := range f.Order {
		f.prepare(fn)
	}
	f.solve()
	return f
}

func (f *Flow) matcherFor(fn *ssa.Function) *Matcher {
	m := f.mcache[fn]
	if m == nil {
		m = f.P.matcher(fn)
		f.mcache[fn] = m
	}
	return m
}

// prepare computes the static gen sets of fn.
func (f *Flow) prepare(fn *ssa.Function) {
	m := f.matcherFor(fn)
	for _, b := range fn.Blocks {
		for _, in := range b.Instrs {
			if call, ok := in.(ssa.CallInstruction); ok {
				for _, ad := range f.RS.Atoms {
					if ad.Exec != nil && ad.Exec(m, call) {
						f.exec[in] = append(f.exec[in], ad.Name)
					}
					if ad.ExecDyn != nil {
						g, k := ad.ExecDyn(m, call)
						f.exec[in] = append(f.exec[in], g...)
						f.kill[in] = append(f.kill[in], k...)
					}
				}
			} else {
				for _, ad := range f.RS.Atoms {
					if ad.ExecAny != nil && ad.ExecAny(m, in) {
						f.exec[in] = append(f.exec[in], ad.Name)
					}
					if ad.AnyDyn != nil {
						g, k := ad.AnyDyn(m, in)
						f.exec[in] = append(f.exec[in], g...)
						f.kill[in] = append(f.kill[in], k...)
					}
				}
			}
		}
		ifi, ok := b.Instrs[len(b.Instrs)-1].(*ssa.If)
		if !ok {
			continue
		}
		if phi, ok := ifi.Cond.(*ssa.Phi); ok && phi.Block() == b && isBool(phi.Type()) {
			ins := make([]phiIn, len(phi.Edges))
			for j, e := range phi.Edges {
				ins[j].constVal = -1
				if c, ok := e.(*ssa.Const); ok && c.Value != nil && c.Value.Kind() == constant.Bool {
					ins[j].constVal = 0
					if constant.BoolVal(c.Value) {
						ins[j].constVal = 1
					}
					continue
				}
				ins[j].gen, ins[j].sum = f.condGen(m, e)
			}
			f.phiGen[b] = ins
			continue
		}
		// `if v != nil` / `if v == nil` where v is a phi of this block over
		// constant nil and provably non-nil values (the "collect an error in
		// a variable, then test it once" shape): the outcome is known per
		// incoming edge
		if bo, ok := ifi.Cond.(*ssa.BinOp); ok && (bo.Op == token.EQL || bo.Op == token.NEQ) {
			var phi *ssa.Phi
			if c, isC := bo.Y.(*ssa.Const); isC && c.IsNil() {
				phi, _ = bo.X.(*ssa.Phi)
			} else if c, isC := bo.X.(*ssa.Const); isC && c.IsNil() {
				phi, _ = bo.Y.(*ssa.Phi)
			}
			if phi != nil && phi.Block() == b && bo.Block() == b {
				ins := make([]phiIn, len(phi.Edges))
				known := 0
				for j, e := range phi.Edges {
					ins[j].constVal = -1
					isNilEdge := false
					if c, ok := e.(*ssa.Const); ok && c.IsNil() {
						isNilEdge = true
					} else if !provablyNonNil(f.P, e, emptySet(), 0) {
						continue
					}
					known++
					// truth value of the condition on this edge
					t := !isNilEdge // v != nil
					if bo.Op == token.EQL {
						t = isNilEdge
					}
					if t {
						ins[j].constVal = 1
					} else {
						ins[j].constVal = 0
					}
				}
				if known == len(phi.Edges) {
					f.phiGen[b] = ins
					continue
				}
			}
		}
		g, gs := f.condGen(m, ifi.Cond)
		f.gen[b] = g
		f.genSum[b] = gs
	}
}

// condGen computes, for a boolean condition value, the atoms and callee
// summaries generated when it is true (index 0) and false (index 1).
func (f *Flow) condGen(m *Matcher, cond ssa.Value) (g [2][]Atom, gs [2][]sumRef) {
	pred, onTrue := normCond(cond)
	return f.condGenPred(m, pred, onTrue)
}

// condGenPred: atoms and callee summaries for predicate pred; index 0 is the
// edge on which pred holds if onTrue, else the edge on which it does not.
func (f *Flow) condGenPred(m *Matcher, pred Pred, onTrue bool) (g [2][]Atom, gs [2][]sumRef) {
	holdIdx, otherIdx := 0, 1
	if !onTrue {
		holdIdx, otherIdx = 1, 0
	}
	for _, ad := range f.RS.Atoms {
		if ad.EdgeDyn != nil {
			g[holdIdx] = append(g[holdIdx], ad.EdgeDyn(m, pred, true)...)
			g[otherIdx] = append(g[otherIdx], ad.EdgeDyn(m, pred, false)...)
		}
		if ad.Edge == nil {
			continue
		}
		if ad.Edge(m, pred, true) {
			g[holdIdx] = append(g[holdIdx], ad.Name)
		}
		if ad.Edge(m, pred, false) {
			g[otherIdx] = append(g[otherIdx], ad.Name)
		}
	}
	// function-local non-nil facts and callee summaries
	switch pred.Kind {
	case "nil":
		if isErrorType(pred.X.Type()) {
			g[otherIdx] = append(g[otherIdx], "nn:"+pred.X.Name())
		}
		// only error results have a success summary; `x == nil` on any other
		// call result (a key, a pointer) must not be read as "callee succeeded"
		if call, idx := m.CallResult(pred.X); call != nil && isErrorType(pred.X.Type()) {
			if cal := f.P.body(call.Common().StaticCallee()); cal != nil {
				gs[holdIdx] = append(gs[holdIdx], sumRef{cal, idx, "err", call})
			}
		}
	case "bool":
		if call, idx := m.CallResult(pred.X); call != nil {
			if cal := f.P.body(call.Common().StaticCallee()); cal != nil {
				gs[holdIdx] = append(gs[holdIdx], sumRef{cal, idx, "true", call})
				gs[otherIdx] = append(gs[otherIdx], sumRef{cal, idx, "false", call})
			}
		}
	}
	return g, gs
}

func isErrorType(t types.Type) bool {
	n, ok := types.Unalias(t).(*types.Named)
	return ok && n.Obj().Pkg() == nil && n.Obj().Name() == "error"
}

func (f *Flow) close(s AtomSet) AtomSet {
	if s.top || (len(f.RS.Derive) == 0 && len(f.RS.Complement) == 0 && !f.RS.DynComplement && f.RS.DeriveDyn == nil) {
		return s
	}
	changed := true
	for changed {
		changed = false
		if f.RS.DeriveDyn != nil {
			add := f.RS.DeriveDyn(func(a Atom) bool { return s.m[a] }, func(fn func(Atom)) {
				for a := range s.m {
					fn(a)
				}
			})
			for _, a := range add {
				if !s.m[a] {
					s = s.with(a)
					changed = true
				}
			}
		}
		if len(f.RS.Complement) > 0 || f.RS.DynComplement {
			for a := range s.m {
				i := strings.Index(a, "=>")
				if i <= 0 {
					continue
				}
				if s.m[a[:i]] && !s.m[a[i+2:]] {
					s = s.with(a[i+2:])
					changed = true
				}
				// contraposition: A=>X together with not-X gives not-A
				if f.RS.DynComplement {
					if nx, ok := dynComplement(a[i+2:]); ok && s.m[nx] {
						if na, ok := dynComplement(a[:i]); ok && !s.m[na] {
							s = s.with(na)
							changed = true
						}
					}
				}
			}
		}
		for _, d := range f.RS.Derive {
			if s.m[d.Head] {
				continue
			}
			all := true
			for _, b := range d.Body {
				if !s.m[b] {
					all = false
					break
				}
			}
			if all {
				s = s.with(d.Head)
				changed = true
			}
		}
	}
	return s
}

// meet is the join of the must analysis: intersection, plus conditional facts
// for complementary atoms.
func (f *Flow) meet(a, b AtomSet) AtomSet {
	r := a.meet(b)
	if a.top || b.top || (len(f.RS.Complement) == 0 && !f.RS.DynComplement) {
		return r
	}
	if f.RS.DynComplement {
		for x := range a.m {
			cx, ok := dynComplement(x)
			if !ok || !b.m[cx] {
				continue
			}
			for y := range a.m {
				if !b.m[y] && !strings.Contains(y, "=>") && !strings.HasPrefix(y, "nn:") && y != x {
					r = r.with(x + "=>" + y)
				}
			}
			for y := range b.m {
				if !a.m[y] && !strings.Contains(y, "=>") && !strings.HasPrefix(y, "nn:") && y != cx {
					r = r.with(cx + "=>" + y)
				}
			}
		}
	}
	for _, cp := range f.RS.Complement {
		for _, pr := range [][2]Atom{{cp[0], cp[1]}, {cp[1], cp[0]}} {
			if a.m[pr[0]] && b.m[pr[1]] {
				for x := range a.m {
					if !b.m[x] && !strings.Contains(x, "=>") && !strings.HasPrefix(x, "nn:") && x != pr[0] {
						r = r.with(pr[0] + "=>" + x)
					}
				}
				for y := range b.m {
					if !a.m[y] && !strings.Contains(y, "=>") && !strings.HasPrefix(y, "nn:") && y != pr[1] {
						r = r.with(pr[1] + "=>" + y)
					}
				}
			}
		}
	}
	return r
}

// edgeOut returns the state flowing along edge b -> succ index i.
func (f *Flow) edgeOut(b *ssa.BasicBlock, out AtomSet, i int) AtomSet {
	if _, ok := b.Instrs[len(b.Instrs)-1].(*ssa.If); !ok {
		return out
	}
	if ins, ok := f.phiGen[b]; ok {
		// condition is a boolean phi of this block: the edge is taken only by
		// executions arriving over a predecessor whose incoming value agrees
		acc := topSet()
		for j, pred := range b.Preds {
			in := ins[j]
			if (i == 0 && in.constVal == 0) || (i == 1 && in.constVal == 1) {
				continue
			}
			st, reached := f.edgeSt[[2]*ssa.BasicBlock{pred, b}]
			if !reached || st.top {
				continue
			}
			if in.constVal == -1 {
				st = st.with(in.gen[i]...)
				st, _ = f.applySums(st, in.sum[i])
			}
			acc = f.meet(acc, st)
		}
		return f.blockOut(b, acc)
	}
	s := out.with(f.gen[b][i]...)
	s, dead := f.applySums(s, f.genSum[b][i])
	if dead {
		return topSet()
	}
	return f.close(s)
}

// applySums adds callee success summaries; dead reports that a callee has no
// successful return (its summary is TOP), i.e. the edge cannot be taken.
func (f *Flow) applySums(s AtomSet, refs []sumRef) (AtomSet, bool) {
	for _, sr := range refs {
		if !f.Region[sr.fn] {
			continue
		}
		// parametric facts of the callee, renamed to this call's arguments
		if sr.call != nil {
			if dyn := f.dyn[sr.kind][sr.fn][sr.idx]; len(dyn) > 0 {
				s = s.with(translateDyn(dyn, sr.call)...)
				if f.RS.Translate != nil {
					m := f.matcherFor(sr.call.Parent())
					ops := callOperands(sr.call.Common())
					for _, a := range dyn {
						s = s.with(f.RS.Translate(m, a, ops)...)
					}
				}
			}
		}
		if sr.kind == "false" {
			if sum, ok := f.sumFalse[sr.fn][sr.idx]; ok && !sum.top {
				s = s.union(sum)
			}
			continue
		}
		var sum AtomSet
		var ok bool
		if sr.kind == "err" {
			sum, ok = f.sumErr[sr.fn][sr.idx]
		} else {
			sum, ok = f.sumTrue[sr.fn][sr.idx]
		}
		if !ok {
			sum = topSet() // optimistic start
		}
		if sum.top {
			// unreached callee summary in the optimistic phase: stay optimistic
			// only while iterating; a final TOP means the callee never returns
			// successfully, so the edge is dead and TOP is exact.
			return topSet(), true
		}
		s = s.union(sum)
	}
	return f.close(s), false
}

// blockOut applies exec atoms of the block.
func (f *Flow) blockOut(b *ssa.BasicBlock, in AtomSet) AtomSet {
	s := in
	for _, ins := range b.Instrs {
		if ks := f.kill[ins]; len(ks) > 0 {
			s = s.without(ks...)
		}
		if as := f.exec[ins]; len(as) > 0 {
			s = s.with(as...)
		}
	}
	return f.close(s)
}

// StateAt returns the atoms holding immediately before instruction ins.
func (f *Flow) StateAt(ins ssa.Instruction) AtomSet {
	b := ins.Block()
	s, ok := f.in[b]
	if !ok {
		return topSet()
	}
	for _, x := range b.Instrs {
		if x == ins {
			break
		}
		if ks := f.kill[x]; len(ks) > 0 {
			s = s.without(ks...)
		}
		if as := f.exec[x]; len(as) > 0 {
			s = s.with(as...)
		}
	}
	return f.close(s)
}

func (f *Flow) isRoot(fn *ssa.Function) bool {
	for _, r := range f.Roots {
		if f.P.body(r) == fn {
			return true
		}
	}
	return false
}

func (f *Flow) runFunc(fn *ssa.Function) {
	entry := f.ctx[fn]
	if dynIn := f.ctxDyn[fn]; len(dynIn) > 0 && !entry.top {
		entry = entry.with(dynIn...)
	}
	for _, b := range fn.Blocks {
		if b == fn.Recover {
			continue
		}
		delete(f.in, b)
		for _, sc := range b.Succs {
			delete(f.edgeSt, [2]*ssa.BasicBlock{b, sc})
		}
	}
	f.in[fn.Blocks[0]] = f.close(entry)
	work := []*ssa.BasicBlock{fn.Blocks[0]}
	inWork := map[*ssa.BasicBlock]bool{fn.Blocks[0]: true}
	for len(work) > 0 {
		b := work[0]
		work = work[1:]
		inWork[b] = false
		out := f.blockOut(b, f.in[b])
		for i, succ := range b.Succs {
			eo := f.edgeOut(b, out, i)
			ek := [2]*ssa.BasicBlock{b, succ}
			oldEdge, hadEdge := f.edgeSt[ek]
			edgeChanged := !hadEdge || !oldEdge.equal(eo)
			f.edgeSt[ek] = eo
			old, seen := f.in[succ]
			// IN[succ] = join over the current states of all reached incoming edges
			nw := topSet()
			for _, pb := range succ.Preds {
				if es, ok := f.edgeSt[[2]*ssa.BasicBlock{pb, succ}]; ok {
					nw = f.meet(nw, es)
				}
			}
			if succ == fn.Blocks[0] {
				nw = f.meet(nw, f.close(entry))
			}
			if _, isPhiCond := f.phiGen[succ]; isPhiCond && edgeChanged && seen && !inWork[succ] {
				work = append(work, succ)
				inWork[succ] = true
			}
			if !seen || !nw.equal(old) {
				f.in[succ] = nw
				if !inWork[succ] {
					work = append(work, succ)
					inWork[succ] = true
				}
			}
		}
	}
}

// returnValue resolves the i-th operand of a Return through result spills
// (functions with defer and named results load results from allocs).
func returnValue(ret *ssa.Return, i int) ssa.Value {
	v := ret.Results[i]
	if u, ok := v.(*ssa.UnOp); ok && u.Op == token.MUL {
		if al, ok := u.X.(*ssa.Alloc); ok && isResultSpill(ret.Parent(), al, i) {
			b := ret.Block()
			var last ssa.Value
			for _, in := range b.Instrs {
				if st, ok := in.(*ssa.Store); ok && st.Addr == al {
					last = st.Val
				}
			}
			if last != nil {
				return last
			}
			// look in the unique predecessor chain (rundefers may split blocks)
			for pb := b; len(pb.Preds) == 1; {
				pb = pb.Preds[0]
				for _, in := range pb.Instrs {
					if st, ok := in.(*ssa.Store); ok && st.Addr == al {
						last = st.Val
					}
				}
				if last != nil {
					return last
				}
			}
		}
	}
	return v
}

// provablyNonNil reports whether error value v cannot be nil in state s.
func provablyNonNil(p *Prog, v ssa.Value, s AtomSet, depth int) bool {
	if depth > 6 {
		return false
	}
	if !s.top && s.m["nn:"+v.Name()] {
		return true
	}
	switch v := v.(type) {
	case *ssa.Const:
		return !v.IsNil()
	case *ssa.MakeInterface:
		return true
	case *ssa.Call:
		switch p.calleeOf(v.Common()).Name {
		case "fmt.Errorf", "errors.New":
			return true
		case "context.Context.Err":
			// documented contract: non-nil once Done is closed; the only uses
			// in this code base return it from a `case <-ctx.Done()` arm
			return true
		}
	case *ssa.UnOp:
		if v.Op == token.MUL {
			if g, ok := v.X.(*ssa.Global); ok && isErrorType(v.Type()) && (strings.HasPrefix(g.Name(), "Err") || g.Name() == "EOF") {
				return true // package-level sentinel error
			}
		}
	case *ssa.Phi:
		for _, e := range v.Edges {
			if !provablyNonNil(p, e, s, depth+1) {
				return false
			}
		}
		return true
	case *ssa.ChangeInterface:
		return provablyNonNil(p, v.X, s, depth+1)
	}
	return false
}

func provablyFalse(v ssa.Value) bool {
	c, ok := v.(*ssa.Const)
	return ok && c.Value != nil && c.Value.Kind() == constant.Bool && !constant.BoolVal(c.Value)
}

// SuccessReturn describes a return that may report success.
type SuccessReturn struct {
	Ret   *ssa.Return
	State AtomSet
}

// successReturns lists the returns of fn at which error result errIdx may be
// nil (errIdx < 0: all returns).
func (f *Flow) successReturns(fn *ssa.Function, errIdx int) []SuccessReturn {
	var out []SuccessReturn
	for _, b := range fn.Blocks {
		if b == fn.Recover {
			continue
		}
		ret, ok := b.Instrs[len(b.Instrs)-1].(*ssa.Return)
		if !ok {
			continue
		}
		if _, reached := f.in[b]; !reached {
			continue
		}
		s := f.StateAt(ret)
		if s.top {
			continue
		}
		if errIdx >= 0 && errIdx < len(ret.Results) {
			rv := returnValue(ret, errIdx)
			if provablyNonNil(f.P, rv, s, 0) {
				continue
			}
			// tail call: `return g(...)` succeeds only if g did
			if call, idx := f.matcherFor(fn).CallResult(rv); call != nil {
				if cal := f.P.body(call.Common().StaticCallee()); cal != nil && f.Region[cal] {
					sum, ok := f.sumErr[cal][idx]
					if !ok || sum.top {
						continue
					}
					s = f.close(s.union(sum))
				}
				// `return x.Check()`: on the success outcome that call's error is
				// nil, so whatever `if err == nil` would establish holds
				g, _ := f.condGenPred(f.matcherFor(fn), Pred{Kind: "nil", X: rv}, true)
				if len(g[0]) > 0 {
					s = f.close(s.with(g[0]...))
				}
			}
		}
		out = append(out, SuccessReturn{ret, s})
	}
	return out
}

func (f *Flow) summarize(fn *ssa.Function) (map[int]AtomSet, map[int]AtomSet) {
	res := fn.Signature.Results()
	se, st := map[int]AtomSet{}, map[int]AtomSet{}
	for i := 0; i < res.Len(); i++ {
		t := res.At(i).Type()
		switch {
		case isErrorType(t):
			acc := topSet()
			for _, sr := range f.successReturns(fn, i) {
				acc = acc.meet(sr.State.exported())
			}
			se[i] = acc
		case isBool(t):
			acc := topSet()
			for _, b := range fn.Blocks {
				if b == fn.Recover {
					continue
				}
				ret, ok := b.Instrs[len(b.Instrs)-1].(*ssa.Return)
				if !ok {
					continue
				}
				if _, reached := f.in[b]; !reached {
					continue
				}
				s := f.StateAt(ret)
				rv := returnValue(ret, i)
				if s.top || provablyFalse(rv) {
					continue
				}
				if call, idx := f.matcherFor(fn).CallResult(rv); call != nil {
					if cal := f.P.body(call.Common().StaticCallee()); cal != nil && f.Region[cal] {
						sum, ok := f.sumTrue[cal][idx]
						if !ok || sum.top {
							continue
						}
						s = f.close(s.union(sum))
					}
				}
				// `return cond` is `if cond { return true }; return false`: the
				// facts that hold when the returned condition is true
				if _, isConst := rv.(*ssa.Const); !isConst {
					if _, isPhi := rv.(*ssa.Phi); !isPhi {
						g, gs := f.condGen(f.matcherFor(fn), rv)
						s = s.with(g[0]...)
						if s2, dead := f.applySums(s, gs[0]); !dead {
							s = s2
						}
						s = f.close(s)
					}
				}
				acc = acc.meet(s.exported())
			}
			st[i] = acc
		}
	}
	return se, st
}

func isBool(t types.Type) bool {
	b, ok := types.Unalias(t).Underlying().(*types.Basic)
	return ok && b.Kind() == types.Bool
}

func (f *Flow) solve() {
	cg := f.P.CallGraph()
	for _, fn := range f.Order {
		if f.isRoot(fn) {
			f.ctx[fn] = emptySet()
		} else {
			f.ctx[fn] = topSet()
		}
	}
	for round := 1; ; round++ {
		f.Rounds = round
		if round > 200 {
			panic("E1 fixed point did not converge")
		}
		changed := false
		for _, fn := range f.Order {
			f.runFunc(fn)
			se, st := f.summarize(fn)
			if !sumEqual(se, f.sumErr[fn]) || !sumEqual(st, f.sumTrue[fn]) {
				changed = true
			}
			f.sumErr[fn], f.sumTrue[fn] = se, st
			if f.summarizeDyn(fn) {
				changed = true
			}
		}
		// recompute calling contexts
		for _, fn := range f.Order {
			if f.isRoot(fn) {
				continue
			}
			acc := topSet()
			for _, e := range cg.in[fn] {
				if !f.Region[e.Caller] {
					continue
				}
				acc = acc.meet(f.StateAt(e.Site).exported())
			}
			if !acc.equal(f.ctx[fn]) {
				f.ctx[fn] = acc
				changed = true
			}
			if f.RS.hasDyn() {
				var din map[Atom]bool
				first := true
				for _, e := range cg.in[fn] {
					if !f.Region[e.Caller] {
						continue
					}
					call, isCall := e.Site.(ssa.CallInstruction)
					if !isCall || (e.Kind != "static" && e.Kind != "invoke") {
						din, first = map[Atom]bool{}, false
						break
					}
					din = meetFacts(din, first, argFacts(f.StateAt(e.Site), call, fn))
					first = false
				}
				l := sortedFacts(din)
				if !sameFacts(l, f.ctxDyn[fn]) {
					f.ctxDyn[fn] = l
					changed = true
				}
			}
		}
		if !changed {
			break
		}
	}
}

func sumEqual(a, b map[int]AtomSet) bool {
	if len(a) != len(b) {
		return false
	}
	for k, v := range a {
		w, ok := b[k]
		if !ok || !v.equal(w) {
			return false
		}
	}
	return true
}

// CallSites lists, in region order, every call instruction in the region whose
// callee name satisfies match.
func (f *Flow) CallSites(match func(c Callee, call ssa.CallInstruction) bool) []ssa.CallInstruction {
	var out []ssa.CallInstruction
	for _, fn := range f.Order {
		for _, b := range fn.Blocks {
			for _, in := range b.Instrs {
				if call, ok := in.(ssa.CallInstruction); ok {
					if match(f.P.calleeOf(call.Common()), call) {
						out = append(out, call)
					}
				}
			}
		}
	}
	return out
}

// GenSites describes where an atom is generated in the region (for reports).
func (f *Flow) GenSites(a Atom) []string {
	var out []string
	for _, fn := range f.Order {
		for _, b := range fn.Blocks {
			g, ok := f.gen[b]
			if ok {
				for i := 0; i < 2; i++ {
					for _, x := range g[i] {
						if x == a {
							out = append(out, fmt.Sprintf("%s (%s, %s edge)", f.P.instrPos(b.Instrs[len(b.Instrs)-1]), f.P.FuncName(fn), map[int]string{0: "true", 1: "false"}[i]))
						}
					}
				}
			}
			for _, in := range b.Instrs {
				for _, x := range f.exec[in] {
					if x == a {
						out = append(out, fmt.Sprintf("%s (%s, exec)", f.P.instrPos(in), f.P.FuncName(fn)))
					}
				}
			}
		}
	}
	sort.Strings(out)
	return out
}

// PathAvoiding finds a CFG path inside fn from its entry to block target that
// uses no edge generating atom a (directly); it returns the block positions.
func (f *Flow) PathAvoiding(fn *ssa.Function, target *ssa.BasicBlock, a Atom) []string {
	prev := map[*ssa.BasicBlock]*ssa.BasicBlock{}
	seen := map[*ssa.BasicBlock]bool{fn.Blocks[0]: true}
	queue := []*ssa.BasicBlock{fn.Blocks[0]}
	gens := func(b *ssa.BasicBlock, i int) bool {
		st := f.edgeOut(b, f.blockOut(b, emptySet()), i)
		return st.Has(a)
	}
	found := false
	for len(queue) > 0 && !found {
		b := queue[0]
		queue = queue[1:]
		if b == target {
			found = true
			break
		}
		for i, s := range b.Succs {
			if seen[s] || gens(b, i) {
				continue
			}
			seen[s] = true
			prev[s] = b
			queue = append(queue, s)
		}
	}
	if !found {
		return nil
	}
	var rev []*ssa.BasicBlock
	for b := target; b != nil; b = prev[b] {
		rev = append(rev, b)
	}
	var out []string
	for i := len(rev) - 1; i >= 0; i-- {
		b := rev[i]
		pos := "-"
		for _, in := range b.Instrs {
			if in.Pos().IsValid() {
				pos = f.P.Pos(in.Pos())
				break
			}
		}
		out = append(out, fmt.Sprintf("b%d@%s", b.Index, pos))
	}
	return out
}

// isResultSpill: al is the stack slot of the i-th named result (functions with
// defer keep named results in allocs and reload them before returning).
func isResultSpill(fn *ssa.Function, al *ssa.Alloc, i int) bool {
	res := fn.Signature.Results()
	if i >= res.Len() {
		return false
	}
	name := res.At(i).Name() // "" for unnamed results, which go/ssa also spills when the function defers
	return al.Comment == name && !al.Heap && al.Block() == fn.Blocks[0] && types.Identical(al.Type().Underlying().(*types.Pointer).Elem(), res.At(i).Type())
}

// ---- parametric summaries ---------------------------------------------------
//
// A helper such as `func tooLong(n, limit uint64) bool { return n >= limit }`
// or `func check(x *T) error` establishes facts about its PARAMETERS on each
// outcome. They are kept as dynamically named atoms over "$i" (parameter i) and
// renamed to the canonical names of the actual arguments at each call site, on
// the edge where the result is tested.

func translateDyn(dyn []Atom, call ssa.CallInstruction) []Atom {
	ops := callOperands(call.Common())
	var out []Atom
	for _, a := range dyn {
		parts := strings.Split(a, ":")
		ok := true
		for k, c := range parts {
			if strings.HasPrefix(c, "$") {
				i, err := strconv.Atoi(c[1:])
				if err != nil || i >= len(ops) {
					ok = false
					break
				}
				parts[k] = canon(ops[i])
			} else if strings.HasPrefix(c, "*$") {
				dot := strings.Index(c, ".")
				if dot < 0 {
					ok = false
					break
				}
				i, err := strconv.Atoi(c[2:dot])
				if err != nil || i >= len(ops) {
					ok = false
					break
				}
				parts[k] = "*" + canonAddr(ops[i]) + c[dot:]
			}
		}
		if ok {
			out = append(out, Atom(strings.Join(parts, ":")))
		}
	}
	return out
}

// paramFacts keeps the "v:" atoms of s whose operands are parameters of fn (by
// name) or numbers, rewritten over "$i".
func paramFacts(fn *ssa.Function, s AtomSet) map[Atom]bool {
	out := map[Atom]bool{}
	if s.top {
		return out
	}
	idx := map[string]int{}
	for i, p := range fn.Params {
		idx[p.Name()] = i
	}
	for a := range s.m {
		if !strings.HasPrefix(a, "v:") || strings.Contains(a, "=>") {
			continue
		}
		parts := strings.Split(a, ":")
		if len(parts) < 3 {
			continue
		}
		ok, any := true, false
		for k := 2; k < len(parts); k++ {
			c := parts[k]
			if i, isParam := idx[c]; isParam {
				parts[k] = "$" + strconv.Itoa(i)
				any = true
				continue
			}
			// a location reached through a pointer parameter: *p.f1, *p.f1.f0 ...
			if strings.HasPrefix(c, "*") {
				if dot := strings.Index(c, "."); dot > 1 {
					if i, isParam := idx[c[1:dot]]; isParam {
						if _, isPtr := fn.Params[i].Type().Underlying().(*types.Pointer); isPtr {
							parts[k] = "*$" + strconv.Itoa(i) + c[dot:]
							any = true
							continue
						}
					}
				}
			}
			if _, err := strconv.ParseInt(c, 10, 64); err == nil {
				continue
			}
			ok = false
			break
		}
		if ok && any {
			out[Atom(strings.Join(parts, ":"))] = true
		}
	}
	return out
}

func meetFacts(acc map[Atom]bool, first bool, s map[Atom]bool) map[Atom]bool {
	if first {
		return s
	}
	for a := range acc {
		if !s[a] {
			delete(acc, a)
		}
	}
	return acc
}

func sortedFacts(m map[Atom]bool) []Atom {
	var l []Atom
	for a := range m {
		l = append(l, a)
	}
	sort.Strings(l)
	return l
}

func sameFacts(a, b []Atom) bool {
	if len(a) != len(b) {
		return false
	}
	for i := range a {
		if a[i] != b[i] {
			return false
		}
	}
	return true
}

// summarizeDyn recomputes the parametric summaries of fn; reports a change.
func (f *Flow) summarizeDyn(fn *ssa.Function) bool {
	changed := false
	set := func(kind string, i int, facts map[Atom]bool) {
		l := sortedFacts(facts)
		if f.dyn[kind][fn] == nil {
			f.dyn[kind][fn] = map[int][]Atom{}
		}
		if !sameFacts(l, f.dyn[kind][fn][i]) {
			f.dyn[kind][fn][i] = l
			changed = true
		}
	}
	m := f.matcherFor(fn)
	res := fn.Signature.Results()
	for i := 0; i < res.Len(); i++ {
		t := res.At(i).Type()
		switch {
		case isErrorType(t):
			var acc map[Atom]bool
			first := true
			for _, sr := range f.successReturns(fn, i) {
				if os.Getenv("FDOCHECK_DEBUG_DYN") != "" && strings.Contains(f.P.FuncName(fn), os.Getenv("FDOCHECK_DEBUG_DYN")) {
					fmt.Printf("DYN %s success return @%s state=%v facts=%v\n", f.P.FuncName(fn), f.P.instrPos(sr.Ret), sr.State.list(), sortedFacts(paramFacts(fn, sr.State)))
				}
				acc = meetFacts(acc, first, paramFacts(fn, sr.State))
				first = false
			}
			if first {
				acc = map[Atom]bool{}
			}
			set("err", i, acc)
		case isBool(t):
			var accT, accF map[Atom]bool
			firstT, firstF := true, true
			staticF := topSet()
			addT := func(s AtomSet) { accT = meetFacts(accT, firstT, paramFacts(fn, f.close(s))); firstT = false }
			addF := func(s AtomSet) {
				cs := f.close(s)
				accF = meetFacts(accF, firstF, paramFacts(fn, cs))
				firstF = false
				staticF = staticF.meet(cs.exported())
			}
			for _, b := range fn.Blocks {
				if b == fn.Recover {
					continue
				}
				ret, ok := b.Instrs[len(b.Instrs)-1].(*ssa.Return)
				if !ok {
					continue
				}
				if _, reached := f.in[b]; !reached {
					continue
				}
				st := f.StateAt(ret)
				if st.top {
					continue
				}
				rv := returnValue(ret, i)
				contribute := func(v ssa.Value, s AtomSet) {
					if c, ok := v.(*ssa.Const); ok && c.Value != nil {
						if c.Value.ExactString() == "true" {
							addT(s)
						} else {
							addF(s)
						}
						return
					}
					g, gs := f.condGen(m, v)
					sT, deadT := f.applySums(s.with(g[0]...), gs[0])
					if !deadT {
						addT(sT)
					}
					sF, deadF := f.applySums(s.with(g[1]...), gs[1])
					if !deadF {
						addF(sF)
					}
				}
				if phi, ok := rv.(*ssa.Phi); ok && phi.Block() == b {
					for j, e := range phi.Edges {
						es, reached := f.edgeSt[[2]*ssa.BasicBlock{b.Preds[j], b}]
						if !reached || es.top {
							continue
						}
						contribute(e, es)
					}
					continue
				}
				contribute(rv, st)
			}
			if firstT {
				accT = map[Atom]bool{}
			}
			if firstF {
				accF = map[Atom]bool{}
			}
			set("true", i, accT)
			set("false", i, accF)
			if f.sumFalse[fn] == nil {
				f.sumFalse[fn] = map[int]AtomSet{}
			}
			if old, ok := f.sumFalse[fn][i]; !ok || !old.equal(staticF) {
				f.sumFalse[fn][i] = staticF
				changed = true
			}
		}
	}
	return changed
}

func (rs *RuleSet) hasDyn() bool {
	for _, ad := range rs.Atoms {
		if ad.EdgeDyn != nil {
			return true
		}
	}
	return false
}

// argFacts renames the caller's non-nil facts about locations inside the
// objects it passes (by pointer, or as a struct by value) into the callee's
// names: `s.Payload != nil` established before `s.helper()` holds for the
// receiver inside helper.
func argFacts(st AtomSet, call ssa.CallInstruction, callee *ssa.Function) map[Atom]bool {
	out := map[Atom]bool{}
	if st.top {
		return out
	}
	ops := callOperands(call.Common())
	for i, a := range ops {
		if i >= len(callee.Params) {
			break
		}
		prm := callee.Params[i]
		var from, to string
		if u, ok := a.(*ssa.UnOp); ok && u.Op == token.MUL {
			// struct passed by value: the callee works on a copy kept in its spill slot
			if _, isStruct := prm.Type().Underlying().(*types.Struct); isStruct {
				if slot := paramSlot(callee, prm); slot != nil {
					from, to = "*"+canonAddr(u.X), "*"+slot.Name()
				}
			}
		}
		if from == "" {
			if _, isPtr := prm.Type().Underlying().(*types.Pointer); isPtr {
				from, to = "*"+canonAddr(a), "*"+prm.Name()
				if slot := paramSlot(callee, prm); slot != nil {
					to = "*(*" + slot.Name() + ")"
				}
			}
		}
		if from == "" {
			// an integer argument: bounds established on it hold for the parameter
			if b, isBasic := types.Unalias(prm.Type()).Underlying().(*types.Basic); isBasic && b.Info()&types.IsInteger != 0 {
				src, dst := canon(a), canon(prm)
				for f := range st.m {
					for _, pre := range []string{"v:ub:", "v:lb0:"} {
						if f == Atom(pre+src) {
							out[Atom(pre+dst)] = true
						}
					}
					if strings.HasPrefix(f, "v:lbc:"+src+":") {
						out[Atom("v:lbc:"+dst+f[len("v:lbc:"+src):])] = true
					}
				}
			}
			continue
		}
		for f := range st.m {
			if strings.HasPrefix(f, "held:") && strings.HasPrefix(from, "*") && strings.HasPrefix(to, "*") {
				// a mutex of the argument object held at the call is held in the callee
				loc := f[len("held:"):]
				if strings.HasPrefix(loc, from[1:]+".") {
					out[Atom("held:"+to[1:]+loc[len(from)-1:])] = true
				}
				continue
			}
			if !strings.HasPrefix(f, "v:nn:") {
				continue
			}
			loc := f[len("v:nn:"):]
			if strings.HasPrefix(loc, from+".") {
				out[Atom("v:nn:"+to+loc[len(from):])] = true
			}
		}
	}
	return out
}

// paramSlot: the entry-block alloc a parameter is spilled into (when its
// address is taken or it is captured), or nil.
func paramSlot(fn *ssa.Function, prm *ssa.Parameter) *ssa.Alloc {
	if len(fn.Blocks) == 0 {
		return nil
	}
	for _, in := range fn.Blocks[0].Instrs {
		if st, ok := in.(*ssa.Store); ok && st.Val == ssa.Value(prm) {
			if al, ok := st.Addr.(*ssa.Alloc); ok {
				return al
			}
		}
	}
	return nil
}
