package main

import (
	"fmt"
	"go/token"

	"golang.org/x/tools/go/ssa"
)

// c14DHRanges: symbolic interval check of the finite-field Diffie-Hellman
// derivation (NIST SP 800-56A rev. 3, 5.6.2.3.2 / 5.7.1.1): on every way to the
// key derivation the peer's public value was confined to [2, p-2] and the
// shared secret to [2, p-2] (or to >= 2 with p-1 excluded). Bounds are linear
// forms k*p + c read off the big.Int expressions (SetInt64 / NewInt constants,
// Add / Sub with the modulus); the comparisons are the branch conditions over
// big.Int.Cmp results whose failing edge returns an error. No arithmetic is
// executed.
type pLin struct {
	k, c int64
	ok   bool
}

func c14DHRanges(p *Prog, r *Result, fn *ssa.Function, kdf ssa.CallInstruction) {
	rule := "C14.dh-ranges"
	// the modular exponentiation: base = peer value, result = shared secret, modulus = p
	var exp *ssa.Call
	for _, b := range fn.Blocks {
		for _, in := range b.Instrs {
			if c, ok := in.(*ssa.Call); ok && p.calleeOf(c.Common()).Name == "math/big.Int.Exp" {
				exp = c
			}
		}
	}
	if exp == nil {
		return
	}
	args := allArgs(exp)
	base, mod := singleStored(args[1]), singleStored(args[3])
	alias := map[ssa.Value]ssa.Value{} // helper parameter -> value in fn
	var eval func(v ssa.Value, d int) pLin
	eval = func(v ssa.Value, d int) pLin {
		if d > 6 {
			return pLin{}
		}
		v = singleStored(v)
		if a, ok := alias[v]; ok {
			v = a
		}
		if v == mod {
			return pLin{k: 1, ok: true}
		}
		c, ok := v.(*ssa.Call)
		if !ok {
			return pLin{}
		}
		a := allArgs(c)
		switch p.calleeOf(c.Common()).Name {
		case "math/big.Int.SetInt64", "math/big.Int.SetUint64":
			if k, ok := constInt(a[1]); ok {
				return pLin{c: k, ok: true}
			}
		case "math/big.NewInt":
			if k, ok := constInt(a[0]); ok {
				return pLin{c: k, ok: true}
			}
		case "math/big.Int.Sub":
			x, y := eval(a[1], d+1), eval(a[2], d+1)
			if x.ok && y.ok {
				return pLin{k: x.k - y.k, c: x.c - y.c, ok: true}
			}
		case "math/big.Int.Add":
			x, y := eval(a[1], d+1), eval(a[2], d+1)
			if x.ok && y.ok {
				return pLin{k: x.k + y.k, c: x.c + y.c, ok: true}
			}
		}
		return pLin{}
	}
	type rng struct {
		lo, hi  *pLin // inclusive bounds established
		exclude []pLin
	}
	ranges := map[ssa.Value]*rng{}
	get := func(v ssa.Value) *rng {
		if ranges[v] == nil {
			ranges[v] = &rng{}
		}
		return ranges[v]
	}
	tighter := func(cur *pLin, n pLin, lower bool) *pLin {
		if cur == nil {
			return &n
		}
		// comparable only with the same coefficient of p
		if cur.k != n.k {
			return cur
		}
		if (lower && n.c > cur.c) || (!lower && n.c < cur.c) {
			return &n
		}
		return cur
	}
	record := func(x ssa.Value, rel string, y pLin) {
		g := get(x)
		switch rel {
		case ">=":
			g.lo = tighter(g.lo, y, true)
		case ">":
			g.lo = tighter(g.lo, pLin{k: y.k, c: y.c + 1, ok: true}, true)
		case "<=":
			g.hi = tighter(g.hi, y, false)
		case "<":
			g.hi = tighter(g.hi, pLin{k: y.k, c: y.c - 1, ok: true}, false)
		case "!=":
			g.exclude = append(g.exclude, y)
		}
	}
	// relOf: the relation between x and y asserted when the predicate over
	// Cmp(x, y) ? 0 holds / does not hold
	relOf := func(pd Pred, holds bool) (cmp *ssa.Call, rel string) {
		cmpLeft := false
		if c, ok := pd.X.(*ssa.Call); ok && p.calleeOf(c.Common()).Name == "math/big.Int.Cmp" && isConstInt(pd.Y, 0) {
			cmp, cmpLeft = c, true
		} else if c, ok := pd.Y.(*ssa.Call); ok && p.calleeOf(c.Common()).Name == "math/big.Int.Cmp" && isConstInt(pd.X, 0) {
			cmp = c
		}
		if cmp == nil {
			return nil, ""
		}
		switch pd.Kind {
		case "lt":
			if cmpLeft { // cmp < 0  <=>  x < y
				if holds {
					rel = "<"
				} else {
					rel = ">="
				}
			} else { // 0 < cmp  <=>  x > y
				if holds {
					rel = ">"
				} else {
					rel = "<="
				}
			}
		case "le":
			if cmpLeft { // cmp <= 0
				if holds {
					rel = "<="
				} else {
					rel = ">"
				}
			} else { // 0 <= cmp
				if holds {
					rel = ">="
				} else {
					rel = "<"
				}
			}
		case "eq":
			if holds {
				rel = "=="
			} else {
				rel = "!="
			}
		}
		return cmp, rel
	}
	// collect walks the branch conditions of g that lead to one of the target
	// blocks; tr maps a value of g to the value it stands for in fn, modOf is
	// the modulus as g sees it
	var collect func(g *ssa.Function, isTarget func(*ssa.BasicBlock) bool, tr func(ssa.Value) ssa.Value, depth int)
	collect = func(g *ssa.Function, isTarget func(*ssa.BasicBlock) bool, tr func(ssa.Value) ssa.Value, depth int) {
		reach := map[*ssa.BasicBlock]bool{}
		var mark func(b *ssa.BasicBlock)
		mark = func(b *ssa.BasicBlock) {
			if reach[b] {
				return
			}
			reach[b] = true
			for _, pb := range b.Preds {
				mark(pb)
			}
		}
		for _, b := range g.Blocks {
			if isTarget(b) {
				mark(b)
			}
		}
		assert := func(cond ssa.Value, truth bool) {
			pd, onTrue := normCond(cond)
			holds := truth == onTrue
			if cmp, rel := relOf(pd, holds); cmp != nil {
				ca := allArgs(cmp)
				if y := evalIn(eval, tr, ca[1]); y.ok {
					record(tr(singleStored(ca[0])), rel, y)
				}
				return
			}
			// a pure bool helper that confines its arguments
			if pd.Kind == "bool" && holds && depth < 2 {
				if hc, ok := pd.X.(*ssa.Call); ok {
					if h := p.body(hc.Call.StaticCallee()); h != nil && funcPkgPath(h) == funcPkgPath(fn) && len(h.Blocks) < 16 {
						bind := map[ssa.Value]ssa.Value{}
						for i, prm := range h.Params {
							if i < len(hc.Call.Args) {
								bind[prm] = tr(singleStored(hc.Call.Args[i]))
								alias[prm] = bind[prm]
							}
						}
						htr := func(v ssa.Value) ssa.Value {
							if b, ok := bind[v]; ok {
								return b
							}
							return v
						}
						// targets: returns that may yield true
						collect(h, func(b *ssa.BasicBlock) bool {
							ret, ok := b.Instrs[len(b.Instrs)-1].(*ssa.Return)
							if !ok || len(ret.Results) != 1 {
								return false
							}
							if c, isC := ret.Results[0].(*ssa.Const); isC {
								return c.Value != nil && c.Value.ExactString() == "true"
							}
							return true
						}, htr, depth+1)
						// a returned comparison is itself a constraint when it is the only true-return
						nTrue := 0
						var last *ssa.Return
						for _, b := range h.Blocks {
							if ret, ok := b.Instrs[len(b.Instrs)-1].(*ssa.Return); ok && len(ret.Results) == 1 {
								if c, isC := ret.Results[0].(*ssa.Const); isC {
									if c.Value != nil && c.Value.ExactString() == "true" {
										nTrue++
									}
									continue
								}
								nTrue++
								last = ret
							}
						}
						if nTrue == 1 && last != nil {
							pd2, onTrue2 := normCond(last.Results[0])
							if cmp, rel := relOf(pd2, onTrue2); cmp != nil {
								ca := allArgs(cmp)
								if y := evalIn(eval, htr, ca[1]); y.ok {
									record(htr(singleStored(ca[0])), rel, y)
								}
							}
						}
					}
				}
			}
		}
		for _, b := range g.Blocks {
			ifi, ok := b.Instrs[len(b.Instrs)-1].(*ssa.If)
			if !ok || !reach[b] {
				continue
			}
			cont := -1
			for i, s := range b.Succs {
				if reach[s] {
					if cont >= 0 {
						cont = -2
					}
					if cont == -1 {
						cont = i
					}
				}
			}
			if cont < 0 {
				continue
			}
			assert(ifi.Cond, cont == 0)
		}
	}
	collect(fn, func(b *ssa.BasicBlock) bool { return b == kdf.Block() }, func(v ssa.Value) ssa.Value { return v }, 0)
	show := func(l *pLin) string {
		if l == nil {
			return "unbounded"
		}
		switch {
		case l.k == 0:
			return fmt.Sprint(l.c)
		case l.c == 0:
			return fmt.Sprintf("%d*p", l.k)
		default:
			return fmt.Sprintf("%d*p%+d", l.k, l.c)
		}
	}
	check := func(what string, v ssa.Value, allowExclusion bool) {
		g := get(v)
		loOK := g.lo != nil && g.lo.k == 0 && g.lo.c >= 2
		hiOK := g.hi != nil && g.hi.k == 1 && g.hi.c <= -2
		if !hiOK && allowExclusion {
			for _, e := range g.exclude {
				if e.k == 1 && e.c == -1 {
					hiOK = true
				}
			}
		}
		r.table(p, rule, what+" in "+p.FuncName(fn), p.instrPos(exp), loOK && hiOK,
			fmt.Sprintf("established range [%s, %s] with %d excluded value(s); required [2, p-2]%s", show(g.lo), show(g.hi), len(g.exclude), map[bool]string{true: " (or >= 2 with p-1 excluded: the value is already reduced mod p)", false: ""}[allowExclusion]))
	}
	check("peer public value", base, false)
	check("shared secret", exp, true)
}

// singleStored: a load of a local that is assigned exactly once (a variable
// captured by a closure is spilled) stands for the value stored into it.
func singleStored(v ssa.Value) ssa.Value {
	ld, ok := v.(*ssa.UnOp)
	if !ok || ld.Op != token.MUL {
		return v
	}
	al, ok := ld.X.(*ssa.Alloc)
	if !ok {
		return v
	}
	var stored ssa.Value
	n := 0
	for _, ref := range *al.Referrers() {
		if st, ok := ref.(*ssa.Store); ok && st.Addr == ssa.Value(al) {
			stored = st.Val
			n++
		}
	}
	if n == 1 {
		return stored
	}
	return v
}

// evalIn evaluates a big.Int expression of a helper in terms of the caller's
// modulus: parameters are translated first.
func evalIn(eval func(ssa.Value, int) pLin, tr func(ssa.Value) ssa.Value, v ssa.Value) pLin {
	return eval(tr(singleStored(v)), 0)
}
