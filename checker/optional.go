package main

// E3 / G7 — optional values: the contradiction rule ("if one path checks a
// value for nil and another uses it unconditionally, one of them is wrong").
//
// A struct field of interface or function type is OPTIONAL when some code in
// the wire-reachable region compares a value loaded from it (directly, or
// through a phi / local copy of such loads) with nil. Every call through a
// value loaded from an optional field — a method invoke on the interface, a
// call of the function value — must then be dominated by a non-nil fact for
// that very location: a nil comparison, or a store of a call result /
// parameter to the field earlier on every path in the same function.

import (
	"fmt"
	"go/token"
	"go/types"
	"sort"

	"golang.org/x/tools/go/ssa"
)

func optionalKind(t types.Type) bool {
	switch t.Underlying().(type) {
	case *types.Interface, *types.Signature:
		return true
	}
	return false
}

// fieldLoads returns the field names v may have been loaded from (through phis
// and local variable copies).
func fieldLoads(v ssa.Value, depth int, out map[string]bool) {
	if depth > 4 {
		return
	}
	switch x := v.(type) {
	case *ssa.UnOp:
		if x.Op != token.MUL {
			return
		}
		switch a := x.X.(type) {
		case *ssa.FieldAddr:
			if f := fieldName(a.X.Type(), a.Field); f != "" {
				out[f] = true
			}
		case *ssa.Alloc:
			// local copy: follow the stores into it
			for _, ref := range *a.Referrers() {
				if st, ok := ref.(*ssa.Store); ok && st.Addr == a {
					fieldLoads(st.Val, depth+1, out)
				}
			}
		}
	case *ssa.Phi:
		for _, e := range x.Edges {
			fieldLoads(e, depth+1, out)
		}
	case *ssa.ChangeInterface:
		fieldLoads(x.X, depth+1, out)
	case *ssa.ChangeType:
		fieldLoads(x.X, depth+1, out)
	}
}

func (e *E3) g7(r *Result, prefix string, f *Flow) {
	p := e.p
	rule := prefix + ".optional-checked"
	r.rule(rule, "G7 (contradiction rule): a struct field of interface or function type that some wire-reachable code compares with nil is optional; every method invoke / call through a value loaded from such a field is dominated by a non-nil fact for that location (nil comparison, or an earlier store of a call result or parameter to it in the same function)")
	optional := map[string]string{}
	for _, fn := range e.order {
		if !f.Region[fn] {
			continue
		}
		for _, b := range fn.Blocks {
			for _, in := range b.Instrs {
				bo, ok := in.(*ssa.BinOp)
				if !ok || (bo.Op != token.EQL && bo.Op != token.NEQ) {
					continue
				}
				var x ssa.Value
				if c, ok := bo.Y.(*ssa.Const); ok && c.IsNil() {
					x = bo.X
				} else if c, ok := bo.X.(*ssa.Const); ok && c.IsNil() {
					x = bo.Y
				}
				if x == nil || !optionalKind(x.Type()) {
					continue
				}
				fl := map[string]bool{}
				fieldLoads(x, 0, fl)
				// required-configuration assertions (`== nil` -> panic) and lazy
				// initialisation (`== nil` -> assign the field) do not make a
				// field optional
				for _, ref := range *bo.Referrers() {
					ifi, ok := ref.(*ssa.If)
					if !ok {
						continue
					}
					nilSucc := ifi.Block().Succs[0]
					if bo.Op == token.NEQ {
						nilSucc = ifi.Block().Succs[1]
					}
					for _, y := range nilSucc.Instrs {
						switch z := y.(type) {
						case *ssa.Panic:
							fl = map[string]bool{}
						case *ssa.Store:
							if fa, ok := z.Addr.(*ssa.FieldAddr); ok {
								delete(fl, fieldName(fa.X.Type(), fa.Field))
							}
						}
					}
				}
				for fld := range fl {
					if _, had := optional[fld]; !had {
						optional[fld] = p.instrPos(in)
					}
				}
			}
		}
	}
	for _, fn := range e.order {
		if !f.Region[fn] {
			continue
		}
		seen := map[string]int{}
		for _, b := range fn.Blocks {
			for _, in := range b.Instrs {
				call, ok := in.(ssa.CallInstruction)
				if !ok {
					continue
				}
				cc := call.Common()
				v := cc.Value
				if _, isFn := v.(*ssa.Function); isFn {
					continue
				}
				if _, isB := v.(*ssa.Builtin); isB {
					continue
				}
				ld, ok := v.(*ssa.UnOp)
				if !ok || ld.Op != token.MUL {
					continue
				}
				fa, ok := ld.X.(*ssa.FieldAddr)
				if !ok {
					continue
				}
				fld := fieldName(fa.X.Type(), fa.Field)
				where, isOpt := optional[fld]
				if !isOpt {
					continue
				}
				construct := fmt.Sprintf("call through %s in %s", fld, p.FuncName(fn))
				seen[construct]++
				if seen[construct] > 1 {
					construct = fmt.Sprintf("%s #%d", construct, seen[construct])
				}
				st := f.StateAt(in)
				okv := st.Has(Atom("nn:"+ld.Name())) || st.Has(Atom("v:nn:"+canon(ld)))
				detail := "non-nil established on every path"
				if reason, listed := reviewedOptional[fld+"|"+p.FuncName(fn)]; !okv && listed {
					okv, detail = true, "reviewed: "+reason
				}
				if !okv {
					detail = fmt.Sprintf("field is compared with nil at %s, but this call is not dominated by a nil check or assignment", where)
				}
				r.table(p, rule, construct, p.instrPos(in), okv, detail)
			}
		}
	}
	if debugDump == "g7" {
		var ks []string
		for k, v := range optional {
			ks = append(ks, k+" @ "+v)
		}
		sort.Strings(ks)
		for _, k := range ks {
			fmt.Println("OPTIONAL", k)
		}
	}
}

// reviewedOptional: field|function -> reason the unconditional call is safe.
var reviewedOptional = map[string]string{
	"fdo/serviceinfo.UnchunkWriter.w|fdo/serviceinfo.UnchunkWriter.Write": "documented API contract for module implementers (NextServiceInfo precedes Write); the order of these calls is fixed by module code, not by peer bytes",
}
