package main

// E3 / G7 — optional values: the contradiction rule ("if one path checks a
// value for nil and another uses it unconditionally, one of them is wrong").
//
// A struct field of interface or function type is OPTIONAL when some code in
// the wire-reachable region compares a value loaded from it (directly, or
// through a phi / local copy of such loads) with nil. Every call through a
// value loaded from an optional field — a method invoke on the interface, a
// call of the function value — must then be dominated by a non-nil fact for
// that very location: a nil comparison, or a store of a call result /
// parameter to the field earlier on every path in the same function.

import (
	"fmt"
	"go/token"
	"go/types"
	"sort"

	"golang.org/x/tools/go/ssa"
)

func optionalKind(t types.Type) bool {
	switch t.Underlying().(type) {
	case *types.Interface, *types.Signature:
		return true
	}
	return false
}

// fieldLoads returns the field names v may have been loaded from (through phis
// and local variable copies).
func fieldLoads(v ssa.Value, depth int, out map[string]bool) {
	if depth > 4 {
		return
	}
	switch x := v.(type) {
	case *ssa.UnOp:
		if x.Op != token.MUL {
			return
		}
		switch a := x.X.(type) {
		case *ssa.FieldAddr:
			if f := fieldName(a.X.Type(), a.Field); f != "" {
				out[f] = true
			}
		case *ssa.Alloc:
			// local copy: follow the stores into it
			for _, ref := range *a.Referrers() {
				if st, ok := ref.(*ssa.Store); ok && st.Addr == a {
					fieldLoads(st.Val, depth+1, out)
				}
			}
		}
	case *ssa.Phi:
		for _, e := range x.Edges {
			fieldLoads(e, depth+1, out)
		}
	case *ssa.ChangeInterface:
		fieldLoads(x.X, depth+1, out)
	case *ssa.ChangeType:
		fieldLoads(x.X, depth+1, out)
	}
}

func (e *E3) g7(r *Result, prefix string, f *Flow) {
	p := e.p
	rule := prefix + ".optional-checked"
	r.rule(rule, "G7 (contradiction rule): a struct field of interface or function type that some wire-reachable code compares with nil is optional; every method invoke / call through a value loaded from such a field is dominated by a non-nil fact for that location (nil comparison, or an earlier store of a call result or parameter to it in the same function)")
	optional := map[string]string{}
	for _, fn := range e.order {
		if !f.Region[fn] {
			continue
		}
		for _, b := range fn.Blocks {
			for _, in := range b.Instrs {
				bo, ok := in.(*ssa.BinOp)
				if !ok || (bo.Op != token.EQL && bo.Op != token.NEQ) {
					continue
				}
				var x ssa.Value
				if c, ok := bo.Y.(*ssa.Const); ok && c.IsNil() {
					x = bo.X
				} else if c, ok := bo.X.(*ssa.Const); ok && c.IsNil() {
					x = bo.Y
				}
				if x == nil || !optionalKind(x.Type()) {
					continue
				}
				fl := map[string]bool{}
				fieldLoads(x, 0, fl)
				// required-configuration assertions (`== nil` -> panic) and lazy
				// initialisation (`== nil` -> assign the field) do not make a
				// field optional
				for _, ref := range *bo.Referrers() {
					ifi, ok := ref.(*ssa.If)
					if !ok {
						continue
					}
					nilSucc := ifi.Block().Succs[0]
					if bo.Op == token.NEQ {
						nilSucc = ifi.Block().Succs[1]
					}
					for _, y := range nilSucc.Instrs {
						switch z := y.(type) {
						case *ssa.Panic:
							fl = map[string]bool{}
						case *ssa.Store:
							if fa, ok := z.Addr.(*ssa.FieldAddr); ok {
								delete(fl, fieldName(fa.X.Type(), fa.Field))
							}
						}
					}
				}
				for fld := range fl {
					if _, had := optional[fld]; !had {
						optional[fld] = p.instrPos(in)
					}
				}
			}
		}
	}
	for _, fn := range e.order {
		if !f.Region[fn] {
			continue
		}
		seen := map[string]int{}
		for _, b := range fn.Blocks {
			for _, in := range b.Instrs {
				call, ok := in.(ssa.CallInstruction)
				if !ok {
					continue
				}
				cc := call.Common()
				v := cc.Value
				if _, isFn := v.(*ssa.Function); isFn {
					continue
				}
				if _, isB := v.(*ssa.Builtin); isB {
					continue
				}
				ld, ok := v.(*ssa.UnOp)
				if !ok || ld.Op != token.MUL {
					continue
				}
				fa, ok := ld.X.(*ssa.FieldAddr)
				if !ok {
					continue
				}
				fld := fieldName(fa.X.Type(), fa.Field)
				where, isOpt := optional[fld]
				if !isOpt {
					continue
				}
				construct := fmt.Sprintf("call through %s in %s", fld, p.FuncName(fn))
				seen[construct]++
				if seen[construct] > 1 {
					construct = fmt.Sprintf("%s #%d", construct, seen[construct])
				}
				st := f.StateAt(in)
				okv := st.Has(Atom("nn:"+ld.Name())) || st.Has(Atom("v:nn:"+canon(ld)))
				detail := "non-nil established on every path"
				if reason, listed := reviewedOptional[fld+"|"+p.FuncName(fn)]; !okv && listed {
					okv, detail = true, "reviewed: "+reason
				}
				if !okv {
					detail = fmt.Sprintf("field is compared with nil at %s, but this call is not dominated by a nil check or assignment", where)
				}
				r.table(p, rule, construct, p.instrPos(in), okv, detail)
			}
		}
	}
	if debugDump == "g7" {
		var ks []string
		for k, v := range optional {
			ks = append(ks, k+" @ "+v)
		}
		sort.Strings(ks)
		for _, k := range ks {
			fmt.Println("OPTIONAL", k)
		}
	}
}

// reviewedOptional: field|function -> reason the unconditional call is safe.
var reviewedOptional = map[string]string{
	"fdo/serviceinfo.UnchunkWriter.w|fdo/serviceinfo.UnchunkWriter.Write": "documented API contract for module implementers (NextServiceInfo precedes Write); the order of these calls is fixed by module code, not by peer bytes",
}

// ---------------------------------------------------------------------------
// G7b — optional values handed on through parameters.
//
// G7 only sees a call through a value loaded from the field in the very
// function that loads it. A configuration hook that may be absent (an optional
// hash.Hash, say) is usually loaded in one function and used two calls further
// down. The belief and the obligation are therefore carried over static calls:
//
//   1. a parameter of interface / function type that its own function compares
//      with nil — other than as a `== nil -> panic` assertion — is NIL-TOLERANT:
//      the author expects callers to pass nil;
//   2. every struct field (and every caller parameter, transitively) that flows
//      into a nil-tolerant parameter at a static call site MAY BE NIL;
//   3. every parameter that receives a may-be-nil field or parameter at a static
//      call site MAY BE NIL as well (transitively);
//   4. every method invoke / call whose receiver or function value derives —
//      through phis, interface conversions and local copies — from a may-be-nil
//      parameter must hold a non-nil fact for that value, or for every one of
//      the values merged into it.

type paramKey struct {
	fn  *ssa.Function
	idx int
}

// valueOrigins walks v back through phis, conversions and local copies and
// collects the parameters and struct fields it may come from.
func valueOrigins(v ssa.Value, depth int, params map[*ssa.Parameter]bool, fields map[string]bool, seen map[ssa.Value]bool) {
	if depth > 6 || seen[v] {
		return
	}
	seen[v] = true
	switch x := v.(type) {
	case *ssa.Parameter:
		params[x] = true
	case *ssa.UnOp:
		if x.Op != token.MUL {
			return
		}
		switch a := x.X.(type) {
		case *ssa.FieldAddr:
			if f := fieldName(a.X.Type(), a.Field); f != "" {
				fields[f] = true
			}
		case *ssa.Alloc:
			for _, ref := range *a.Referrers() {
				if st, ok := ref.(*ssa.Store); ok && st.Addr == a {
					valueOrigins(st.Val, depth+1, params, fields, seen)
				}
			}
		}
	case *ssa.Phi:
		for _, e := range x.Edges {
			valueOrigins(e, depth+1, params, fields, seen)
		}
	case *ssa.ChangeInterface:
		valueOrigins(x.X, depth+1, params, fields, seen)
	case *ssa.ChangeType:
		valueOrigins(x.X, depth+1, params, fields, seen)
	}
}

func paramIndex(p *ssa.Parameter) int {
	for i, q := range p.Parent().Params {
		if q == p {
			return i
		}
	}
	return -1
}

func (e *E3) g7b(r *Result, prefix string, f *Flow) {
	p := e.p
	rule := prefix + ".optional-params-checked"
	r.rule(rule, "G7b (contradiction rule across calls): a parameter of interface or function type that its function compares with nil (not as a panic assertion) is nil-tolerant; struct fields and caller parameters flowing into it at static call sites may be nil, and so may every parameter they are handed on to; every invoke / call through a value derived from a may-be-nil parameter is dominated by a non-nil fact for that value or for each value merged into it")
	// 1. nil-tolerant parameters
	tolerant := map[paramKey]string{}
	for _, fn := range e.order {
		if !f.Region[fn] {
			continue
		}
		for _, b := range fn.Blocks {
			for _, in := range b.Instrs {
				bo, ok := in.(*ssa.BinOp)
				if !ok || (bo.Op != token.EQL && bo.Op != token.NEQ) {
					continue
				}
				var x ssa.Value
				if c, ok := bo.Y.(*ssa.Const); ok && c.IsNil() {
					x = bo.X
				} else if c, ok := bo.X.(*ssa.Const); ok && c.IsNil() {
					x = bo.Y
				}
				if x == nil || !optionalKind(x.Type()) {
					continue
				}
				asserts := false
				for _, ref := range *bo.Referrers() {
					ifi, ok := ref.(*ssa.If)
					if !ok {
						continue
					}
					nilSucc := ifi.Block().Succs[0]
					if bo.Op == token.NEQ {
						nilSucc = ifi.Block().Succs[1]
					}
					for _, y := range nilSucc.Instrs {
						if _, ok := y.(*ssa.Panic); ok {
							asserts = true
						}
					}
				}
				if asserts {
					continue
				}
				ps, fs := map[*ssa.Parameter]bool{}, map[string]bool{}
				valueOrigins(x, 0, ps, fs, map[ssa.Value]bool{})
				for q := range ps {
					k := paramKey{fn, paramIndex(q)}
					if _, had := tolerant[k]; !had {
						tolerant[k] = p.instrPos(in)
					}
				}
			}
		}
	}
	// static call sites of the region, once
	type site struct {
		caller *ssa.Function
		callee *ssa.Function
		args   []ssa.Value
	}
	var sites []site
	for _, fn := range e.order {
		if !f.Region[fn] {
			continue
		}
		for _, b := range fn.Blocks {
			for _, in := range b.Instrs {
				call, ok := in.(ssa.CallInstruction)
				if !ok {
					continue
				}
				cal := p.body(call.Common().StaticCallee())
				if cal == nil || len(cal.Params) != len(call.Common().Args) {
					continue
				}
				sites = append(sites, site{fn, cal, call.Common().Args})
			}
		}
	}
	// 2. backwards: fields and caller parameters flowing into tolerant parameters
	mayNilField := map[string]string{}
	believed := map[paramKey]string{}
	for k, w := range tolerant {
		believed[k] = w
	}
	for changed := true; changed; {
		changed = false
		for _, s := range sites {
			for i, a := range s.args {
				w, ok := believed[paramKey{s.callee, i}]
				if !ok || !optionalKind(a.Type()) {
					continue
				}
				ps, fs := map[*ssa.Parameter]bool{}, map[string]bool{}
				valueOrigins(a, 0, ps, fs, map[ssa.Value]bool{})
				for fld := range fs {
					if _, had := mayNilField[fld]; !had {
						mayNilField[fld] = w
						changed = true
					}
				}
				for q := range ps {
					k := paramKey{s.caller, paramIndex(q)}
					if _, had := believed[k]; !had {
						believed[k] = w
						changed = true
					}
				}
			}
		}
	}
	// 3. forwards: parameters that receive a may-be-nil field or parameter
	mayNil := map[paramKey]string{}
	for changed := true; changed; {
		changed = false
		for _, s := range sites {
			for i, a := range s.args {
				if !optionalKind(a.Type()) {
					continue
				}
				k := paramKey{s.callee, i}
				if _, had := mayNil[k]; had {
					continue
				}
				ps, fs := map[*ssa.Parameter]bool{}, map[string]bool{}
				valueOrigins(a, 0, ps, fs, map[ssa.Value]bool{})
				why := ""
				for fld := range fs {
					if w, ok := mayNilField[fld]; ok {
						why = fmt.Sprintf("field %s (flows into a parameter compared with nil at %s)", fld, w)
					}
				}
				for q := range ps {
					if w, ok := mayNil[paramKey{s.caller, paramIndex(q)}]; ok {
						why = w
					}
				}
				if why != "" {
					mayNil[k] = why
					changed = true
				}
			}
		}
	}
	// 4. obligations
	nonNil := func(st AtomSet, v ssa.Value) bool {
		return st.Has(Atom("nn:"+v.Name())) || st.Has(Atom("v:nn:"+canon(v)))
	}
	var established func(st AtomSet, v ssa.Value, depth int) bool
	established = func(st AtomSet, v ssa.Value, depth int) bool {
		if nonNil(st, v) {
			return true
		}
		if depth > 4 {
			return false
		}
		switch x := v.(type) {
		case *ssa.Phi:
			for _, ed := range x.Edges {
				if !established(st, ed, depth+1) {
					return false
				}
			}
			return len(x.Edges) > 0
		case *ssa.ChangeInterface:
			return established(st, x.X, depth+1)
		case *ssa.ChangeType:
			return established(st, x.X, depth+1)
		case *ssa.MakeInterface, *ssa.Function, *ssa.MakeClosure:
			return true
		case *ssa.Const:
			return !x.IsNil()
		}
		return false
	}
	for _, fn := range e.order {
		if !f.Region[fn] {
			continue
		}
		seen := map[string]int{}
		for _, b := range fn.Blocks {
			for _, in := range b.Instrs {
				call, ok := in.(ssa.CallInstruction)
				if !ok {
					continue
				}
				v := call.Common().Value
				switch v.(type) {
				case *ssa.Function, *ssa.Builtin, *ssa.MakeClosure:
					continue
				}
				if !optionalKind(v.Type()) {
					continue
				}
				ps, fs := map[*ssa.Parameter]bool{}, map[string]bool{}
				valueOrigins(v, 0, ps, fs, map[ssa.Value]bool{})
				var q *ssa.Parameter
				why := ""
				st := f.StateAt(in)
				// name the first may-be-nil parameter that lacks a non-nil fact,
				// or else the first may-be-nil one
				var names []*ssa.Parameter
				for c := range ps {
					if _, ok := mayNil[paramKey{fn, paramIndex(c)}]; ok {
						names = append(names, c)
					}
				}
				sort.Slice(names, func(i, j int) bool { return names[i].Name() < names[j].Name() })
				for _, c := range names {
					if q == nil || (established(st, q, 0) && !established(st, c, 0)) {
						q, why = c, mayNil[paramKey{fn, paramIndex(c)}]
					}
				}
				if q == nil {
					continue
				}
				construct := fmt.Sprintf("call through parameter %s of %s", q.Name(), p.FuncName(fn))
				seen[construct]++
				if seen[construct] > 1 {
					construct = fmt.Sprintf("%s #%d", construct, seen[construct])
				}
				okv := established(st, v, 0)
				detail := "non-nil established on every path"
				if reason, listed := reviewedOptionalParam[q.Name()+"|"+p.FuncName(fn)]; !okv && listed && seen[construct] == 1 {
					okv, detail = true, "reviewed: "+reason
				}
				if !okv {
					detail = "parameter may be nil: it receives " + why + "; this call is not dominated by a nil check"
				}
				r.table(p, rule, construct, p.instrPos(in), okv, detail)
			}
		}
	}
	if debugDump == "g7" {
		for k, w := range tolerant {
			fmt.Println("TOLERANT", p.FuncName(k.fn), k.idx, w)
		}
		for k, w := range mayNilField {
			fmt.Println("MAYNILFIELD", k, w)
		}
		for k, w := range mayNil {
			fmt.Println("MAYNILPARAM", p.FuncName(k.fn), k.idx, w)
		}
	}
}

// reviewedOptionalParam: parameter|function -> reason the first call through it
// needs no nil check.
var reviewedOptionalParam = map[string]string{
	"h|fdo.hmacHash": "h.Size() precedes the nil check, so the check is dead and a nil h panics; but which hash is passed is chosen by min(device key size, owner key size) or by the stored credential, and the field documentation requires HmacSha384 whenever the device key is 384-bit, so no peer bytes select a nil h in a supported configuration (triage: DESIGN section 5)",
}
