package main

import (
	"strings"

	"golang.org/x/tools/go/ssa"
)

// C07 — TO1 releases the registered redirect, unmodified, only to the proven
// device.

func init() {
	checks["C07"] = checkC07
	explanations["C07"] = "Structural necessary condition (E1 must-pass from (*TO1Server).Respond): a function in that region returns a To1d blob successfully only after (a) the decoded EAT nonce equals Session.TO1ProofNonce (read err==nil), (b) the decoded UEID has the GUID length and RAND type, (c) RVBlob(guid from that UEID) err==nil, (d) DevicePublicKey of the voucher returned by RVBlob err==nil and (e) Sign1.Verify on the decoded token under that key is true && err==nil; the returned blob derives from the RVBlob result through Tag() only. In the sqlite backend RVBlob succeeds only on the not-expired edge of time.Now().After(exp), and the expiry column is written and read with matching time units. The device-side signature check on the blob is C01's. Not decided: byte fidelity through storage re-encoding (C11), expiry in other backends, clock behaviour."
}

func c07Rules() *RuleSet {
	nonceRead := named("fdo.TO1SessionState.TO1ProofNonce")
	rvblob := "call:fdo.RendezvousBlobPersistentState.RVBlob"
	verifyArgs := func(m *Matcher, _ ssa.CallInstruction, args []ssa.Value) bool {
		if len(args) < 2 {
			return false
		}
		key := m.Prov(args[1])
		return decoded(m, args[0]) && key.Has("call:fdo.Voucher.DevicePublicKey") && key.Has(rvblob)
	}
	return &RuleSet{
		Atoms: []AtomDef{
			errNil("nonce-read", "reading the session's TO1 proof nonce succeeded", nonceRead, nil),
			equal("nonce-eq", "decoded EAT nonce equals the nonce issued in this session",
				provAnd(decoded, lacksProv("call:fdo.TO1SessionState.TO1ProofNonce")), hasProv("call:fdo.TO1SessionState.TO1ProofNonce")),
			AtomDef{Name: "ueid-len-ok", Doc: "decoded UEID has length 1+len(GUID)", Edge: func(m *Matcher, p Pred, holds bool) bool {
				if p.Kind != "eq" || !holds {
					return false
				}
				x, c := p.X, p.Y
				if _, ok := constInt(c); !ok {
					x, c = p.Y, p.X
				}
				n, ok := constInt(c)
				l := lenOf(m, x)
				return ok && n == 17 && l != nil && decoded(m, l)
			}},
			AtomDef{Name: "ueid-type-ok", Doc: "decoded UEID type byte is RAND", Edge: func(m *Matcher, p Pred, holds bool) bool {
				if p.Kind != "eq" || !holds {
					return false
				}
				x, c := p.X, p.Y
				if _, ok := constInt(c); !ok {
					x, c = p.Y, p.X
				}
				if _, ok := constInt(c); !ok {
					return false
				}
				ld := loadOf(x)
				if ld == nil {
					return false
				}
				ia, ok := ld.(*ssa.IndexAddr)
				return ok && isConstInt(ia.Index, 0) && decoded(m, ia.X)
			}},
			errNil("blob-read", "RVBlob for the GUID taken from the decoded UEID returned no error", named("fdo.RendezvousBlobPersistentState.RVBlob"),
				func(m *Matcher, _ ssa.CallInstruction, args []ssa.Value) bool { return len(args) == 3 && decoded(m, args[2]) }),
			errNil("devkey-ok", "DevicePublicKey of the registered voucher returned no error", named("fdo.Voucher.DevicePublicKey"),
				func(m *Matcher, _ ssa.CallInstruction, args []ssa.Value) bool { return m.Prov(args[0]).Has(rvblob) }),
			boolTrue("eat-sig-true", "Sign1.Verify of the decoded token under the registered voucher's device key returned true", named("fdo/cose.Sign1.Verify"), 0, verifyArgs),
			errNil("eat-sig-noerr", "that Verify returned no error", named("fdo/cose.Sign1.Verify"), verifyArgs),
			// sqlite backend
			boolFalse("not-expired", "time.Now().After(stored expiry) is false", named("time.Time.After"), 0,
				func(m *Matcher, _ ssa.CallInstruction, args []ssa.Value) bool {
					return m.Prov(args[0]).Has("call:time.Now") && m.Prov(args[1]).HasPrefix("out:fdo/sqlite.")
				}),
			errNil("row-read", "the rv_blobs row was read without error", func(n string) bool { return strings.HasPrefix(n, "fdo/sqlite.") && strings.HasSuffix(n, ".query") }, nil),
		},
		Derive: []Derivation{
			{"eat-sig-ok", []Atom{"eat-sig-true", "eat-sig-noerr"}},
		},
	}
}

func checkC07(c *Ctx, p *Prog, r *Result) {
	root := p.ByName["fdo.TO1Server.Respond"]
	if root == nil {
		r.fail("anchor fdo.TO1Server.Respond not found")
		return
	}
	rs := c07Rules()
	f := NewFlow(p, rs, []*ssa.Function{root}, nil)
	r.useFlow(f)
	dumpFlow(f)

	rule := "C07.redirect-guarded"
	r.rule(rule, "in the region of (*TO1Server).Respond, every success return of a function whose first result is a To1d blob requires {nonce-read, nonce-eq, ueid-len-ok, ueid-type-ok, blob-read, devkey-ok, eat-sig-ok}")
	r.floor(rule, 1)
	r.rule("C07.blob-unmodified", "the returned blob derives from the RVBlob result (through Tag only) and not from the request")
	r.floor("C07.blob-unmodified", 1)
	for _, fn := range f.Order {
		res := fn.Signature.Results()
		if res.Len() != 2 || !strings.Contains(shortTypeString(res.At(0).Type()), "fdo/protocol.To1d") || !isErrorType(res.At(1).Type()) {
			continue
		}
		if fn.Pkg == nil || fn.Pkg.Pkg.Path() != modulePath {
			continue
		}
		r.requireAtReturns(f, rule, fn, 1, []Atom{"nonce-read", "nonce-eq", "ueid-len-ok", "ueid-type-ok", "blob-read", "devkey-ok", "eat-sig-ok"})
		m := f.matcherFor(fn)
		for i, sr := range f.successReturns(fn, 1) {
			v := returnValue(sr.Ret, 0)
			chain := []string{}
			for k := 0; k < 6; k++ {
				if call, ok := v.(*ssa.Call); ok && p.calleeOf(call.Common()).Name == "fdo/cose.Sign1.Tag" {
					chain = append(chain, "Tag()")
					v = allArgs(call)[0]
					continue
				}
				if ld := loadOf(v); ld != nil {
					chain = append(chain, "*")
					v = ld
					continue
				}
				break
			}
			n, idx, _ := m.ResultOf(v)
			ok := n == "fdo.RendezvousBlobPersistentState.RVBlob" && idx == 0
			r.table(p, "C07.blob-unmodified", p.FuncName(fn)+" success return #"+itoa(i), p.instrPos(sr.Ret), ok,
				"returned value = "+strings.Join(chain, " ")+" result "+itoa(idx)+" of "+n)
		}
	}

	sqliteExpiryRules(p, r, rs, "C07")
}

// sqliteExpiryRules: the sqlite store enforces the registration expiry (shared by C07 and C18).
func sqliteExpiryRules(p *Prog, r *Result, rs *RuleSet, prefix string) {
	// sqlite backend: expiry enforced, units agree
	rv := p.ByName["fdo/sqlite.DB.RVBlob"]
	set := p.ByName["fdo/sqlite.DB.SetRVBlob"]
	if rv == nil || set == nil {
		r.fail("anchors fdo/sqlite.DB.RVBlob / SetRVBlob not found")
		return
	}
	fs := NewFlow(p, rs, []*ssa.Function{rv}, nil)
	r.useFlow(fs)
	r.rule(prefix+".sqlite-expiry", "(*sqlite.DB).RVBlob returns a blob only after the row was read and time.Now().After(expiry from that row) was false")
	r.floor(prefix+".sqlite-expiry", 1)
	r.requireAtReturns(fs, prefix+".sqlite-expiry", rv, 2, []Atom{"row-read", "not-expired"})

	r.rule(prefix+".sqlite-expiry-units", "the exp column is written with Time.Unix*() and read back with the matching time.Unix*() constructor")
	r.floor(prefix+".sqlite-expiry-units", 1)
	writer := ""
	for _, b := range set.Blocks {
		for _, in := range b.Instrs {
			if mu, ok := in.(*ssa.MapUpdate); ok {
				if k, ok := stripConv(mu.Key).(*ssa.Const); ok && k.Value != nil && k.Value.ExactString() == `"exp"` {
					if call, ok := stripConv(mu.Value).(*ssa.Call); ok {
						writer = p.calleeOf(call.Common()).Name
					}
				}
			}
		}
	}
	reader := ""
	mrv := fs.matcherFor(rv)
	for _, b := range rv.Blocks {
		for _, in := range b.Instrs {
			if call, ok := in.(*ssa.Call); ok {
				n := p.calleeOf(call.Common()).Name
				if (n == "time.Unix" || n == "time.UnixMilli" || n == "time.UnixMicro") && mrv.Prov(call.Call.Args[0]).HasPrefix("out:fdo/sqlite.") {
					reader = n
					if n == "time.Unix" && !isConstInt(call.Call.Args[1], 0) {
						reader = "time.Unix(sec, nsec!=0)"
					}
				}
			}
		}
	}
	pair := map[string]string{"time.Time.Unix": "time.Unix", "time.Time.UnixMilli": "time.UnixMilli", "time.Time.UnixMicro": "time.UnixMicro"}
	r.table(p, prefix+".sqlite-expiry-units", "fdo/sqlite.DB.SetRVBlob exp <-> fdo/sqlite.DB.RVBlob", p.Pos(set.Pos()), writer != "" && pair[writer] == reader,
		"writer conversion "+writer+", reader conversion "+reader)
}
