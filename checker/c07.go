package main

import (
	"fmt"
	"strings"

	"golang.org/x/tools/go/ssa"
)

// C07 — TO1 releases the registered redirect, unmodified, only to the proven
// device.

func init() {
	checks["C07"] = checkC07
	explanations["C07"] = "Structural necessary condition (E1 must-pass from (*TO1Server).Respond): a function in that region returns a To1d blob successfully only after (a) the decoded EAT nonce equals Session.TO1ProofNonce (read err==nil), (b) the decoded UEID has the GUID length and RAND type, (c) RVBlob(guid from that UEID) err==nil, (d) DevicePublicKey of the voucher returned by RVBlob err==nil and (e) Sign1.Verify on the decoded token under that key is true && err==nil; the returned blob derives from the RVBlob result through Tag() only. In the sqlite backend RVBlob succeeds only on the not-expired edge of time.Now().After(exp), and the expiry column is written and read with matching time units. The device-side signature check on the blob is C01's. Also: where the expiry given to SetRVBlob is computed from a duration (TO0 and the all-in-one auto-registration), the value stored for a positive duration is Now().Add(duration) with no further date arithmetic. Not decided: byte fidelity through storage re-encoding (C11), expiry in other backends, clock behaviour."
}

func c07Rules() *RuleSet {
	nonceRead := named("fdo.TO1SessionState.TO1ProofNonce")
	rvblob := "call:fdo.RendezvousBlobPersistentState.RVBlob"
	verifyArgs := func(m *Matcher, _ ssa.CallInstruction, args []ssa.Value) bool {
		if len(args) < 2 {
			return false
		}
		key := m.Prov(args[1])
		return decodedX(m, args[0]) && key.HasX("call:fdo.Voucher.DevicePublicKey") && key.HasX(rvblob)
	}
	return &RuleSet{
		Atoms: []AtomDef{
			errNil("nonce-read", "reading the session's TO1 proof nonce succeeded", nonceRead, nil),
			equal("nonce-eq", "decoded EAT nonce equals the nonce issued in this session",
				provAnd(decodedX, lacksProv("call:fdo.TO1SessionState.TO1ProofNonce")), hasProvX("call:fdo.TO1SessionState.TO1ProofNonce")),
			AtomDef{Name: "ueid-len-ok", Doc: "decoded UEID has length 1+len(GUID)", Edge: func(m *Matcher, p Pred, holds bool) bool {
				if p.Kind != "eq" || !holds {
					return false
				}
				x, c := p.X, p.Y
				if _, ok := constInt(c); !ok {
					x, c = p.Y, p.X
				}
				n, ok := constInt(c)
				l := lenOf(m, x)
				return ok && n == 17 && l != nil && decodedX(m, l)
			}},
			AtomDef{Name: "ueid-type-ok", Doc: "decoded UEID type byte is RAND", Edge: func(m *Matcher, p Pred, holds bool) bool {
				if p.Kind != "eq" || !holds {
					return false
				}
				x, c := p.X, p.Y
				if _, ok := constInt(c); !ok {
					x, c = p.Y, p.X
				}
				if _, ok := constInt(c); !ok {
					return false
				}
				ld := loadOf(x)
				if ld == nil {
					return false
				}
				ia, ok := ld.(*ssa.IndexAddr)
				return ok && isConstInt(ia.Index, 0) && decodedX(m, ia.X)
			}},
			errNil("blob-read", "RVBlob for the GUID taken from the decoded UEID returned no error", named("fdo.RendezvousBlobPersistentState.RVBlob"),
				func(m *Matcher, _ ssa.CallInstruction, args []ssa.Value) bool {
					return len(args) == 3 && decodedX(m, args[2])
				}),
			errNil("devkey-ok", "DevicePublicKey of the registered voucher returned no error", named("fdo.Voucher.DevicePublicKey"),
				func(m *Matcher, _ ssa.CallInstruction, args []ssa.Value) bool { return m.Prov(args[0]).HasX(rvblob) }),
			boolTrue("eat-sig-true", "Sign1.Verify of the decoded token under the registered voucher's device key returned true", named("fdo/cose.Sign1.Verify"), 0, verifyArgs),
			errNil("eat-sig-noerr", "that Verify returned no error", named("fdo/cose.Sign1.Verify"), verifyArgs),
			// sqlite backend
			boolFalse("not-expired", "time.Now().After(stored expiry) is false", named("time.Time.After"), 0,
				func(m *Matcher, _ ssa.CallInstruction, args []ssa.Value) bool {
					return m.Prov(args[0]).Has("call:time.Now") && m.Prov(args[1]).HasPrefixX("out:fdo/sqlite.")
				}),
			errNil("row-read", "the rv_blobs row was read without error", func(n string) bool { return strings.HasPrefix(n, "fdo/sqlite.") && strings.HasSuffix(n, ".query") }, nil),
		},
		Derive: []Derivation{
			{"eat-sig-ok", []Atom{"eat-sig-true", "eat-sig-noerr"}},
		},
	}
}

func checkC07(c *Ctx, p *Prog, r *Result) {
	root := p.ByName["fdo.TO1Server.Respond"]
	if root == nil {
		r.fail("anchor fdo.TO1Server.Respond not found")
		return
	}
	rs := c07Rules()
	f := NewFlow(p, rs, []*ssa.Function{root}, nil)
	r.useFlow(f)
	dumpFlow(f)
	c07RegistrationExpiry(p, r)

	rule := "C07.redirect-guarded"
	r.rule(rule, "in the region of (*TO1Server).Respond, every success return of a function whose first result is a To1d blob requires {nonce-read, nonce-eq, ueid-len-ok, ueid-type-ok, blob-read, devkey-ok, eat-sig-ok}")
	r.floor(rule, 1)
	r.rule("C07.blob-unmodified", "the returned blob derives from the RVBlob result (through Tag only) and not from the request")
	r.floor("C07.blob-unmodified", 1)
	for _, fn := range f.Order {
		res := fn.Signature.Results()
		if res.Len() != 2 || !strings.Contains(shortTypeString(res.At(0).Type()), "fdo/protocol.To1d") || !isErrorType(res.At(1).Type()) {
			continue
		}
		if fn.Pkg == nil || fn.Pkg.Pkg.Path() != modulePath {
			continue
		}
		r.requireAtReturns(f, rule, fn, 1, []Atom{"nonce-read", "nonce-eq", "ueid-len-ok", "ueid-type-ok", "blob-read", "devkey-ok", "eat-sig-ok"})
		m := f.matcherFor(fn)
		for i, sr := range f.successReturns(fn, 1) {
			v := returnValue(sr.Ret, 0)
			chain := []string{}
			for k := 0; k < 6; k++ {
				if call, ok := v.(*ssa.Call); ok && p.calleeOf(call.Common()).Name == "fdo/cose.Sign1.Tag" {
					chain = append(chain, "Tag()")
					v = allArgs(call)[0]
					continue
				}
				if ld := loadOf(v); ld != nil {
					chain = append(chain, "*")
					v = ld
					continue
				}
				break
			}
			n, idx, _ := m.ResultOf(v)
			ok := n == "fdo.RendezvousBlobPersistentState.RVBlob" && idx == 0
			r.table(p, "C07.blob-unmodified", p.FuncName(fn)+" success return #"+itoa(i), p.instrPos(sr.Ret), ok,
				"returned value = "+strings.Join(chain, " ")+" result "+itoa(idx)+" of "+n)
		}
	}

	sqliteExpiryRules(p, r, rs, "C07")
}

// sqliteExpiryRules: the sqlite store enforces the registration expiry (shared by C07 and C18).
func sqliteExpiryRules(p *Prog, r *Result, rs *RuleSet, prefix string) {
	// sqlite backend: expiry enforced, units agree
	rv := p.ByName["fdo/sqlite.DB.RVBlob"]
	set := p.ByName["fdo/sqlite.DB.SetRVBlob"]
	if rv == nil || set == nil {
		r.fail("anchors fdo/sqlite.DB.RVBlob / SetRVBlob not found")
		return
	}
	fs := NewFlow(p, rs, []*ssa.Function{rv}, nil)
	r.useFlow(fs)
	r.rule(prefix+".sqlite-expiry", "(*sqlite.DB).RVBlob returns a blob only after the row was read and time.Now().After(expiry from that row) was false")
	r.floor(prefix+".sqlite-expiry", 1)
	r.requireAtReturns(fs, prefix+".sqlite-expiry", rv, 2, []Atom{"row-read", "not-expired"})

	r.rule(prefix+".sqlite-expiry-units", "the exp column is written with Time.Unix*() and read back with the matching time.Unix*() constructor")
	r.floor(prefix+".sqlite-expiry-units", 1)
	writer := ""
	for _, b := range set.Blocks {
		for _, in := range b.Instrs {
			if mu, ok := in.(*ssa.MapUpdate); ok {
				if k, ok := stripConv(mu.Key).(*ssa.Const); ok && k.Value != nil && k.Value.ExactString() == `"exp"` {
					if call, ok := stripConv(mu.Value).(*ssa.Call); ok {
						writer = p.calleeOf(call.Common()).Name
					}
				}
			}
		}
	}
	reader := ""
	for _, rfn := range fs.Order {
		if funcPkgPath(rfn) != funcPkgPath(rv) {
			continue
		}
		mrv := fs.matcherFor(rfn)
		for _, b := range rfn.Blocks {
			for _, in := range b.Instrs {
				if call, ok := in.(*ssa.Call); ok {
					n := p.calleeOf(call.Common()).Name
					if (n == "time.Unix" || n == "time.UnixMilli" || n == "time.UnixMicro") && mrv.Prov(call.Call.Args[0]).HasPrefixX("out:fdo/sqlite.") {
						reader = n
						if n == "time.Unix" && !isConstInt(call.Call.Args[1], 0) {
							reader = "time.Unix(sec, nsec!=0)"
						}
					}
				}
			}
		}
	}
	pair := map[string]string{"time.Time.Unix": "time.Unix", "time.Time.UnixMilli": "time.UnixMilli", "time.Time.UnixMicro": "time.UnixMicro"}
	r.table(p, prefix+".sqlite-expiry-units", "fdo/sqlite.DB.SetRVBlob exp <-> fdo/sqlite.DB.RVBlob", p.Pos(set.Pos()), writer != "" && pair[writer] == reader,
		"writer conversion "+writer+", reader conversion "+reader)
}

// c07RegistrationExpiry: every caller of SetRVBlob in the root package that
// computes the expiry from a configured/negotiated duration stores
// time.Now().Add(duration) when that duration is positive — any further date
// arithmetic (the "never expires" default) is confined to the non-positive
// case. Decided per incoming edge of the expiry value: on an edge whose state
// holds the lower-bound fact for the duration, the value's backward slice
// contains time.Time.Add of that duration and no time.Time.AddDate.
func c07RegistrationExpiry(p *Prog, r *Result) {
	rule := "C07.registration-expiry"
	r.rule(rule, "where the expiry handed to SetRVBlob is computed from a duration, the value stored for a positive duration is time.Now().Add(duration) with no further date arithmetic (a default such as 'plus 30 years' applies only when the duration is not positive), so TO1 stops releasing the redirect when the registration lapses")
	r.floor(rule, 2)
	var sites []ssa.CallInstruction
	for _, fn := range p.Funcs {
		if funcPkgPath(fn) != modulePath {
			continue
		}
		for _, b := range fn.Blocks {
			for _, in := range b.Instrs {
				if call, ok := in.(ssa.CallInstruction); ok && call.Common().IsInvoke() && call.Common().Method.Name() == "SetRVBlob" {
					sites = append(sites, call)
				}
			}
		}
	}
	for _, call := range sites {
		fn := call.Parent()
		if funcPkgPath(fn) != modulePath {
			continue
		}
		args := allArgs(call)
		exp := args[len(args)-1]
		g := fn
		f := NewFlow(p, e3Rules(p), []*ssa.Function{g}, func(h *ssa.Function) bool { return h != g })
		// slice helpers
		var adds func(v ssa.Value, depth int, seen map[ssa.Value]bool) (durs []ssa.Value, addDate bool)
		adds = func(v ssa.Value, depth int, seen map[ssa.Value]bool) ([]ssa.Value, bool) {
			if depth > 8 || seen[v] {
				return nil, false
			}
			seen[v] = true
			var durs []ssa.Value
			ad := false
			switch x := v.(type) {
			case *ssa.Call:
				n := p.calleeOf(x.Common()).Name
				switch n {
				case "time.Time.Add":
					durs = append(durs, x.Common().Args[1])
				case "time.Time.AddDate":
					ad = true
				}
				if strings.HasPrefix(n, "time.Time.") {
					d2, a2 := adds(x.Common().Args[0], depth+1, seen)
					durs, ad = append(durs, d2...), ad || a2
				}
			case *ssa.Phi:
				for _, e := range x.Edges {
					d2, a2 := adds(e, depth+1, seen)
					durs, ad = append(durs, d2...), ad || a2
				}
			case *ssa.UnOp:
				if al, ok := x.X.(*ssa.Alloc); ok {
					for _, ref := range *al.Referrers() {
						if st, ok := ref.(*ssa.Store); ok && st.Addr == al {
							d2, a2 := adds(st.Val, depth+1, seen)
							durs, ad = append(durs, d2...), ad || a2
						}
					}
				}
			}
			return durs, ad
		}
		allDurs, _ := adds(exp, 0, map[ssa.Value]bool{})
		if len(allDurs) == 0 {
			continue // expiry not computed from a duration here (e.g. passed through)
		}
		key := siteKey(p, call)
		phi, isPhi := exp.(*ssa.Phi)
		if !isPhi {
			_, ad := adds(exp, 0, map[ssa.Value]bool{})
			st := f.StateAt(call)
			pos := false
			for _, d := range allDurs {
				if st.Has(Atom("v:lb0:" + canon(d))) {
					pos = true
				}
			}
			r.table(p, rule, key, p.instrPos(call), !(ad && pos), "single expiry value; AddDate on a path where the duration is known positive")
			continue
		}
		okAll, detail := true, ""
		checked := 0
		for i, e := range phi.Edges {
			pred := phi.Block().Preds[i]
			st, reached := f.edgeSt[[2]*ssa.BasicBlock{pred, phi.Block()}]
			if !reached {
				continue
			}
			st = f.close(st)
			positive := false
			for _, d := range allDurs {
				if st.Has(Atom("v:lb0:" + canon(d))) {
					positive = true
				}
			}
			if !positive {
				continue
			}
			checked++
			durs, ad := adds(e, 0, map[ssa.Value]bool{})
			if ad || len(durs) == 0 {
				okAll = false
				detail = fmt.Sprintf("on the edge where the duration is positive the expiry is not plain Now().Add(duration) (AddDate in slice=%v, Add of duration=%v)", ad, len(durs) > 0)
			}
		}
		if checked == 0 {
			okAll, detail = false, "no incoming edge of the expiry value is known to carry a positive duration: undecided"
		}
		r.table(p, rule, key, p.instrPos(call), okAll, detail)
	}
}
