package main

import (
	"fmt"
	"sort"
	"strings"

	"golang.org/x/tools/go/ssa"
)

// C02 — the owner serves only a peer that proved the device key for this
// session.

func init() {
	checks["C02"] = checkC02
	explanations["C02"] = "Structural necessary conditions (E1 must-pass from (*TO2Server).Respond and http.Handler.ServeHTTP, plus E2 who-may-write/who-may-call tables): (1) the key exchange is completed (Session.SetParameter), the completed session is stored (SetXSession) and SetupDevice is returned only after Sign1.Verify true&&err==nil on the decoded token under DevicePublicKey of the voucher fetched with Session.GUID, the decoded nonce claim equals Session.ProveDeviceNonce, the decoded UEID claim equals RAND||Session.GUID, and SetParameter's argument comes from that token; (2) the HTTP handler invokes Respond for types 65..254 only after Session.Decrypt err==nil; (3) SEK/SVK are written only by the registered suite constructors (empty), by Parameter/SetParameter (KDF-derived) and by UnmarshalCBOR (decoded), and NewCrypter/NewMac succeed only after the key-length comparison, so an underived key cannot decrypt; (4) ProveOVHdr is signed only after the owner key equals the voucher's OwnerPublicKey, Suite.Valid and kex.Available; (5) ReplaceVoucher and the owner-module calls occur only in the responder arms of types 70 and 68. Not decided: that messages 66/68/70 arrive after 64 other than through (2)+(3) (the responders keep no 'proved' flag); transports other than http.Handler."
}

// msgArmAtoms defines one atom "msg=<n>" per constant message type: the
// responder's msgType parameter equals that constant.
func msgArmAtoms(p *Prog, names []string) ([]AtomDef, map[string]int64) {
	vals := map[string]int64{}
	var atoms []AtomDef
	for _, n := range names {
		v, ok := p.constOf("fdo/protocol", n)
		if !ok {
			continue
		}
		vals[n] = v
		val := v
		atoms = append(atoms, AtomDef{Name: fmt.Sprintf("msg=%d", val), Doc: "the request's message type is " + n, Edge: func(m *Matcher, pd Pred, holds bool) bool {
			if pd.Kind != "eq" || !holds {
				return false
			}
			x, c := pd.X, pd.Y
			if !isConstInt(c, val) {
				x, c = pd.Y, pd.X
			}
			if !isConstInt(c, val) {
				return false
			}
			pr, ok := x.(*ssa.Parameter)
			return ok && pr.Type().Underlying().String() == "uint8" && m.Fn.Name() == "Respond"
		}})
	}
	return atoms, vals
}

var requestMsgNames = []string{"DIAppStartMsgType", "DISetHmacMsgType", "TO0HelloMsgType", "TO0OwnerSignMsgType", "TO1HelloRVMsgType", "TO1ProveToRVMsgType",
	"TO2HelloDeviceMsgType", "TO2GetOVNextEntryMsgType", "TO2ProveDeviceMsgType", "TO2DeviceServiceInfoReadyMsgType", "TO2DeviceServiceInfoMsgType", "TO2DoneMsgType"}

func c02Rules(p *Prog) *RuleSet {
	guid := "call:fdo.TO2SessionState.GUID"
	voucher := "call:fdo.VoucherPersistentState.Voucher"
	nonce := "call:fdo.TO2SessionState.ProveDeviceNonce"
	verifyArgs := func(m *Matcher, _ ssa.CallInstruction, args []ssa.Value) bool {
		if len(args) < 2 {
			return false
		}
		key := m.Prov(args[1])
		return decodedX(m, args[0]) && key.HasX("call:fdo.Voucher.DevicePublicKey") && key.HasX(voucher) && key.HasX(guid)
	}
	arms, _ := msgArmAtoms(p, requestMsgNames)
	rs := &RuleSet{
		Atoms: []AtomDef{
			errNil("guid-read", "Session.GUID returned no error", named("fdo.TO2SessionState.GUID"), nil),
			errNil("voucher-read", "the voucher for the session's GUID was fetched without error", named("fdo.VoucherPersistentState.Voucher"),
				func(m *Matcher, _ ssa.CallInstruction, args []ssa.Value) bool {
					return len(args) == 3 && m.Prov(args[2]).HasX(guid)
				}),
			errNil("devkey-ok", "DevicePublicKey of that voucher returned no error", named("fdo.Voucher.DevicePublicKey"),
				func(m *Matcher, _ ssa.CallInstruction, args []ssa.Value) bool { return m.Prov(args[0]).HasX(voucher) }),
			boolTrue("eat-sig-true", "Sign1.Verify of the decoded ProveDevice token under the voucher's device key returned true", named("fdo/cose.Sign1.Verify"), 0, verifyArgs),
			errNil("eat-sig-noerr", "that Verify returned no error", named("fdo/cose.Sign1.Verify"), verifyArgs),
			errNil("nonce-read", "Session.ProveDeviceNonce returned no error", named("fdo.TO2SessionState.ProveDeviceNonce"), nil),
			equal("nonce-eq", "decoded EAT nonce claim equals the nonce this session issued",
				provAnd(hasProvX("decoded:"), lacksProv(nonce)), provAnd(hasProvX(nonce), lacksProv("decoded:"))),
			equal("ueid-eq", "decoded EAT UEID claim equals RAND||Session.GUID",
				provAnd(hasProvX("decoded:"), lacksProv(guid)), provAnd(hasProvX(guid), lacksProv("decoded:"))),
			errNil("setparam-ok", "Session.SetParameter with the token's key-exchange parameter returned no error", named("fdo/kex.Session.SetParameter"),
				func(m *Matcher, _ ssa.CallInstruction, args []ssa.Value) bool {
					return len(args) == 3 && decodedX(m, args[1])
				}),
			errNil("xsession-read", "the session's key-exchange state was read without error", named("fdo.TO2SessionState.XSession"), nil),
			// type-60 responder
			equal("owner-key-eq", "the configured owner key equals the voucher's current owner key",
				hasProvX("call:crypto.Signer.Public"), provAnd(hasProvX("call:fdo.Voucher.OwnerPublicKey"), lacksProv("call:crypto.Signer.Public"))),
			boolTrue("suite-valid", "Suite.Valid(device sig type, owner key) is true for the requested suite", named("fdo/kex.Suite.Valid"), 0,
				func(m *Matcher, _ ssa.CallInstruction, args []ssa.Value) bool {
					return len(args) == 3 && decodedX(m, args[0]) && m.Prov(args[2]).HasX("call:fdo.Voucher.OwnerPublicKey")
				}),
			boolTrue("kex-available", "kex.Available(requested suite, requested cipher) is true", named("fdo/kex.Available"), 0,
				func(m *Matcher, _ ssa.CallInstruction, args []ssa.Value) bool {
					return len(args) == 2 && decodedX(m, args[0]) && decodedX(m, args[1])
				}),
			// key length
			AtomDef{Name: "keylen-eq", Doc: "len(key) equals the algorithm's KeySize()", Edge: func(m *Matcher, pd Pred, holds bool) bool {
				if pd.Kind != "eq" || !holds {
					return false
				}
				x, y := pd.X, pd.Y
				if lenOf(m, x) == nil {
					x, y = y, x
				}
				l := lenOf(m, x)
				if l == nil {
					return false
				}
				if _, ok := l.(*ssa.Parameter); !ok {
					return false
				}
				n, _, call := m.ResultOf(stripConv(y))
				return call != nil && strings.HasSuffix(n, ".KeySize")
			}},
		},
		Derive: []Derivation{
			{"eat-sig-ok", []Atom{"eat-sig-true", "eat-sig-noerr"}},
			{"device-proved", []Atom{"guid-read", "voucher-read", "devkey-ok", "eat-sig-ok", "nonce-read", "nonce-eq", "ueid-eq"}},
		},
	}
	rs.Atoms = append(rs.Atoms, arms...)
	return rs
}

func checkC02(c *Ctx, p *Prog, r *Result) {
	get := func(n string) *ssa.Function {
		fn := p.ByName[n]
		if fn == nil {
			r.fail("anchor %s not found", n)
		}
		return fn
	}
	rs := c02Rules(p)
	root := get("fdo.TO2Server.Respond")
	if root == nil {
		return
	}
	f := NewFlow(p, rs, []*ssa.Function{root}, nil)
	r.useFlow(f)
	dumpFlow(f)

	// (1) prove-device gate
	r.rule("C02.kex-completed-after-proof", "Session.SetParameter (key exchange completion) is called only after device-proved = {GUID read, voucher fetched for it, DevicePublicKey ok, Sign1.Verify true&&err==nil, nonce read, nonce claim equal, UEID claim equal}, with the decoded token's parameter")
	r.floor("C02.kex-completed-after-proof", 1)
	setp := f.CallSites(func(cal Callee, _ ssa.CallInstruction) bool { return cal.Name == "fdo/kex.Session.SetParameter" })
	r.requireAtSites(f, "C02.kex-completed-after-proof", setp, []Atom{"device-proved", "xsession-read"})
	gate := map[*ssa.Function]bool{}
	for _, call := range setp {
		gate[call.Parent()] = true
		m := f.matcherFor(call.Parent())
		r.table(p, "C02.kex-completed-after-proof", "argument of "+siteKey(p, call), p.instrPos(call), decoded(m, allArgs(call)[1]), "xB comes from the decoded token")
	}
	r.rule("C02.session-stored-after-proof", "in the responder that completes the key exchange, SetXSession and every success return require device-proved and SetParameter err==nil")
	r.floor("C02.session-stored-after-proof", 2)
	for fn := range gate {
		sx := f.CallSites(func(cal Callee, call ssa.CallInstruction) bool {
			return cal.Name == "fdo.TO2SessionState.SetXSession" && call.Parent() == fn
		})
		r.requireAtSites(f, "C02.session-stored-after-proof", sx, []Atom{"device-proved", "setparam-ok"})
		r.requireAtReturns(f, "C02.session-stored-after-proof", fn, fn.Signature.Results().Len()-1, []Atom{"device-proved", "setparam-ok"})
	}

	// (4) type-60 responder
	r.rule("C02.prove-ovhdr-gate", "the responder that issues the ProveDevice nonce signs and returns ProveOVHdr only after owner-key-eq, suite-valid and kex-available; Suite.New is reached only after suite-valid and kex-available")
	r.floor("C02.prove-ovhdr-gate", 3)
	for _, call := range f.CallSites(func(cal Callee, _ ssa.CallInstruction) bool {
		return cal.Name == "fdo.TO2SessionState.SetProveDeviceNonce"
	}) {
		fn := call.Parent()
		r.requireAtReturns(f, "C02.prove-ovhdr-gate", fn, fn.Signature.Results().Len()-1, []Atom{"owner-key-eq", "suite-valid", "kex-available"})
		signs := f.CallSites(func(cal Callee, c2 ssa.CallInstruction) bool {
			return cal.Name == "fdo/cose.Sign1.Sign" && c2.Parent() == fn
		})
		r.requireAtSites(f, "C02.prove-ovhdr-gate", signs, []Atom{"owner-key-eq", "suite-valid", "kex-available"})
		news := f.CallSites(func(cal Callee, c2 ssa.CallInstruction) bool {
			return cal.Name == "fdo/kex.Suite.New" && c2.Parent() == fn
		})
		r.requireAtSites(f, "C02.prove-ovhdr-gate", news, []Atom{"suite-valid", "kex-available"})
	}

	// (5) who may call the effects
	c02WhoMayCall(p, r, f, "C02")

	// (2) tunnel-in at the handler
	if h := get("fdo/http.Handler.ServeHTTP"); h != nil {
		fh := NewFlow(p, c05Rules(p, r), []*ssa.Function{h}, nil)
		r.useFlow(fh)
		r.rule("C02.tunnel-in", "http.Handler invokes Responder.Respond only where msgType<=64, msgType>=255 or Session.Decrypt err==nil (later TO2 messages must decrypt under the session keys)")
		r.floor("C02.tunnel-in", 1)
		r.requireAtSites(fh, "C02.tunnel-in", fh.CallSites(func(cal Callee, _ ssa.CallInstruction) bool { return cal.Name == "fdo/protocol.Responder.Respond" }), []Atom{"tunnel-in"})
	}

	// (3) keys exist only after derivation
	c02KeyWriters(p, r)
	for _, n := range []string{"fdo/cose.EncryptAlgorithm.NewCrypter", "fdo/cose.MacAlgorithm.NewMac"} {
		if fn := get(n); fn != nil {
			fk := NewFlow(p, rs, []*ssa.Function{fn}, nil)
			r.rule("C02.keylen", "NewCrypter / NewMac return success only after len(key) == KeySize(): an empty, underived session key cannot be used")
			r.floor("C02.keylen", 2)
			r.requireAtReturns(fk, "C02.keylen", fn, 1, []Atom{"keylen-eq"})
		}
	}
}

// c02WhoMayCall: the owner-side effects are reachable only through the
// responder arm of the message that causes them.
func c02WhoMayCall(p *Prog, r *Result, f *Flow, prefix string) {
	rule := prefix + ".effect-arms"
	r.rule(rule, "in the region of (*TO2Server).Respond: ReplaceVoucher only under msg=70; OwnerModule.HandleInfo/ProduceInfo and ModuleStateMachine.Module/NextModule only under msg=68")
	r.floor(rule, 5)
	want := map[string]string{
		"fdo.OwnerVoucherPersistentState.ReplaceVoucher": "msg=70",
		"fdo/serviceinfo.OwnerModule.HandleInfo":         "msg=68",
		"fdo/serviceinfo.OwnerModule.ProduceInfo":        "msg=68",
		"fdo/serviceinfo.ModuleStateMachine.Module":      "msg=68",
		"fdo/serviceinfo.ModuleStateMachine.NextModule":  "msg=68",
		"fdo/serviceinfo.ModulePersister.PersistModule":  "msg=68",
		"fdo.TO2SessionState.SetReplacementHmac":         "msg=66",
		"fdo.TO2SessionState.SetDevmod":                  "msg=68",
	}
	var names []string
	for n := range want {
		names = append(names, n)
	}
	sort.Strings(names)
	for _, n := range names {
		sites := f.CallSites(func(cal Callee, call ssa.CallInstruction) bool {
			return cal.Name == n && strings.HasPrefix(p.FuncName(call.Parent()), "fdo.")
		})
		r.requireAtSites(f, rule, sites, []Atom{want[n]})
	}
}

// c02KeyWriters enumerates every store to SessionCrypter.SEK / SVK.
func c02KeyWriters(p *Prog, r *Result) {
	rule := "C02.key-writers"
	r.rule(rule, "every store to SessionCrypter.SEK/SVK is (a) an empty literal in a constructor registered with RegisterKeyExchangeSuite or into a freshly allocated session, (b) a value derived from nistkdf.KDF inside a Parameter/SetParameter method, or (c) a decoded value inside UnmarshalCBOR")
	r.floor(rule, 12)
	// constructors registered
	ctors := map[*ssa.Function]bool{}
	for _, fn := range p.Funcs {
		for _, b := range fn.Blocks {
			for _, in := range b.Instrs {
				call, ok := in.(ssa.CallInstruction)
				if !ok || p.calleeOf(call.Common()).Name != "fdo/kex.RegisterKeyExchangeSuite" {
					continue
				}
				for _, a := range call.Common().Args {
					switch x := a.(type) {
					case *ssa.MakeClosure:
						ctors[p.body(x.Fn.(*ssa.Function))] = true
					case *ssa.Function:
						ctors[p.body(x)] = true
					}
				}
			}
		}
	}
	for _, fn := range p.Funcs {
		if fn.Pkg != nil && isHarnessPkg(fn.Pkg.Pkg.Path()) {
			continue
		}
		m := p.matcher(fn)
		k := 0
		for _, b := range fn.Blocks {
			for _, in := range b.Instrs {
				st, ok := in.(*ssa.Store)
				if !ok {
					continue
				}
				fa, ok := st.Addr.(*ssa.FieldAddr)
				if !ok {
					continue
				}
				fld := fieldName(fa.X.Type(), fa.Field)
				if fld != "fdo/kex.SessionCrypter.SEK" && fld != "fdo/kex.SessionCrypter.SVK" {
					continue
				}
				k++
				pv := m.Prov(st.Val)
				var class string
				ok2 := false
				switch {
				case ctors[fn]:
					class = "registered constructor"
					ok2 = isEmptySlice(st.Val)
				case fn.Name() == "Parameter" || fn.Name() == "SetParameter":
					class = "key-exchange step"
					ok2 = pv.Has("via:fdo/internal/nistkdf.KDF") || pv.Has("call:fdo/internal/nistkdf.KDF")
				case fn.Name() == "UnmarshalCBOR":
					class = "restore from persisted state"
					ok2 = pv.Has("decoded:")
				default:
					class = "unlisted writer"
					// construction of a new session with empty keys (a helper
					// of the registered constructors)
					if _, fresh := rootOf(fa).(*ssa.Alloc); fresh && isEmptySlice(st.Val) {
						class, ok2 = "empty keys in a freshly constructed session", true
					}
				}
				r.table(p, rule, fmt.Sprintf("%s store #%d to %s", p.FuncName(fn), k, fld), p.instrPos(in), ok2, class+"; value provenance: "+joinMax(pv.List(), 6))
			}
		}
	}
}

func isEmptySlice(v ssa.Value) bool {
	switch x := v.(type) {
	case *ssa.Const:
		return x.IsNil()
	case *ssa.Slice:
		if a, ok := x.X.(*ssa.Alloc); ok {
			return strings.HasPrefix(a.Type().String(), "*[0]")
		}
	case *ssa.MakeSlice:
		return isConstInt(x.Len, 0)
	}
	return false
}
