package main

// Shared rule table for the ownership-voucher verifiers (used by C01, C04,
// C06): what each exported Verify* method must have checked before it reports
// success. Anchors are the exported methods of fdo.Voucher, stdlib comparison
// functions and exported struct fields; unexported helpers (hmacVerify,
// validateNextEntry, verifyCertChain, newSignedEntry) are reached through the
// call graph and never named.

import (
	"fmt"
	"go/types"
	"strings"

	"golang.org/x/tools/go/ssa"
)

// paramOf: v derives from a parameter of the enclosing function whose type's
// short name contains typ.
func paramOf(typ string) func(m *Matcher, v ssa.Value) bool {
	return func(m *Matcher, v ssa.Value) bool {
		s := m.Prov(v)
		for i, p := range m.Fn.Params {
			if s.Has("param:"+itoa(i)) && strings.Contains(shortTypeString(p.Type()), typ) {
				return true
			}
		}
		return false
	}
}

func shortTypeString(t types.Type) string {
	return types.TypeString(types.Unalias(t), func(p *types.Package) string { return pkgShort(p.Path()) })
}

var sumResult = hasProv("call:hash.Hash.Sum")

// keyObject: the operand is a key object (pointer or interface), not a number
// derived from one.
func keyObject(m *Matcher, v ssa.Value) bool {
	switch types.Unalias(v.Type()).Underlying().(type) {
	case *types.Pointer, *types.Interface:
		return true
	}
	return false
}

func voucherAtoms() ([]AtomDef, []Derivation) {
	entryVerifyArgs := func(m *Matcher, _ ssa.CallInstruction, args []ssa.Value) bool {
		// receiver: an entry of the entries parameter; key: the previous-owner key parameter
		return len(args) >= 2 && paramOf("VoucherEntryPayload")(m, args[0]) && paramOf("crypto.PublicKey")(m, args[1])
	}
	atoms := []AtomDef{
		// --- entry chain (inside the recursive helper) ---
		boolTrue("entry-sig-true", "Sign1.Verify of the current entry under the previous owner key returned true", named("fdo/cose.Sign1.Verify"), 0, entryVerifyArgs),
		errNil("entry-sig-noerr", "that Verify returned no error", named("fdo/cose.Sign1.Verify"), entryVerifyArgs),
		equal("entry-hdrhash-alg-eq", "the entry's header-hash algorithm equals the chain's algorithm",
			hasProv("field:fdo.VoucherEntryPayload.HeaderHash", "field:fdo/protocol.Hash.Algorithm"), paramOf("protocol.HashAlg")),
		equal("entry-hdrhash-eq", "the entry's header-info hash equals hash[GUID||DeviceInfo]",
			hasProv("field:fdo.VoucherEntryPayload.HeaderHash", "field:fdo/protocol.Hash.Value"), provAnd(paramOf("[]byte"), lacksProv("field:fdo.VoucherEntryPayload.HeaderHash"))),
		equal("entry-prevhash-eq", "the entry's previous-hash equals the running hash of the previous entry/header",
			hasProv("field:fdo.VoucherEntryPayload.PreviousHash", "field:fdo/protocol.Hash.Value"), provAnd(sumResult, paramOf("hash.Hash"))),
		// --- VerifyEntries itself ---
		AtomDef{Name: "no-entries", Doc: "the voucher has no entries (chain end is the header key)", Edge: func(m *Matcher, p Pred, holds bool) bool {
			if p.Kind != "eq" || !holds || !isConstInt(p.Y, 0) {
				return false
			}
			x := lenOf(m, p.X)
			return x != nil && m.Prov(x).Has("field:fdo.Voucher.Entries")
		}},
		executed("hdr-in-prevhash", "the header was encoded into the initial previous-hash", named("fdo/cbor.Encoder.Encode"),
			func(m *Matcher, _ ssa.CallInstruction, args []ssa.Value) bool {
				return m.Prov(args[1]).Has("field:fdo.Voucher.Header") && m.Prov(args[0]).HasPrefixX("call:crypto/sha")
			}),
		executed("hmac-in-prevhash", "the header HMAC was encoded into the initial previous-hash", named("fdo/cbor.Encoder.Encode"),
			func(m *Matcher, _ ssa.CallInstruction, args []ssa.Value) bool {
				return m.Prov(args[1]).Has("field:fdo.Voucher.Hmac") && m.Prov(args[0]).HasPrefixX("call:crypto/sha")
			}),
		// --- header HMAC ---
		equal("hmac-eq", "hmac.Equal(given HMAC value, recomputed MAC) is true",
			provAnd(hasProv("field:fdo/protocol.Hash.Value"), paramOf("protocol.Hash"), lacksProv("call:hash.Hash.Sum")), sumResult),
		executed("hmac-input-encoded", "the value to authenticate was encoded into the selected HMAC", named("fdo/cbor.Encoder.Encode"),
			func(m *Matcher, _ ssa.CallInstruction, args []ssa.Value) bool {
				return paramOf("hash.Hash")(m, args[0]) && paramOf("any")(m, args[1])
			}),
		// --- manufacturer key hash ---
		equal("mfgkey-eq", "hmac.Equal(hash of header manufacturer key, credential's key hash) is true",
			provAnd(sumResult, lacksProv("param:1")), provAnd(hasProv("param:1", "field:fdo/protocol.Hash.Value"), lacksProv("call:hash.Hash.Sum"))),
		executed("mfgkey-encoded", "the header's manufacturer key was encoded into the digest", named("fdo/cbor.Encoder.Encode"),
			func(m *Matcher, _ ssa.CallInstruction, args []ssa.Value) bool {
				return m.Fn.Name() == "VerifyManufacturerKey" && m.Prov(args[1]).Has("field:fdo.VoucherHeader.ManufacturerKey")
			}),
		// --- cert chain hash ---
		isNil("certchain-nil", "the voucher has no device certificate chain", fieldLoad("fdo.Voucher.CertChain")),
		isNil("cchash-nil", "the header has no certificate-chain hash", fieldLoad("fdo.VoucherHeader.CertChainHash")),
		equal("cch-eq", "hmac.Equal(hash over the chain's certificates, header's cert-chain hash) is true",
			sumResult, provAnd(hasProv("field:fdo.VoucherHeader.CertChainHash", "field:fdo/protocol.Hash.Value"), lacksProv("call:hash.Hash.Sum"))),
		// --- x509 ---
		errNil("x509-verify-ok", "(*x509.Certificate).Verify returned nil", named("crypto/x509.Certificate.Verify"), nil),
		// --- extension ---
		equal("ext-owner-key-eq", "the signer's public key equals the voucher's current owner key (a comparison of key objects, not of their sizes or curves)",
			provAnd(hasProvX("call:crypto.Signer.Public"), keyObject), provAnd(hasProvX("call:fdo.Voucher.OwnerPublicKey"), keyObject, lacksProv("call:crypto.Signer.Public"))),
		AtomDef{Name: "ext-mfg-type-ok", Doc: "the manufacturer key has the signer's key type", Edge: func(m *Matcher, p Pred, holds bool) bool {
			if p.Kind != "bool" || !holds {
				return false
			}
			ex, ok := p.X.(*ssa.Extract)
			if !ok || ex.Index != 1 {
				return false
			}
			ta, ok := ex.Tuple.(*ssa.TypeAssert)
			if !ok || !ta.CommaOk {
				return false
			}
			t := shortTypeString(ta.AssertedType)
			return (t == "*crypto/ecdsa.PublicKey" || t == "*crypto/rsa.PublicKey") && m.Prov(ta.X).Has("call:fdo/protocol.PublicKey.Public") && m.Prov(ta.X).HasX("field:fdo.VoucherHeader.ManufacturerKey")
		}},
		equal("ext-size-eq", "curve / modulus size of manufacturer key and signer key are equal",
			provAnd(hasProvX("field:fdo.VoucherHeader.ManufacturerKey"), lacksProv("call:crypto.Signer.Public")),
			provAnd(hasProvX("call:crypto.Signer.Public"), lacksProv("field:fdo.VoucherHeader.ManufacturerKey"))),
		boolTrue("ext-next-type-ok", "the next-owner key has the manufacturer key's type and size/curve", func(n string) bool { return strings.HasPrefix(n, "fdo.") }, 0,
			func(m *Matcher, _ ssa.CallInstruction, args []ssa.Value) bool {
				if len(args) != 2 {
					return false
				}
				a, b := m.Prov(args[0]), m.Prov(args[1])
				mfg := func(s ProvSet) bool {
					return s.Has("field:fdo.VoucherHeader.ManufacturerKey") && s.Has("call:fdo/protocol.PublicKey.Public")
				}
				next := func(s ProvSet) bool {
					return s.Has("call:fdo/protocol.NewPublicKey") && s.Has("call:fdo/protocol.PublicKey.Public")
				}
				return (mfg(a) && next(b)) || (mfg(b) && next(a))
			}),
		errNil("ext-signed", "the new entry was signed with the signer argument (Sign1.Sign err==nil)", named("fdo/cose.Sign1.Sign"),
			func(m *Matcher, _ ssa.CallInstruction, args []ssa.Value) bool {
				return len(args) >= 2 && paramOf("crypto.Signer")(m, args[1])
			}),
	}
	// "no entry is left": len(entries[1:]) == 0, len(entries) == 1, len(entries) < 2 ...
	entriesLen := func(m *Matcher, v ssa.Value) (tail bool, ok bool) {
		call, isCall := intRootNoVar(v).(*ssa.Call)
		if !isCall {
			return false, false
		}
		bi, isB := call.Call.Value.(*ssa.Builtin)
		if !isB || bi.Name() != "len" {
			return false, false
		}
		arg := call.Call.Args[0]
		if sl, isSl := arg.(*ssa.Slice); isSl {
			if sl.Low != nil && isConstInt(sl.Low, 1) && sl.High == nil && paramOf("VoucherEntryPayload")(m, sl.X) {
				return true, true
			}
			return false, false
		}
		if _, isParam := arg.(*ssa.Parameter); isParam && paramOf("VoucherEntryPayload")(m, arg) {
			return false, true
		}
		return false, false
	}
	atoms = append(atoms, AtomDef{Name: "tail-empty", Doc: "no entry is left after the current one (len(entries[1:]) == 0 or an equivalent comparison on the entries parameter alone)", Edge: func(m *Matcher, pd Pred, holds bool) bool {
		// upper bound established on len(...): want len(tail) <= 0 or len(all) <= 1
		type ub struct {
			v ssa.Value
			c int64
		}
		var got []ub
		cst := func(v ssa.Value) (int64, bool) { return constInt(intRootNoVar(v)) }
		switch pd.Kind {
		case "eq":
			if holds {
				if c, ok := cst(pd.Y); ok {
					got = append(got, ub{pd.X, c})
				}
				if c, ok := cst(pd.X); ok {
					got = append(got, ub{pd.Y, c})
				}
			}
		case "lt":
			if holds { // X < Y
				if c, ok := cst(pd.Y); ok {
					got = append(got, ub{pd.X, c - 1})
				}
			} else { // Y <= X
				if c, ok := cst(pd.X); ok {
					got = append(got, ub{pd.Y, c})
				}
			}
		case "le":
			if holds { // X <= Y
				if c, ok := cst(pd.Y); ok {
					got = append(got, ub{pd.X, c})
				}
			} else { // Y < X
				if c, ok := cst(pd.X); ok {
					got = append(got, ub{pd.Y, c - 1})
				}
			}
		}
		for _, g := range got {
			if tail, ok := entriesLen(m, g.v); ok && ((tail && g.c <= 0) || (!tail && g.c <= 1)) {
				return true
			}
		}
		return false
	}})
	der := []Derivation{
		{"entry-ok", []Atom{"entry-sig-true", "entry-sig-noerr", "entry-hdrhash-alg-eq", "entry-hdrhash-eq", "entry-prevhash-eq"}},
		{"chain-verified", []Atom{"no-entries"}},
		{"chain-verified", []Atom{"entry-ok", "hdr-in-prevhash", "hmac-in-prevhash"}},
		{"hdr-mac-ok", []Atom{"hmac-eq", "hmac-input-encoded"}},
		{"mfg-key-ok", []Atom{"mfgkey-eq", "mfgkey-encoded"}},
		{"cch-ok", []Atom{"certchain-nil", "cchash-nil"}},
		{"cch-ok", []Atom{"cch-eq"}},
		{"devchain-ok", []Atom{"certchain-nil"}},
		{"devchain-ok", []Atom{"x509-verify-ok"}},
		{"ext-ok", []Atom{"ext-owner-key-eq", "ext-mfg-type-ok", "ext-size-eq", "ext-next-type-ok", "ext-signed"}},
	}
	return atoms, der
}

// voucherVerifierObligations states what each exported verifier must have
// established at every success return. Only verifiers inside the flow's region
// are judged; want lists the ones that must be present.
func voucherVerifierObligations(f *Flow, r *Result, prefix string, want []string) {
	table := []struct{ fn, atom, doc string }{
		{"fdo.Voucher.VerifyEntries", "chain-verified", "VerifyEntries succeeds only if there are no entries or every entry passed signature (previous owner key), header-hash algorithm, header-info hash and previous-hash checks, starting from a hash over header||hmac"},
		{"fdo.Voucher.VerifyHeader", "hdr-mac-ok", "VerifyHeader succeeds only after hmac.Equal(stored HMAC, HMAC recomputed over the encoded header) is true"},
		{"fdo.Voucher.VerifyManufacturerKey", "mfg-key-ok", "VerifyManufacturerKey succeeds only after hmac.Equal(hash of the encoded header key, given hash) is true"},
		{"fdo.Voucher.VerifyCertChainHash", "cch-ok", "VerifyCertChainHash succeeds only if chain and hash are both absent or hmac.Equal(hash over chain, header hash) is true"},
		{"fdo.Voucher.VerifyDeviceCertChain", "devchain-ok", "VerifyDeviceCertChain succeeds only if there is no chain or (*x509.Certificate).Verify returned nil"},
		{"fdo.ExtendVoucher", "ext-ok", "ExtendVoucher succeeds only for a signer whose public key equals the current owner key, of the manufacturer key's type and size, and after signing the new entry with it"},
	}
	wanted := map[string]bool{}
	for _, w := range want {
		wanted[w] = true
	}
	for _, row := range table {
		fn := f.P.ByName[row.fn]
		if fn == nil || !f.Region[fn] {
			if wanted[row.fn] {
				r.fail("%s: anchor %s not found in the analysed region", prefix, row.fn)
			}
			continue
		}
		rule := prefix + "." + strings.TrimPrefix(strings.TrimPrefix(row.fn, "fdo.Voucher."), "fdo.")
		r.rule(rule, row.doc)
		r.floor(rule, 1)
		errIdx := fn.Signature.Results().Len() - 1
		r.requireAtReturns(f, rule, fn, errIdx, []Atom{row.atom})
	}

	// recursion shape: the helper that VerifyEntries hands the chain to must
	// recurse on the tail with the key of the entry it just verified
	if ve := f.P.ByName["fdo.Voucher.VerifyEntries"]; ve != nil && f.Region[ve] {
		rule := prefix + ".chain-recursion"
		r.rule(rule, "the entry validator is started with the header's manufacturer key and a hash over GUID||DeviceInfo, and recurses on entries[1:] with the public key of the entry just verified; it reports success without recursing only when no entry is left")
		r.floor(rule, 2)
		var helper *ssa.Function
		for _, e := range f.P.CallGraph().out[ve] {
			if e.Kind != "static" {
				continue
			}
			if s, ok := f.sumErr[e.Callee]; ok {
				for _, as := range s {
					if as.Has("entry-ok") && !as.top {
						helper = e.Callee
						call := e.Site.(ssa.CallInstruction)
						m := f.matcherFor(ve)
						args := allArgs(call)
						ok := len(args) >= 4 && m.Prov(args[0]).HasX("call:fdo/protocol.PublicKey.Public") && m.Prov(args[0]).HasX("field:fdo.VoucherHeader.ManufacturerKey")
						var hashOK bool
						for _, a := range args {
							pv := m.Prov(a)
							if (pv.HasX("call:crypto/sha256.Sum256") || pv.HasX("call:crypto/sha512.Sum384")) && pv.HasX("field:fdo.VoucherHeader.GUID") && pv.HasX("field:fdo.VoucherHeader.DeviceInfo") {
								hashOK = true
							}
						}
						r.table(f.P, rule, "initial call "+siteKey(f.P, call), f.P.instrPos(call), ok && hashOK, "first key from header ManufacturerKey.Public(); header-info hash over GUID||DeviceInfo")
					}
				}
			}
		}
		if helper == nil {
			r.fail("%s: no callee of VerifyEntries has an entry-ok success summary", rule)
		} else {
			n := 0
			for _, e := range f.P.CallGraph().out[helper] {
				if e.Callee != helper || e.Kind != "static" {
					continue
				}
				n++
				call := e.Site.(ssa.CallInstruction)
				m := f.matcherFor(helper)
				args := allArgs(call)
				keyOK := len(args) > 0 && m.Prov(args[0]).HasX("call:fdo/protocol.PublicKey.Public") && m.Prov(args[0]).HasX("field:fdo.VoucherEntryPayload.PublicKey")
				tailOK := false
				for _, a := range args {
					if sl, ok := a.(*ssa.Slice); ok && sl.Low != nil && isConstInt(sl.Low, 1) && sl.High == nil && paramOf("VoucherEntryPayload")(m, sl.X) {
						tailOK = true
					}
				}
				st := f.StateAt(call)
				r.table(f.P, rule, "recursive call "+siteKey(f.P, call), f.P.instrPos(call), keyOK && tailOK && st.Has("entry-ok"),
					"next key = public key of the verified entry; tail = entries[1:]; current entry fully checked before recursing")
			}
			if n == 0 {
				r.fail("%s: entry validator %s does not recurse (loop form not understood by this rule)", rule, f.P.FuncName(helper))
			}
			// base case: the validator reports success without recursing only
			// when no entry is left, so that every entry of the chain is checked
			errIdx := helper.Signature.Results().Len() - 1
			for i, sr := range f.successReturns(helper, errIdx) {
				if c, isC := returnValue(sr.Ret, errIdx).(*ssa.Const); !isC || !c.IsNil() {
					continue // the tail call
				}
				r.table(f.P, rule, fmt.Sprintf("base case return #%d of %s", i, f.P.FuncName(helper)), f.P.instrPos(sr.Ret), f.StateAt(sr.Ret).Has("tail-empty"),
					"success without recursing requires that no entry is left (a comparison of len(entries[1:]) / len(entries) with a constant, on the entries parameter alone)")
			}
		}
	}
}
