package main

// Narrow structural clauses for C11, C14, C15, C16 — properties whose core is
// value-/execution-level and outside static reach; each clause below is a
// genuine necessary condition of the behaviour, and the explanation of every
// check says plainly that only these clauses are decided.

import (
	"fmt"
	"go/token"
	"go/types"
	"sort"
	"strings"

	"golang.org/x/tools/go/ssa"
)

// ---- shared: CBOR head-size boundary lint ---------------------------------------------

var canonicalBoundaries = map[string]bool{
	"<24": true, "<=23": true, "<256": true, "<=255": true, "<65536": true, "<=65535": true, "<4294967296": true, "<=4294967295": true,
}
var boundaryConsts = map[int64]bool{23: true, 24: true, 255: true, 256: true, 65535: true, 65536: true, 4294967295: true, 4294967296: true}

// boundaryLint checks every comparison of a length-like value (wider than one
// byte) with a constant at a CBOR head-size boundary inside fn: it must be one of
// x<24, x<=23, x<256, x<=255, x<65536, x<=65535, x<2^32, x<=2^32-1 (or the
// negation of one of them).
func boundaryLint(p *Prog, r *Result, rule string, fn *ssa.Function) int {
	n := 0
	for _, b := range fn.Blocks {
		for _, in := range b.Instrs {
			bo, ok := in.(*ssa.BinOp)
			if !ok {
				continue
			}
			var x ssa.Value
			var c int64
			op := ""
			cy, yConst := constInt(bo.Y)
			cx, xConst := constInt(bo.X)
			switch {
			case yConst && !xConst:
				x, c = bo.X, cy
				switch bo.Op {
				case token.LSS:
					op = "<"
				case token.LEQ:
					op = "<="
				case token.GTR:
					op = "<=" // x > c  ==  !(x <= c)
				case token.GEQ:
					op = "<" // x >= c ==  !(x < c)
				}
			case xConst && !yConst:
				x, c = bo.Y, cx
				switch bo.Op {
				case token.GTR: // c > x == x < c
					op = "<"
				case token.GEQ:
					op = "<="
				case token.LSS: // c < x == !(x <= c)
					op = "<="
				case token.LEQ:
					op = "<"
				}
			}
			if op == "" || !boundaryConsts[c] {
				continue
			}
			switch x.Type().Underlying().String() {
			case "uint8", "byte", "int8", "bool":
				continue // a byte value, not a length
			}
			n++
			key := fmt.Sprintf("%s%d", op, c)
			r.table(p, rule, fmt.Sprintf("comparison #%d in %s", n, p.FuncName(fn)), p.instrPos(in), canonicalBoundaries[key], "normalised form x"+key)
		}
	}
	return n
}

// ---- C11 -----------------------------------------------------------------------------------

func init() {
	checks["C11"] = checkC11
	explanations["C11"] = "NARROW: only codec-symmetry clauses that are necessary for the round trip are decided; decode(encode(v))==v, shortest-form arithmetic, the int64 minimum and timestamp fidelity are value-level and NOT decided. Decided: (a) each COSE tag type writes and checks the same non-zero tag constant; (b) the struct encoder and the struct decoder obtain field order from one shared function; (c) every head byte is produced by the single head encoder fed by the single head-size helper; (d) the map emitter writes entries only after sort.Slice with the configured or bytewise less function; (e) no call of cbor.Marshal / Encoder.Encode has an argument whose static type the encoder rejects (func, chan, float, complex); (f) comparisons with CBOR head-size boundaries in size computations have a canonical form (x<24, x<256, x<65536, x<2^32 or their <= twins)."
}

func checkC11(c *Ctx, p *Prog, r *Result) {
	// (a) tag symmetry
	r.rule("C11.tag-symmetry", "each *Tag type's MarshalCBOR writes, and its UnmarshalCBOR compares against, the same non-zero tag number")
	r.floor("C11.tag-symmetry", 3)
	byRecv := map[string]map[string]*ssa.Function{}
	for _, fn := range p.Funcs {
		if fn.Signature.Recv() == nil || funcPkgPath(fn) != modulePath+"/cose" {
			continue
		}
		if fn.Name() == "MarshalCBOR" || fn.Name() == "UnmarshalCBOR" {
			t := typeShort(fn.Signature.Recv().Type())
			if byRecv[t] == nil {
				byRecv[t] = map[string]*ssa.Function{}
			}
			byRecv[t][fn.Name()] = fn
		}
	}
	var recvs []string
	for t := range byRecv {
		recvs = append(recvs, t)
	}
	sort.Strings(recvs)
	for _, t := range recvs {
		mf, uf := byRecv[t]["MarshalCBOR"], byRecv[t]["UnmarshalCBOR"]
		if mf == nil || uf == nil || !strings.HasSuffix(t, "Tag") {
			continue
		}
		r.Functions[p.FuncName(mf)], r.Functions[p.FuncName(uf)] = true, true
		var wrote, checked int64 = -1, -2
		for _, b := range mf.Blocks {
			for _, in := range b.Instrs {
				if al, ok := in.(*ssa.Alloc); ok && typeShort(al.Type()) == "fdo/cbor.Tag" {
					if v, ok := litFields(al)["Num"]; ok {
						if cv, ok := constInt(v); ok {
							wrote = cv
						}
					}
				}
			}
		}
		for _, b := range uf.Blocks {
			for _, in := range b.Instrs {
				if bo, ok := in.(*ssa.BinOp); ok && (bo.Op == token.NEQ || bo.Op == token.EQL) {
					if cv, ok := constInt(bo.Y); ok && fieldOfLoad(bo.X) == "fdo/cbor.Tag.Num" {
						checked = cv
					}
				}
			}
		}
		r.table(p, "C11.tag-symmetry", t, p.Pos(mf.Pos()), wrote == checked && wrote > 0, fmt.Sprintf("written tag %d, checked tag %d", wrote, checked))
	}

	// (b) shared field order
	r.rule("C11.field-order-shared", "the struct encoder and the struct decoder call one common function that computes the field order from the struct type")
	r.floor("C11.field-order-shared", 1)
	enc, dec := p.ByName["fdo/cbor.Encoder.Encode"], p.ByName["fdo/cbor.Decoder.Decode"]
	if enc == nil || dec == nil {
		r.fail("anchors Encoder.Encode / Decoder.Decode not found")
		return
	}
	orderFns := func(root *ssa.Function) map[*ssa.Function]bool {
		out := map[*ssa.Function]bool{}
		for fn := range p.Reachable([]*ssa.Function{root}, func(g *ssa.Function) bool { return funcPkgPath(g) != modulePath+"/cbor" }) {
			ps := fn.Signature.Params()
			if ps.Len() == 2 && strings.Contains(ps.At(1).Type().String(), "reflect.StructField") && fn.Signature.Results().Len() == 2 {
				out[fn] = true
			}
		}
		return out
	}
	eo, do := orderFns(enc), orderFns(dec)
	common := 0
	for fn := range eo {
		if do[fn] {
			common++
		}
	}
	r.table(p, "C11.field-order-shared", "Encoder vs Decoder", p.Pos(enc.Pos()), common == 1 && len(eo) == 1 && len(do) == 1, fmt.Sprintf("encoder uses %d, decoder uses %d, common %d", len(eo), len(do), common))

	// (c) single head encoder
	r.rule("C11.single-head-encoder", "every call of the head encoder (major type, info bytes) passes the result of the single head-size helper (or a decremented copy made by it)")
	r.floor("C11.single-head-encoder", 5)
	var headFn *ssa.Function
	for _, fn := range p.Funcs {
		if funcPkgPath(fn) == modulePath+"/cbor" && fn.Signature.Recv() == nil && fn.Signature.Params().Len() == 2 &&
			fn.Signature.Params().At(0).Type().String() == "byte" && fn.Signature.Params().At(1).Type().String() == "[]byte" && fn.Signature.Results().Len() == 1 {
			headFn = fn
		}
	}
	if headFn == nil {
		r.fail("C11: head encoder func(byte, []byte) []byte not found in package cbor")
	} else {
		helpers := map[string]bool{}
		for _, e := range p.CallGraph().in[headFn] {
			call, ok := e.Site.(ssa.CallInstruction)
			if !ok || e.Kind != "static" {
				continue
			}
			m := p.matcher(e.Caller)
			n, _, src := m.ResultOf(call.Common().Args[1])
			ok2 := src != nil && strings.HasPrefix(n, "fdo/cbor.")
			helpers[n] = true
			r.table(p, "C11.single-head-encoder", siteKey(p, call), p.instrPos(call), ok2, "info bytes come from "+n)
		}
		if len(helpers) != 1 {
			r.table(p, "C11.single-head-encoder", "helpers", p.Pos(headFn.Pos()), false, fmt.Sprintf("expected one head-size helper, found %v", sortedKeys(helpers)))
		}
	}

	// (d) map sorted before emission
	r.rule("C11.map-sorted", "in the map encoder every entry is written after sort.Slice was called with the configured or the bytewise less function")
	r.floor("C11.map-sorted", 2)
	for _, fn := range p.Funcs {
		if funcPkgPath(fn) != modulePath+"/cbor" || fn.Signature.Recv() == nil || typeShort(fn.Signature.Recv().Type()) != "fdo/cbor.Encoder" {
			continue
		}
		var sortCall ssa.CallInstruction
		for _, b := range fn.Blocks {
			for _, in := range b.Instrs {
				if call, ok := in.(ssa.CallInstruction); ok && p.calleeOf(call.Common()).Name == "sort.Slice" {
					sortCall = call
				}
			}
		}
		if sortCall == nil {
			continue
		}
		m := p.matcher(fn)
		less := m.Prov(sortCall.Common().Args[1])
		r.table(p, "C11.map-sorted", "less function of "+siteKey(p, sortCall), p.instrPos(sortCall), less.Has("field:fdo/cbor.EncoderOptions.MapKeySort") && less.Has("func:fdo/cbor.BytewiseLexicalSort"), "less = MapKeySort or BytewiseLexicalSort")
		k := 0
		for _, b := range fn.Blocks {
			for _, in := range b.Instrs {
				call, ok := in.(ssa.CallInstruction)
				if !ok || p.calleeOf(call.Common()).Name != "fdo/cbor.Encoder.Encode" || call.Parent() != fn {
					continue
				}
				// entry emission: encoded through the receiver encoder itself
				if pr, isP := allArgs(call)[0].(*ssa.Parameter); !isP || pr != fn.Params[0] {
					continue
				}
				k++
				r.table(p, "C11.map-sorted", fmt.Sprintf("entry write #%d in %s", k, p.FuncName(fn)), p.instrPos(call), instrBefore(sortCall, call), "executed after sort.Slice")
			}
		}
	}

	// (e) encodable static types
	r.rule("C11.encodable-args", "no call of cbor.Marshal / (*Encoder).Encode passes a value whose static type the encoder cannot encode (func, chan, float, complex, unsafe pointer)")
	r.floor("C11.encodable-args", 60)
	for _, name := range []string{"fdo/cbor.Marshal", "fdo/cbor.Encoder.Encode"} {
		for _, call := range p.callsTo(name) {
			args := allArgs(call)
			v := args[len(args)-1]
			mi, ok := v.(*ssa.MakeInterface)
			if !ok {
				r.table(p, "C11.encodable-args", siteKey(p, call), p.instrPos(call), true, "argument is already an interface value (dynamic type not decided)")
				continue
			}
			bad := unencodable(mi.X.Type(), 0)
			r.table(p, "C11.encodable-args", siteKey(p, call), p.instrPos(call), bad == "", "static type "+shortTypeString(mi.X.Type())+" "+bad)
		}
	}

	// (f) boundary lint in the codec
	r.rule("C11.head-boundaries", "comparisons of lengths with CBOR head-size boundary constants inside package cbor have a canonical form")
	n := 0
	for _, fn := range p.Funcs {
		if funcPkgPath(fn) == modulePath+"/cbor" {
			n += boundaryLint(p, r, "C11.head-boundaries", fn)
		}
	}
	r.note("C11.head-boundaries: %d boundary comparisons in package cbor (the head-size helper strips leading zero bytes instead of comparing, so zero is expected today; the rule arms itself when thresholds are introduced)", n)
}

func unencodable(t types.Type, depth int) string {
	if depth > 6 {
		return ""
	}
	switch x := types.Unalias(t).Underlying().(type) {
	case *types.Signature:
		return "(function value)"
	case *types.Chan:
		return "(channel)"
	case *types.Basic:
		if x.Info()&(types.IsFloat|types.IsComplex) != 0 {
			return "(float/complex)"
		}
		if x.Kind() == types.UnsafePointer {
			return "(unsafe pointer)"
		}
	case *types.Pointer:
		return unencodable(x.Elem(), depth+1)
	case *types.Slice:
		return unencodable(x.Elem(), depth+1)
	case *types.Array:
		return unencodable(x.Elem(), depth+1)
	}
	return ""
}

// ---- C14 -----------------------------------------------------------------------------------

func init() {
	checks["C14"] = checkC14
	explanations["C14"] = "NARROW: equality of the two parties' keys, conformance to SP 800-108 and independence of sessions are numerical and NOT decided. Decided: (a) the three suites derive keys with the same shape: sizes from EncryptAlg.KeySize() and, only if MacAlg!=0, MacAlg.KeySize(); nistkdf.KDF(PRFHash, secret, context, (sek+svk)*8); SEK=out[:sek], SVK=out[sek:]; (b) persistence completeness: each session type's UnmarshalCBOR assigns every field of the session and of the embedded SessionCrypter from the decoded persisted value, and MarshalCBOR reads every field except the re-derived Cipher; (c) the KDF resets its PRF before every block (a MAC is never continued across blocks); (d) degenerate Diffie-Hellman parameters are rejected: the DH derivation returns a key only after both range comparisons of the peer value and both comparisons of the shared secret passed; the ECDH path requires NewPublicKey and ECDH err==nil, OAEP requires DecryptOAEP err==nil; (e) fresh secrets derive from the rand argument; (f) every registered encrypt-then-MAC cipher suite derives keys with the PRF hash of its MAC algorithm (hash read from the MAC registration). (g) the secret argument of every KDF call never contains the result of big.Int.Bytes() (variable width); a modular-exponentiation secret is passed in the buffer filled by FillBytes."
}

// c14PrfMatchesMac: for encrypt-then-MAC suites the KDF's PRF hash is the hash
// of the suite's HMAC (FDO 1.1 section 3.6.4 pairs them); the hash of each MAC
// algorithm is read from its registration (the crypto.Hash constant handed to
// the constructor helper), not from a table in the checker.
func c14PrfMatchesMac(p *Prog, r *Result) {
	rule := "C14.prf-matches-mac"
	r.rule(rule, "every registered cipher suite that names a MAC algorithm derives its keys with the PRF hash of that MAC (hash read from the MAC's registration): HMAC-SHA256 suites use SHA-256, HMAC-SHA384 suites use SHA-384")
	r.floor(rule, 4)
	macHash := map[string]string{}
	for _, call := range p.callsTo("fdo/cose.RegisterMacAlgorithm") {
		a := call.Common().Args
		alg, ok := constValue(a[0])
		if !ok || len(a) < 3 {
			continue
		}
		ctor := a[2]
		if mi, ok := ctor.(*ssa.MakeInterface); ok {
			ctor = mi.X
		}
		if cc, ok := ctor.(*ssa.Call); ok {
			for _, ca := range cc.Common().Args {
				if k, ok := ca.(*ssa.Const); ok && typeShort(ca.Type()) == "crypto.Hash" {
					macHash[alg.ExactString()] = k.Value.ExactString()
				}
			}
		}
	}
	for _, call := range p.callsTo("fdo/kex.RegisterCipherSuite") {
		a := call.Common().Args
		id, ok := constValue(a[0])
		if !ok {
			continue
		}
		fl := structLiteralFields(a[1])
		get := func(n string) string {
			if v, ok := fl[n]; ok {
				if cv, ok := constValue(v); ok {
					return cv.ExactString()
				}
				return "?"
			}
			return "0"
		}
		mac, prf := get("MacAlg"), get("PRFHash")
		if mac == "0" {
			continue
		}
		want, known := macHash[mac]
		r.table(p, rule, "cipher suite "+id.ExactString(), p.instrPos(call), known && want == prf,
			fmt.Sprintf("MacAlg=%s uses hash %s (known=%v), PRFHash=%s", mac, want, known, prf))
	}
}

func checkC14(c *Ctx, p *Prog, r *Result) {
	kexPkg := modulePath + "/kex"
	c14PrfMatchesMac(p, r)
	c14KdfKeyFixedWidth(p, r, kexPkg)
	// (a) sibling derivations
	r.rule("C14.derivation-shape", "every function of package kex that calls nistkdf.KDF has the same derivation shape (see explanation)")
	r.floor("C14.derivation-shape", 3)
	for _, call := range p.callsTo("fdo/internal/nistkdf.KDF") {
		fn := call.Parent()
		if funcPkgPath(fn) != kexPkg {
			continue
		}
		r.Functions[p.FuncName(fn)] = true
		m := p.matcher(fn)
		args := call.Common().Args
		var problems []string
		if !m.Prov(args[0]).Has("field:fdo/kex.CipherSuite.PRFHash") {
			problems = append(problems, "PRF hash is not CipherSuite.PRFHash")
		}
		bits, ok := args[3].(*ssa.BinOp)
		if !ok || bits.Op != token.MUL || !isConstInt(bits.Y, 8) {
			problems = append(problems, "length is not (..)*8")
		} else {
			pv := m.Prov(bits.X)
			if !pv.Has("call:fdo/cose.EncryptAlgorithm.KeySize") || !pv.Has("call:fdo/cose.MacAlgorithm.KeySize") {
				problems = append(problems, "length does not add EncryptAlg.KeySize() and MacAlg.KeySize()")
			}
		}
		// MacAlg.KeySize only under MacAlg != 0
		rs := &RuleSet{Atoms: []AtomDef{notEqualConst("mac-present", "MacAlg != 0", 0, hasProv("field:fdo/kex.CipherSuite.MacAlg"))}}
		f := NewFlow(p, rs, []*ssa.Function{fn}, func(g *ssa.Function) bool { return g != fn })
		for _, ks := range f.CallSites(func(cal Callee, c2 ssa.CallInstruction) bool {
			return cal.Name == "fdo/cose.MacAlgorithm.KeySize" && c2.Parent() == fn
		}) {
			if !f.StateAt(ks).Has("mac-present") {
				problems = append(problems, "MacAlg.KeySize() is not guarded by MacAlg != 0")
			}
		}
		// returns out[:sek], out[sek:]
		good := false
		for _, b := range fn.Blocks {
			ret, ok := b.Instrs[len(b.Instrs)-1].(*ssa.Return)
			if !ok || len(ret.Results) < 3 {
				continue
			}
			s0, ok0 := returnValue(ret, 0).(*ssa.Slice)
			s1, ok1 := returnValue(ret, 1).(*ssa.Slice)
			if ok0 && ok1 && s0.X == ssa.Value(call.(*ssa.Call)) && s1.X == s0.X && s0.Low == nil && s0.High != nil && s1.Low == s0.High && s1.High == nil &&
				m.Prov(s0.High).Has("call:fdo/cose.EncryptAlgorithm.KeySize") {
				good = true
			}
		}
		if !good {
			problems = append(problems, "does not return out[:sek], out[sek:]")
		}
		r.table(p, "C14.derivation-shape", p.FuncName(fn), p.instrPos(call), len(problems) == 0, strings.Join(problems, "; "))
	}

	// (b) persistence completeness
	r.rule("C14.persistence-complete", "UnmarshalCBOR of each key-exchange session assigns every field (incl. the embedded SessionCrypter's) from the decoded persisted value; MarshalCBOR reads every field except Cipher")
	r.floor("C14.persistence-complete", 6)
	for _, tn := range []string{"ECDHSession", "DHSession", "OAEPSession"} {
		um, mm := p.ByName["fdo/kex."+tn+".UnmarshalCBOR"], p.ByName["fdo/kex."+tn+".MarshalCBOR"]
		if um == nil || mm == nil {
			r.fail("anchor fdo/kex.%s.(Un)MarshalCBOR not found", tn)
			continue
		}
		r.Functions[p.FuncName(um)], r.Functions[p.FuncName(mm)] = true, true
		st := um.Signature.Recv().Type().(*types.Pointer).Elem().Underlying().(*types.Struct)
		want := map[string]bool{}
		for i := 0; i < st.NumFields(); i++ {
			f := st.Field(i)
			if f.Embedded() {
				es := f.Type().Underlying().(*types.Struct)
				for j := 0; j < es.NumFields(); j++ {
					want[f.Name()+"."+es.Field(j).Name()] = true
				}
			} else {
				want[f.Name()] = true
			}
		}
		// writes in UnmarshalCBOR
		m := p.matcher(um)
		written := map[string]bool{}
		notDecoded := []string{}
		recordStore := func(path string, v ssa.Value) {
			written[path] = true
			pv := m.Prov(v)
			if !pv.Has("decoded:") && !isZeroConst(v) {
				notDecoded = append(notDecoded, path)
			}
		}
		for _, b := range um.Blocks {
			for _, in := range b.Instrs {
				s, ok := in.(*ssa.Store)
				if !ok {
					continue
				}
				fa, ok := s.Addr.(*ssa.FieldAddr)
				if !ok {
					continue
				}
				name := fieldName(fa.X.Type(), fa.Field)
				short := name[strings.LastIndex(name, ".")+1:]
				if strings.HasPrefix(name, "fdo/kex."+tn+".") {
					recordStore(short, s.Val)
				} else if strings.HasPrefix(name, "fdo/kex.SessionCrypter.") {
					recordStore("SessionCrypter."+short, s.Val)
				}
			}
		}
		var missing []string
		for f := range want {
			if !written[f] {
				missing = append(missing, f)
			}
		}
		sort.Strings(missing)
		sort.Strings(notDecoded)
		r.table(p, "C14.persistence-complete", "restore "+tn, p.Pos(um.Pos()), len(missing) == 0 && len(notDecoded) == 0, fmt.Sprintf("fields not restored: %v; restored from something other than the decoded value: %v", missing, notDecoded))
		// reads in MarshalCBOR
		read := map[string]bool{}
		for _, b := range mm.Blocks {
			for _, in := range b.Instrs {
				if fa, ok := in.(*ssa.FieldAddr); ok {
					name := fieldName(fa.X.Type(), fa.Field)
					short := name[strings.LastIndex(name, ".")+1:]
					if strings.HasPrefix(name, "fdo/kex."+tn+".") {
						read[short] = true
					} else if strings.HasPrefix(name, "fdo/kex.SessionCrypter.") {
						read["SessionCrypter."+short] = true
					}
				}
			}
		}
		missing = nil
		for f := range want {
			if !read[f] && f != "SessionCrypter.Cipher" && f != "SessionCrypter" {
				missing = append(missing, f)
			}
		}
		sort.Strings(missing)
		r.table(p, "C14.persistence-complete", "persist "+tn, p.Pos(mm.Pos()), len(missing) == 0, fmt.Sprintf("fields not persisted: %v", missing))
	}

	// (c) KDF resets per block
	r.rule("C14.kdf-reset-per-block", "in nistkdf.KDF every write into the PRF happens on a freshly created or reset MAC (Reset precedes each block's Write; Sum ends the block)")
	r.floor("C14.kdf-reset-per-block", 1)
	if kdf := p.ByName["fdo/internal/nistkdf.KDF"]; kdf != nil {
		r.Functions["fdo/internal/nistkdf.KDF"] = true
		rs := &RuleSet{Atoms: []AtomDef{{Name: "prf", ExecDyn: func(m *Matcher, call ssa.CallInstruction) (gen, kill []Atom) {
			switch m.P.calleeOf(call.Common()).Name {
			case "crypto/hmac.New", "hash.Hash.Reset":
				return []Atom{"prf-fresh"}, nil
			case "hash.Hash.Sum":
				return nil, []Atom{"prf-fresh"}
			}
			return nil, nil
		}}}}
		f := NewFlow(p, rs, []*ssa.Function{kdf}, func(g *ssa.Function) bool { return g != kdf })
		// prf-fresh is an ordinary (exported-name) atom here: use StateAt
		for _, w := range f.CallSites(func(cal Callee, c2 ssa.CallInstruction) bool {
			return (cal.Name == "hash.Hash.Write" || cal.Name == "io.Writer.Write") && c2.Parent() == kdf
		}) {
			r.table(p, "C14.kdf-reset-per-block", siteKey(p, w), p.instrPos(w), f.StateAt(w).Has("prf-fresh"), "PRF is fresh (hmac.New or Reset, no Sum since) on every path to this Write, including the loop back edge")
		}
	} else {
		r.fail("anchor fdo/internal/nistkdf.KDF not found")
	}

	r.rule("C14.dh-ranges", "in the finite-field DH derivation the peer's public value is confined to [2, p-2] and the shared secret to [2, p-2] (or >= 2 with p-1 excluded) before the key derivation: the bounds are read off the big.Int comparisons as linear forms in the modulus (NIST SP 800-56A rev. 3, 5.6.2.3.2 and 5.7.1.1)")
	r.floor("C14.dh-ranges", 2)
	// (d) parameter validation
	r.rule("C14.peer-parameter-validation", "key derivation succeeds only after the peer's parameter was validated (DH: see C14.dh-ranges; ECDH: NewPublicKey and ECDH err==nil; OAEP: DecryptOAEP err==nil)")
	r.floor("C14.peer-parameter-validation", 2)
	cmpNeg := func(name Atom, want string) AtomDef { // big.Int.Cmp result compared with 0
		return AtomDef{Name: name, Edge: func(m *Matcher, pd Pred, holds bool) bool {
			n, _, call := m.ResultOf(pd.X)
			if call == nil || n != "math/big.Int.Cmp" || !isConstInt(pd.Y, 0) {
				return false
			}
			switch want {
			case "ge": // Cmp < 0 is false
				return pd.Kind == "lt" && !holds
			case "le": // 0 < Cmp is false ... written as Cmp > 0
				return false
			}
			return false
		}}
	}
	_ = cmpNeg
	rs := &RuleSet{Atoms: []AtomDef{
		{Name: "cmp-checks", EdgeDyn: func(m *Matcher, pd Pred, holds bool) []Atom {
			// each rejected comparison of a big.Int.Cmp result contributes one distinct fact on the passing edge
			for _, v := range []ssa.Value{pd.X, pd.Y} {
				if v == nil {
					continue
				}
				if n, _, call := m.ResultOf(v); call != nil && n == "math/big.Int.Cmp" {
					if v2, ok := call.(ssa.Value); ok {
						return []Atom{"v:cmp:" + v2.Name() + ":" + fmt.Sprint(holds)}
					}
				}
			}
			return nil
		}},
		errNil("ec-pub-ok", "Curve.NewPublicKey err==nil", named("crypto/ecdh.Curve.NewPublicKey"), nil),
		errNil("ecdh-ok", "PrivateKey.ECDH err==nil", named("crypto/ecdh.PrivateKey.ECDH"), nil),
		errNil("oaep-ok", "rsa.DecryptOAEP err==nil", named("crypto/rsa.DecryptOAEP"), nil),
	}}
	for _, call := range p.callsTo("fdo/internal/nistkdf.KDF") {
		fn := call.Parent()
		if funcPkgPath(fn) != kexPkg {
			continue
		}
		f := NewFlow(p, rs, []*ssa.Function{fn}, func(g *ssa.Function) bool { return funcPkgPath(g) != kexPkg })
		st := f.StateAt(call)
		n := 0
		if !st.top {
			for a := range st.m {
				if strings.HasPrefix(a, "v:cmp:") {
					n++
				}
			}
		}
		usesBig := false
		for _, b := range fn.Blocks {
			for _, in := range b.Instrs {
				if c2, ok := in.(ssa.CallInstruction); ok && p.calleeOf(c2.Common()).Name == "math/big.Int.Exp" {
					usesBig = true
				}
			}
		}
		if usesBig {
			c14DHRanges(p, r, fn, call)
		}
		switch {
		case usesBig:
			// decided by C14.dh-ranges (symbolic intervals) instead of counting comparisons
			_ = n
		case st.Has("oaep-ok") || callsNamed(p, fn, "crypto/rsa.DecryptOAEP") || anyCallerCalls(p, fn, "crypto/rsa.DecryptOAEP"):
			ok := st.Has("oaep-ok")
			if !ok {
				// decryption happens in the caller: check the callers
				ok = true
				for _, e := range p.CallGraph().in[fn] {
					fc := NewFlow(p, rs, []*ssa.Function{e.Caller}, func(g *ssa.Function) bool { return funcPkgPath(g) != kexPkg })
					if !fc.StateAt(e.Site).Has("oaep-ok") && callsNamed(p, e.Caller, "crypto/rsa.DecryptOAEP") {
						ok = false
					}
				}
			}
			r.table(p, "C14.peer-parameter-validation", p.FuncName(fn), p.instrPos(call), ok, "DecryptOAEP err==nil before the derived key is used")
		default:
			r.table(p, "C14.peer-parameter-validation", p.FuncName(fn), p.instrPos(call), st.Has("ec-pub-ok") && st.Has("ecdh-ok"), "NewPublicKey and ECDH err==nil established before the KDF call (through the shared-secret helper's summary)")
		}
	}
}

func isZeroConst(v ssa.Value) bool {
	c, ok := v.(*ssa.Const)
	return ok && (c.IsNil() || c.Value == nil)
}

func anyCallerCalls(p *Prog, fn *ssa.Function, name string) bool {
	for _, e := range p.CallGraph().in[fn] {
		for _, b := range e.Caller.Blocks {
			for _, in := range b.Instrs {
				if c, ok := in.(ssa.CallInstruction); ok && p.calleeOf(c.Common()).Name == name {
					return true
				}
			}
		}
	}
	return false
}

// ---- C15 -----------------------------------------------------------------------------------

func init() {
	checks["C15"] = checkC15
	explanations["C15"] = "NARROW: losslessness and ordering over all sizes, remainders, write splits and schedules are arithmetic/concurrency properties and NOT decided . Decided, budget accounting only: (a) in the device's batching loop the budget handed to the next ReadChunk is the previous budget minus Size() of the chunk just appended; (b) the owner returns produced service info only after ArraySizeCBOR(info) > mtu was false; (c) ReadChunk reads value bytes only after size - overhead <= 0 was false, and the overhead is computed from the raw CBOR-encoded key; (d) ForceNewMessage hands the reader a pipe whose writer is closed at once (yield => new batch); (e) size computations compare against CBOR head boundaries in canonical form; (f) no reader limit in ReadChunk depends on the remaining size (the key of the next service info is read in full whatever budget is left; a key cut short by the budget lost or failed the service info)."
}

func checkC15(c *Ctx, p *Prog, r *Result) {
	// (a) budget subtraction in the batching loop
	r.rule("C15.budget-subtracted", "in the function that batches chunks for DeviceServiceInfo, the size passed to ChunkReader.ReadChunk is a loop-carried budget whose next value is budget - chunk.Size() for the chunk appended to the message")
	r.floor("C15.budget-subtracted", 1)
	for _, call := range p.callsTo("fdo/serviceinfo.ChunkReader.ReadChunk") {
		fn := call.Parent()
		if funcPkgPath(fn) != modulePath || call.Parent().Name() == "discardDeviceInfo" {
			continue
		}
		args := allArgs(call)
		phi, ok := args[1].(*ssa.Phi)
		if !ok {
			if _, isConst := args[1].(*ssa.Const); isConst {
				continue // draining reader with a fixed maximum
			}
			r.table(p, "C15.budget-subtracted", siteKey(p, call), p.instrPos(call), false, "budget is not a loop-carried value")
			continue
		}
		r.Functions[p.FuncName(fn)] = true
		good := false
		appended := false
		for _, e := range phi.Edges {
			bo, ok := e.(*ssa.BinOp)
			if !ok || bo.Op != token.SUB || bo.X != ssa.Value(phi) {
				continue
			}
			n, _, sz := p.matcher(fn).ResultOf(bo.Y)
			if sz == nil || n != "fdo/serviceinfo.KV.Size" {
				continue
			}
			recv := allArgs(sz)[0]
			if rn, idx, src := p.matcher(fn).ResultOf(recv); src == call && idx == 0 && rn == "fdo/serviceinfo.ChunkReader.ReadChunk" {
				good = true
				// the same chunk is appended
				for _, b := range fn.Blocks {
					for _, in := range b.Instrs {
						if ap, ok := in.(*ssa.Call); ok {
							if bi, isB := ap.Call.Value.(*ssa.Builtin); isB && bi.Name() == "append" {
								if p.matcher(fn).Prov(ap.Call.Args[1]).Has("call:fdo/serviceinfo.ChunkReader.ReadChunk") {
									appended = true
								}
							}
						}
					}
				}
			}
		}
		r.table(p, "C15.budget-subtracted", siteKey(p, call), p.instrPos(call), good && appended, fmt.Sprintf("next budget = budget - Size(chunk read)=%v; that chunk is appended=%v", good, appended))
	}

	// (a2) the amount reserved for the message wrapper
	r.rule("C15.header-reservation", "the constant the device takes off the negotiated size before batching covers the CBOR wrapper of the message struct it sends: 1 byte array head + the encoded size of every fixed-size field (bool: 1) + a 3-byte head for the service-info array (up to 65535 entries, the budget being a uint16)")
	r.floor("C15.header-reservation", 1)
	for _, call := range p.callsTo("fdo/serviceinfo.ChunkReader.ReadChunk") {
		fn := call.Parent()
		if _, ok := allArgs(call)[1].(*ssa.Phi); !ok || funcPkgPath(fn) != modulePath {
			continue
		}
		// the message struct: a local of struct type with a []*KV field that is appended to
		need := int64(-1)
		for _, b := range fn.Blocks {
			for _, in := range b.Instrs {
				al, ok := in.(*ssa.Alloc)
				if !ok {
					continue
				}
				st, ok := deref(al.Type()).Underlying().(*types.Struct)
				if !ok {
					continue
				}
				n, hasKV, okFields := int64(1), false, true
				for i := 0; i < st.NumFields(); i++ {
					ft := st.Field(i).Type()
					switch u := ft.Underlying().(type) {
					case *types.Basic:
						if u.Kind() == types.Bool {
							n++
						} else {
							okFields = false
						}
					case *types.Slice:
						if strings.HasSuffix(shortTypeString(u.Elem()), "serviceinfo.KV") {
							hasKV = true
							n += 3
						} else {
							okFields = false
						}
					default:
						okFields = false
					}
				}
				if hasKV && okFields {
					need = n
				}
			}
		}
		// the budget parameter's value at the in-package call sites: param - c
		var budget *ssa.Parameter
		if phi, ok := allArgs(call)[1].(*ssa.Phi); ok {
			for _, e := range phi.Edges {
				if pr, ok := e.(*ssa.Parameter); ok {
					budget = pr
				}
			}
		}
		if need < 0 || budget == nil {
			r.table(p, "C15.header-reservation", "reservation before "+p.FuncName(fn), p.Pos(fn.Pos()), false, "message struct or budget parameter not recognised: undecided")
			continue
		}
		// find `x - c` feeding the budget parameter, following the parameter up
		// through callers that merely pass their own parameter on
		found := false
		var follow func(g *ssa.Function, prm *ssa.Parameter, depth int)
		follow = func(g *ssa.Function, prm *ssa.Parameter, depth int) {
			if depth > 3 {
				return
			}
			pi := -1
			for i, q := range g.Params {
				if q == prm {
					pi = i
				}
			}
			for _, ed := range p.CallGraph().in[g] {
				cs, ok := ed.Site.(ssa.CallInstruction)
				if !ok || ed.Kind != "static" || ed.Caller == g || pi >= len(cs.Common().Args) {
					continue
				}
				arg := cs.Common().Args[pi]
				var sub *ssa.BinOp
				var up *ssa.Parameter
				var walk func(v ssa.Value, d int)
				walk = func(v ssa.Value, d int) {
					if d > 4 || sub != nil {
						return
					}
					switch x := v.(type) {
					case *ssa.BinOp:
						if x.Op == token.SUB {
							if _, isC := constInt(intRootNoVar(x.Y)); isC {
								sub = x
							}
						}
					case *ssa.Phi:
						for _, e := range x.Edges {
							walk(e, d+1)
						}
					case *ssa.Parameter:
						up = x
					}
				}
				walk(arg, 0)
				if sub != nil {
					found = true
					c, _ := constInt(intRootNoVar(sub.Y))
					r.table(p, "C15.header-reservation", "reservation in "+p.FuncName(ed.Caller)+" for "+siteKey(p, cs), p.instrPos(sub), c >= need, fmt.Sprintf("reserves %d byte(s); the wrapper of the message struct needs %d", c, need))
				} else if up != nil {
					follow(ed.Caller, up, depth+1)
				}
			}
		}
		follow(fn, budget, 0)
		if !found {
			r.table(p, "C15.header-reservation", "reservation before "+p.FuncName(fn), p.Pos(fn.Pos()), false, "no caller subtracts a constant from the negotiated size: undecided")
		}
	}

	// (b) owner MTU check
	r.rule("C15.owner-fits-mtu", "the owner returns service info produced by a module only after ArraySizeCBOR(info) > mtu was false, with mtu from Session.MTU")
	r.floor("C15.owner-fits-mtu", 1)
	if root := p.ByName["fdo.TO2Server.Respond"]; root != nil {
		rs := &RuleSet{Atoms: []AtomDef{{Name: "fits-mtu", Edge: func(m *Matcher, pd Pred, holds bool) bool {
			if pd.Kind != "lt" || holds {
				return false
			}
			n, _, call := m.ResultOf(pd.Y)
			return call != nil && n == "fdo/serviceinfo.ArraySizeCBOR" && m.Prov(pd.X).Has("call:fdo.TO2SessionState.MTU")
		}}}}
		f := NewFlow(p, rs, []*ssa.Function{root}, nil)
		r.useFlow(f)
		for _, call := range f.CallSites(func(cal Callee, _ ssa.CallInstruction) bool {
			return cal.Name == "fdo/serviceinfo.Producer.ServiceInfo"
		}) {
			fn := call.Parent()
			m := f.matcherFor(fn)
			for i, sr := range f.successReturns(fn, fn.Signature.Results().Len()-1) {
				// returns that carry the produced info
				if al := baseAlloc(stripConv(sr.Ret.Results[0])); al != nil {
					if v, ok := litFields(al)["ServiceInfo"]; ok && m.Prov(v).Has("call:fdo/serviceinfo.Producer.ServiceInfo") {
						r.table(p, "C15.owner-fits-mtu", fmt.Sprintf("success return #%d of %s", i, p.FuncName(fn)), p.instrPos(sr.Ret), sr.State.Has("fits-mtu"), "returned after the MTU comparison passed")
					}
				}
			}
		}
	}

	// (b2) the key is read in full whatever budget is left
	r.rule("C15.key-read-unbudgeted", "in ChunkReader.ReadChunk no reader limit (io.LimitReader) depends on the remaining-size parameter: a key cut short by the budget makes the call fail after the pipe reader was taken off the queue, losing or failing the whole service info; an oversized key is handled by the size check that follows, which keeps the reader for the next message")
	r.floor("C15.key-read-unbudgeted", 1)
	if rc := p.ByName["fdo/serviceinfo.ChunkReader.ReadChunk"]; rc != nil {
		m := p.matcher(rc)
		n := 0
		for _, b := range rc.Blocks {
			for _, in := range b.Instrs {
				call, ok := in.(ssa.CallInstruction)
				if !ok || p.calleeOf(call.Common()).Name != "io.LimitReader" {
					continue
				}
				n++
				pv := m.Prov(call.Common().Args[1])
				r.table(p, "C15.key-read-unbudgeted", siteKey(p, call), p.instrPos(call), !pv.Has("param:1"), "limit provenance: "+joinMax(pv.List(), 6))
			}
		}
		if n == 0 {
			r.table(p, "C15.key-read-unbudgeted", "no reader limit in ChunkReader.ReadChunk", p.Pos(rc.Pos()), true, "no io.LimitReader call")
		}
	}

	// (c) ReadChunk overhead
	r.rule("C15.readchunk-overhead", "ChunkReader.ReadChunk reads value bytes only after size - overhead <= 0 was false, and the overhead derives from the length of the raw encoded key")
	r.floor("C15.readchunk-overhead", 2)
	if rc := p.ByName["fdo/serviceinfo.ChunkReader.ReadChunk"]; rc != nil {
		r.Functions["fdo/serviceinfo.ChunkReader.ReadChunk"] = true
		rawKey := func(m *Matcher, v ssa.Value) bool {
			// derives from len() of a field of type cbor.RawBytes
			found := false
			var walk func(v ssa.Value, d int)
			walk = func(v ssa.Value, d int) {
				if v == nil || d > 8 || found {
					return
				}
				if l := lenOf(m, intRootNoVar(v)); l != nil && typeShort(l.Type()) == "fdo/cbor.RawBytes" {
					found = true
					return
				}
				switch x := intRootNoVar(v).(type) {
				case *ssa.BinOp:
					walk(x.X, d+1)
					walk(x.Y, d+1)
				case *ssa.Phi:
					for _, e := range x.Edges {
						walk(e, d+1)
					}
				}
			}
			walk(v, 0)
			return found
		}
		rs := &RuleSet{Atoms: []AtomDef{{Name: "room-for-value", Edge: func(m *Matcher, pd Pred, holds bool) bool {
			// (size - overhead) <= 0 is false
			if pd.Kind != "le" || holds || !isConstInt(pd.Y, 0) {
				return false
			}
			bo, ok := intRootNoVar(pd.X).(*ssa.BinOp)
			return ok && bo.Op == token.SUB && rawKey(m, bo.Y)
		}}}}
		f := NewFlow(p, rs, []*ssa.Function{rc}, func(g *ssa.Function) bool { return g != rc })
		reads := f.CallSites(func(cal Callee, call ssa.CallInstruction) bool {
			return cal.Name == "io.ReadFull" && call.Parent() == rc
		})
		r.requireAtSites(f, "C15.readchunk-overhead", reads, []Atom{"room-for-value"})
		m := f.matcherFor(rc)
		for _, call := range reads {
			sl, ok := call.Common().Args[1].(*ssa.Slice)
			ok2 := false
			if ok && sl.High != nil {
				if bo, isB := intRootNoVar(sl.High).(*ssa.BinOp); isB && bo.Op == token.SUB {
					ok2 = rawKey(m, bo.Y)
				}
			}
			r.table(p, "C15.readchunk-overhead", "read length of "+siteKey(p, call), p.instrPos(call), ok2, "value bytes read = size - overhead(raw key length)")
		}
	} else {
		r.fail("anchor fdo/serviceinfo.ChunkReader.ReadChunk not found")
	}

	// (d) ForceNewMessage closes the writer it hands over
	r.rule("C15.yield-closes-pipe", "the pipe handed over for a forced message break has its writer closed immediately (so the reader sees EOF instead of a key)")
	r.floor("C15.yield-closes-pipe", 1)
	if fnm := p.ByName["fdo/serviceinfo.UnchunkWriter.ForceNewMessage"]; fnm != nil {
		for g := range p.Reachable([]*ssa.Function{fnm}, func(h *ssa.Function) bool { return funcPkgPath(h) != modulePath+"/serviceinfo" }) {
			for _, b := range g.Blocks {
				ifi, ok := b.Instrs[len(b.Instrs)-1].(*ssa.If)
				if !ok {
					continue
				}
				pr, isParam := ifi.Cond.(*ssa.Parameter)
				if !isParam || !isBool(pr.Type()) {
					continue
				}
				closes := false
				for _, in := range b.Succs[0].Instrs {
					if call, ok := in.(ssa.CallInstruction); ok && strings.HasSuffix(p.calleeOf(call.Common()).Name, "pipeWriter.Close") || ok && strings.HasSuffix(p.calleeOf(call.Common()).Name, ".Close") {
						closes = true
					}
				}
				r.table(p, "C15.yield-closes-pipe", p.FuncName(g), p.instrPos(ifi), closes, "the forced-break arm closes the new pipe's writer")
			}
		}
	}

	// (e) boundary lint on size computations
	r.rule("C15.size-boundaries", "size computations in package serviceinfo compare lengths with CBOR head boundaries in canonical form")
	r.floor("C15.size-boundaries", 4)
	for _, fn := range p.Funcs {
		if funcPkgPath(fn) == modulePath+"/serviceinfo" {
			boundaryLint(p, r, "C15.size-boundaries", fn)
		}
	}
}

// ---- C16 -----------------------------------------------------------------------------------

func init() {
	checks["C16"] = checkC16
	explanations["C16"] = "NARROW: exactly-once, in-order delivery of module streams across messages, fragmentation and goroutine schedules are properties of executions and NOT decided. Decided, dispatch gates only: (a) DeviceModule.Receive and DeviceModule.Yield are invoked by the dispatcher only on paths where the module was found active; (b) when an activation request names an unknown module, every non-error path of the activation handler encodes a reply (unknown modules answer rather than stay silent), and the reply value is forced to false for unknown modules other than devmod; (c) both module dispatchers treat an unread message body as an error after Receive / HandleInfo; (d) the device sends Done (type 70) only after the owner's last response carried IsDone; (e) on the owner IsDone derives from ModuleStateMachine.NextModule returning false, consulted only after ProduceInfo reported completion; (f) the devmod writer is given the very MTU value negotiated in DeviceServiceInfoReady that the exchange loop uses. Also decided: the devmod writer's budget (call-site reduction plus comparison constant cover the message wrapper, measured with KV.Size), no owner response carries IsDone with IsMoreServiceInfo (path-sensitive boolean evaluation), ReadChunk re-decodes its cached key whenever it replaces the cached raw key, and the yield target follows the last received message."
}

func checkC16(c *Ctx, p *Prog, r *Result) {
	root := p.ByName["fdo.TO2"]
	if root == nil {
		r.fail("anchor fdo.TO2 not found")
		return
	}
	done, _ := p.constOf("fdo/protocol", "TO2DoneMsgType")
	rs := &RuleSet{Atoms: []AtomDef{
		{Name: "module-active", Doc: "the module named by the message was found active", Edge: func(m *Matcher, pd Pred, holds bool) bool {
			if pd.Kind != "bool" || !holds {
				return false
			}
			// the bool comes from an in-module lookup function whose second result is read from a map[string]bool keyed by the module name
			_, idx, call := m.ResultOf(pd.X)
			if call == nil || idx != 1 {
				return false
			}
			g := m.P.body(call.Common().StaticCallee())
			if g == nil {
				return false
			}
			for _, b := range g.Blocks {
				if ret, ok := b.Instrs[len(b.Instrs)-1].(*ssa.Return); ok && len(ret.Results) == 2 {
					lk, ok := ret.Results[1].(*ssa.Lookup)
					if !ok || !strings.HasPrefix(lk.X.Type().Underlying().String(), "map[string]bool") {
						return false
					}
				}
			}
			return true
		}},
		{Name: "owner-done", Doc: "the owner's last response carried IsDone", Edge: func(m *Matcher, pd Pred, holds bool) bool {
			if pd.Kind != "bool" || !holds {
				return false
			}
			// result #1 of the in-module function that sends type 68 (directly or recursively)
			n, idx, call := m.ResultOf(pd.X)
			return call != nil && idx == 1 && strings.HasPrefix(n, "fdo.") && m.P.body(call.Common().StaticCallee()) != nil && callsNamed(m.P, m.P.body(call.Common().StaticCallee()), "fdo.Transport.Send")
		}},
	}}
	f := NewFlow(p, rs, []*ssa.Function{root}, nil)
	r.useFlow(f)
	dumpFlow(f)

	// (a)
	r.rule("C16.receive-only-when-active", "DeviceModule.Receive is invoked only where the module was found active")
	r.floor("C16.receive-only-when-active", 1)
	r.requireAtSites(f, "C16.receive-only-when-active", f.CallSites(func(cal Callee, call ssa.CallInstruction) bool {
		return cal.Name == "fdo/serviceinfo.DeviceModule.Receive" && funcPkgPath(call.Parent()) == modulePath
	}), []Atom{"module-active"})

	r.rule("C16.yield-only-when-active", "DeviceModule.Yield is invoked by the TO2 dispatcher only where the module was found active (sibling of the Receive gate: a deactivated or never activated module is not driven)")
	r.floor("C16.yield-only-when-active", 1)
	r.requireAtSites(f, "C16.yield-only-when-active", f.CallSites(func(cal Callee, call ssa.CallInstruction) bool {
		return cal.Name == "fdo/serviceinfo.DeviceModule.Yield" && funcPkgPath(call.Parent()) == modulePath
	}), []Atom{"module-active"})

	// (d)
	r.rule("C16.done-after-isdone", "Transport.Send(type 70) happens only after the exchange round reported the owner's IsDone")
	r.floor("C16.done-after-isdone", 1)
	r.requireAtSites(f, "C16.done-after-isdone", f.CallSites(func(cal Callee, call ssa.CallInstruction) bool {
		return cal.Name == "fdo.Transport.Send" && isConstInt(allArgs(call)[2], done)
	}), []Atom{"owner-done"})
	// the reported flag is the decoded IsDone of the last response
	for _, fn := range f.Order {
		res := fn.Signature.Results()
		if res.Len() != 3 || !isBool(res.At(1).Type()) || !callsNamed(p, fn, "fdo.Transport.Send") || funcPkgPath(fn) != modulePath {
			continue
		}
		m := f.matcherFor(fn)
		k := 0
		for _, b := range fn.Blocks {
			ret, ok := b.Instrs[len(b.Instrs)-1].(*ssa.Return)
			if !ok || provablyFalse(returnValue(ret, 1)) {
				continue
			}
			if call, _ := m.CallResult(returnValue(ret, 1)); call != nil && m.P.body(call.Common().StaticCallee()) == fn {
				continue // recursion
			}
			k++
			pv := m.Prov(returnValue(ret, 1))
			r.table(p, "C16.done-after-isdone", fmt.Sprintf("done flag at return #%d of %s", k, p.FuncName(fn)), p.instrPos(ret), fieldOfLoad(returnValue(ret, 1)) == "fdo.ownerServiceInfo.IsDone" || pv.Has("field:fdo.ownerServiceInfo.IsDone"), "flag = IsDone field of the decoded owner response")
		}
	}

	// (b) unknown module answers
	r.rule("C16.unknown-module-answers", "in the activation handler, once the module is found to be an UnknownModule every path to a non-error exit encodes the reply, and the reply value is set to false for unknown modules (except devmod)")
	r.floor("C16.unknown-module-answers", 2)
	for _, fn := range f.Order {
		for _, b := range fn.Blocks {
			ifi, ok := b.Instrs[len(b.Instrs)-1].(*ssa.If)
			if !ok {
				continue
			}
			ex, ok := condRoot(ifi.Cond).(*ssa.Extract)
			if !ok || ex.Index != 1 {
				continue
			}
			ta, ok := ex.Tuple.(*ssa.TypeAssert)
			if !ok || typeShort(ta.AssertedType) != "fdo/serviceinfo.UnknownModule" {
				continue
			}
			// from the unknown=true edge, all non-error exits pass an Encoder.Encode
			okAll, path := allPathsHitOrError(p, f, b.Succs[0], func(x ssa.Instruction) bool {
				call, ok := x.(ssa.CallInstruction)
				return ok && p.calleeOf(call.Common()).Name == "fdo/cbor.Encoder.Encode"
			})
			r.table(p, "C16.unknown-module-answers", "reply on every path in "+p.FuncName(fn), p.instrPos(ifi), okAll, "non-error exit reached without encoding a reply via "+path)
			// the forced false value
			forced := false
			for _, s := range reachableBlocks(b.Succs[0], 3) {
				for _, in := range s.Instrs {
					if st, ok := in.(*ssa.Store); ok && provablyFalse(st.Val) {
						forced = true
					}
				}
			}
			// (SSA may have turned the variable into a phi with a false edge)
			for _, s := range fn.Blocks {
				for _, in := range s.Instrs {
					if ph, ok := in.(*ssa.Phi); ok && isBool(ph.Type()) {
						for _, e := range ph.Edges {
							if provablyFalse(e) {
								forced = true
							}
						}
					}
				}
			}
			r.table(p, "C16.unknown-module-answers", "reply value in "+p.FuncName(fn), p.instrPos(ifi), forced, "the reply variable takes the constant false on the unknown-module path")
		}
	}

	// (c) unread body is an error
	r.rule("C16.body-drained", "after DeviceModule.Receive / OwnerModule.HandleInfo the dispatcher copies the rest of the body to io.Discard and fails if bytes were left")
	r.floor("C16.body-drained", 2)
	for _, name := range []string{"fdo/serviceinfo.DeviceModule.Receive", "fdo/serviceinfo.OwnerModule.HandleInfo"} {
		for _, call := range p.callsTo(name) {
			fn := call.Parent()
			if funcPkgPath(fn) != modulePath {
				continue
			}
			drained := false
			for _, b := range fn.Blocks {
				for _, in := range b.Instrs {
					c2, ok := in.(ssa.CallInstruction)
					if !ok || p.calleeOf(c2.Common()).Name != "io.Copy" || !instrBefore(call, c2) {
						continue
					}
					// its count is compared with zero and a non-zero count returns an error
					if v, ok := c2.(ssa.Value); ok {
						for _, ref := range *v.Referrers() {
							if ex, ok := ref.(*ssa.Extract); ok && ex.Index == 0 {
								for _, r2 := range *ex.Referrers() {
									if bo, ok := r2.(*ssa.BinOp); ok && (bo.Op == token.GTR || bo.Op == token.NEQ) && isConstInt(bo.Y, 0) {
										drained = true
									}
								}
							}
						}
					}
				}
			}
			r.table(p, "C16.body-drained", siteKey(p, call), p.instrPos(call), drained, "followed by io.Copy(io.Discard, body) whose count > 0 is an error")
		}
	}

	// (e) owner side IsDone
	r.rule("C16.owner-isdone-source", "the owner's IsDone is the negation of ModuleStateMachine.NextModule's result, and NextModule is called only after ProduceInfo reported completion")
	r.floor("C16.owner-isdone-source", 2)
	if srv := p.ByName["fdo.TO2Server.Respond"]; srv != nil {
		rs2 := &RuleSet{Atoms: []AtomDef{
			boolTrue("module-complete", "ProduceInfo reported moduleDone", named("fdo/serviceinfo.OwnerModule.ProduceInfo"), 1, nil),
		}}
		fs := NewFlow(p, rs2, []*ssa.Function{srv}, nil)
		nm := fs.CallSites(func(cal Callee, call ssa.CallInstruction) bool {
			return cal.Name == "fdo/serviceinfo.ModuleStateMachine.NextModule" && funcPkgPath(call.Parent()) == modulePath
		})
		r.requireAtSites(fs, "C16.owner-isdone-source", nm, []Atom{"module-complete"})
		for _, call := range nm {
			fn := call.Parent()
			m := fs.matcherFor(fn)
			for _, b := range fn.Blocks {
				for _, in := range b.Instrs {
					al, ok := in.(*ssa.Alloc)
					if !ok {
						continue
					}
					if v, has := litFields(al)["IsDone"]; has {
						if _, isConst := v.(*ssa.Const); isConst {
							continue
						}
						pv := m.Prov(v)
						r.table(p, "C16.owner-isdone-source", "IsDone in "+p.FuncName(fn), p.Pos(al.Pos()), pv.Has("call:fdo/serviceinfo.ModuleStateMachine.NextModule"), "derives from NextModule")
					}
				}
			}
		}
	}

	if srv := p.ByName["fdo.TO2Server.Respond"]; srv != nil {
		fs := NewFlow(p, &RuleSet{}, []*ssa.Function{srv}, nil)
		c16DoneExcludesMore(p, r, fs.Order)
	}

	// (f) devmod writer budget
	c16DevmodBudget(p, r, f, root)
	c16KeyFollowsRawKey(p, r)
	c16YieldTargetFollowsMessages(p, r, f)
}

func condRoot(v ssa.Value) ssa.Value {
	for {
		if u, ok := v.(*ssa.UnOp); ok && u.Op == token.NOT {
			v = u.X
			continue
		}
		return v
	}
}

func reachableBlocks(b *ssa.BasicBlock, depth int) []*ssa.BasicBlock {
	seen := map[*ssa.BasicBlock]bool{b: true}
	out := []*ssa.BasicBlock{b}
	frontier := []*ssa.BasicBlock{b}
	for d := 0; d < depth; d++ {
		var next []*ssa.BasicBlock
		for _, x := range frontier {
			for _, s := range x.Succs {
				if !seen[s] {
					seen[s] = true
					out = append(out, s)
					next = append(next, s)
				}
			}
		}
		frontier = next
	}
	return out
}

// allPathsHitOrError: every path from block b to a function exit either passes
// an instruction satisfying hit or ends in a return whose error operand is
// provably non-nil.
func allPathsHitOrError(p *Prog, f *Flow, b *ssa.BasicBlock, hit func(ssa.Instruction) bool) (bool, string) {
	type item struct {
		b    *ssa.BasicBlock
		path string
	}
	seen := map[*ssa.BasicBlock]bool{b: true}
	stack := []item{{b, fmt.Sprintf("b%d", b.Index)}}
	for len(stack) > 0 {
		it := stack[len(stack)-1]
		stack = stack[:len(stack)-1]
		found := false
		for _, in := range it.b.Instrs {
			if hit(in) {
				found = true
				break
			}
		}
		if found {
			continue
		}
		last := it.b.Instrs[len(it.b.Instrs)-1]
		if ret, isRet := last.(*ssa.Return); isRet {
			n := len(ret.Results)
			if n > 0 && isErrorType(ret.Results[n-1].Type()) && provablyNonNil(p, returnValue(ret, n-1), f.StateAt(ret), 0) {
				continue
			}
			return false, it.path
		}
		for _, s := range it.b.Succs {
			if !seen[s] {
				seen[s] = true
				stack = append(stack, item{s, it.path + fmt.Sprintf(">b%d", s.Index)})
			}
		}
	}
	return true, ""
}

// c14KdfKeyFixedWidth — "C14.kdf-secret-fixed-width". The two parties (and any
// conforming peer) must feed the KDF the same octet string. An integer secret has
// one only at a fixed width: big.Int.Bytes() drops leading zero octets, so about
// one exchange in 256 would derive keys from a shorter string. Every secret
// argument of nistkdf.KDF in package kex that comes from a big.Int is therefore
// a buffer filled by FillBytes, never the result of Bytes().
func c14KdfKeyFixedWidth(p *Prog, r *Result, kexPkg string) {
	rule := "C14.kdf-secret-fixed-width"
	r.rule(rule, "the secret argument of every nistkdf.KDF call in package kex does not contain the result of (*big.Int).Bytes() (variable width: leading zero octets dropped); an integer secret reaches the KDF through (*big.Int).FillBytes into a buffer allocated in that function")
	r.floor(rule, 3)
	isBig := func(call *ssa.Call, name string) bool {
		cal := call.Call.StaticCallee()
		return cal != nil && p.FuncName(cal) == "math/big.Int."+name
	}
	var leak func(v ssa.Value, depth int, seen map[ssa.Value]bool) string
	leak = func(v ssa.Value, depth int, seen map[ssa.Value]bool) string {
		if depth > 6 || seen[v] {
			return ""
		}
		seen[v] = true
		switch x := v.(type) {
		case *ssa.Call:
			if isBig(x, "Bytes") {
				return "(*big.Int).Bytes() at " + p.instrPos(x)
			}
			if b, ok := x.Call.Value.(*ssa.Builtin); ok && b.Name() == "append" {
				for _, a := range x.Call.Args {
					if w := leak(a, depth+1, seen); w != "" {
						return w
					}
				}
			}
		case *ssa.Slice:
			return leak(x.X, depth+1, seen)
		case *ssa.ChangeType:
			return leak(x.X, depth+1, seen)
		case *ssa.Phi:
			for _, e := range x.Edges {
				if w := leak(e, depth+1, seen); w != "" {
					return w
				}
			}
		case *ssa.UnOp:
			if al, ok := x.X.(*ssa.Alloc); ok {
				for _, ref := range *al.Referrers() {
					if st, ok := ref.(*ssa.Store); ok && st.Addr == al {
						if w := leak(st.Val, depth+1, seen); w != "" {
							return w
						}
					}
				}
			}
		}
		return ""
	}
	for _, call := range p.callsTo("fdo/internal/nistkdf.KDF") {
		fn := call.Parent()
		if funcPkgPath(fn) != kexPkg || len(call.Common().Args) < 2 {
			continue
		}
		secret := call.Common().Args[1]
		w := leak(secret, 0, map[ssa.Value]bool{})
		usesBig := false
		for _, b := range fn.Blocks {
			for _, in := range b.Instrs {
				if c, ok := in.(*ssa.Call); ok && isBig(c, "Exp") {
					usesBig = true
				}
			}
		}
		ok := w == ""
		detail := "secret is not an integer rendered at variable width"
		if ok && usesBig {
			// an integer secret: it must have been written with FillBytes into this very buffer
			filled := false
			for _, b := range fn.Blocks {
				for _, in := range b.Instrs {
					if c, isCall := in.(*ssa.Call); isCall && isBig(c, "FillBytes") && len(c.Call.Args) == 2 && c.Call.Args[1] == secret {
						filled = true
					}
				}
			}
			ok = filled
			detail = "modular-exponentiation secret written with FillBytes into the KDF's secret buffer"
			if !filled {
				detail = "the function computes its secret with big.Int.Exp but the KDF's secret argument is not a buffer filled by FillBytes: width of the secret is undecided"
			}
		}
		if w != "" {
			detail = "secret contains " + w + ": leading zero octets of the shared secret are dropped"
		}
		r.table(p, rule, "secret of "+siteKey(p, call), p.instrPos(call), ok, detail)
	}
}
