package main

// E3 — wire taint: which SSA values may be chosen by the protocol peer.
//
// Context-insensitive, alloc-level and field-name-level forward propagation
// over the functions of a region, iterated to a fixed point. Over-approximate:
// a value is tainted if SOME flow from a source exists. Values read back from
// the state store (invokes of the state interfaces), configuration callbacks
// and registry contents are NOT sources, by stated assumption.

import (
	"fmt"
	"go/token"
	"go/types"
	"os"
	"strings"

	"golang.org/x/tools/go/ssa"
)

type Taint struct {
	p      *Prog
	region map[*ssa.Function]bool
	vals   map[ssa.Value]bool
	allocs map[*ssa.Alloc]bool
	fields map[string]bool // pkg.Type.Field
	rets   map[*ssa.Function]map[int]bool
	wire   map[string]bool
	// apiRoots: entry points whose parameters are peer-controlled (library API
	// handed peer data directly, e.g. Parse*RvInfo, Unmarshal, Verify)
	apiRoots map[*ssa.Function]bool
	changed  bool
}

// untaintedResult: calls whose results are trusted regardless of arguments.
func untaintedResult(name string) bool {
	switch {
	case strings.HasPrefix(name, "fdo.") && (strings.Contains(name, "SessionState.") || strings.Contains(name, "PersistentState.") || strings.Contains(name, "VoucherReseller.")):
		return true // state store
	case strings.HasPrefix(name, "field:"):
		return true // configuration callbacks
	case strings.HasPrefix(name, "fdo/protocol.TokenService."):
		return true
	case strings.HasPrefix(name, "crypto/hmac."), strings.HasPrefix(name, "crypto/sha"), strings.HasPrefix(name, "crypto/rand."),
		strings.HasPrefix(name, "crypto/cipher."), strings.HasPrefix(name, "crypto/aes."), strings.HasPrefix(name, "crypto.Hash."),
		name == "crypto/ecdsa.Verify", strings.HasPrefix(name, "crypto/rsa.Verify"), strings.HasPrefix(name, "crypto/ecdh."):
		return true // digests, verdicts, fresh randomness, cipher objects: fixed-size results not shaped by the peer
	case strings.HasPrefix(name, "hash.Hash."), strings.HasPrefix(name, "time."), strings.HasPrefix(name, "context."),
		strings.HasPrefix(name, "fmt."), strings.HasPrefix(name, "errors."), strings.HasPrefix(name, "log/slog."), strings.HasPrefix(name, "sync."),
		strings.HasPrefix(name, "reflect.TypeOf"), strings.HasPrefix(name, "os."), strings.HasPrefix(name, "database/sql."):
		return true
	}
	return false
}

func newTaint(p *Prog, region map[*ssa.Function]bool, apiRoots ...*ssa.Function) *Taint {
	t := &Taint{p: p, region: region, apiRoots: map[*ssa.Function]bool{}, vals: map[ssa.Value]bool{}, allocs: map[*ssa.Alloc]bool{}, fields: map[string]bool{}, rets: map[*ssa.Function]map[int]bool{}}
	for _, fn := range apiRoots {
		if b := p.body(fn); b != nil {
			t.apiRoots[b] = true
		}
	}
	t.solve()
	return t
}

func (t *Taint) mark(v ssa.Value) {
	if v == nil || t.vals[v] {
		return
	}
	if dbg := os.Getenv("FDOCHECK_DEBUG_TAINT"); dbg != "" {
		if in, ok := v.(ssa.Instruction); ok && in.Parent() != nil && strings.Contains(t.p.FuncName(in.Parent()), dbg) {
			fmt.Printf("TAINT %s %s = %s @ %s\n", t.p.FuncName(in.Parent()), v.Name(), v.String(), t.p.instrPos(in))
		} else if pr, ok := v.(*ssa.Parameter); ok && strings.Contains(t.p.FuncName(pr.Parent()), dbg) {
			fmt.Printf("TAINT %s param %s\n", t.p.FuncName(pr.Parent()), pr.Name())
		}
	}
	if _, isConst := v.(*ssa.Const); isConst {
		return
	}
	t.vals[v] = true
	t.changed = true
}

func (t *Taint) markMem(addr ssa.Value) {
	// memory written with tainted data: alloc-level, plus field-level for
	// non-local bases
	if a := baseAlloc(addr); a != nil {
		if !t.allocs[a] {
			t.allocs[a] = true
			t.changed = true
		}
		return
	}
	for v := addr; v != nil; {
		switch x := v.(type) {
		case *ssa.FieldAddr:
			if f := fieldName(x.X.Type(), x.Field); f != "" && !t.fields[f] {
				t.fields[f] = true
				t.changed = true
			}
			return
		case *ssa.IndexAddr:
			v = x.X
		case *ssa.Slice:
			v = x.X
		case *ssa.MakeInterface:
			v = x.X
		case *ssa.UnOp:
			// pointer loaded out of a local container (e.g. ranging over
			// []*T{&a, &b}): the store may hit any local whose address was
			// put into that container
			if x.Op == token.MUL {
				if cont := baseAlloc(x.X); cont != nil {
					var walk func(v ssa.Value, depth int)
					walk = func(v ssa.Value, depth int) {
						if depth > 4 || v.Referrers() == nil {
							return
						}
						for _, ref := range *v.Referrers() {
							switch y := ref.(type) {
							case *ssa.IndexAddr:
								walk(y, depth+1)
							case *ssa.FieldAddr:
								walk(y, depth+1)
							case *ssa.Slice:
								walk(y, depth+1)
							case *ssa.Store:
								if al, ok := y.Val.(*ssa.Alloc); ok && y.Addr == v && !t.allocs[al] {
									t.allocs[al] = true
									t.changed = true
								}
							}
						}
					}
					walk(cont, 0)
				}
			}
			return
		default:
			return
		}
	}
}

func (t *Taint) memTainted(addr ssa.Value) bool {
	if a := baseAlloc(addr); a != nil {
		return t.allocs[a]
	}
	// memory reached through a pointer: if the pointer is the (transitive)
	// result of a call, the pointee is as tainted as that result; field-level
	// taint applies only to objects of unknown origin (parameters, receivers)
	for v := addr; v != nil; {
		switch x := v.(type) {
		case *ssa.FieldAddr:
			v = x.X
			continue
		case *ssa.IndexAddr:
			v = x.X
			continue
		case *ssa.Slice:
			v = x.X
			continue
		case *ssa.UnOp:
			if x.Op == token.MUL {
				v = x.X
				continue
			}
		case *ssa.Call, *ssa.Extract:
			return t.vals[v]
		}
		break
	}
	for v := addr; v != nil; {
		switch x := v.(type) {
		case *ssa.FieldAddr:
			if t.fields[fieldName(x.X.Type(), x.Field)] {
				return true
			}
			if t.vals[x.X] {
				return true
			}
			v = x.X
		case *ssa.IndexAddr:
			if t.vals[x.X] {
				return true
			}
			v = x.X
		case *ssa.Slice:
			v = x.X
		default:
			return t.vals[v]
		}
	}
	return false
}

// Is reports whether v may be peer-chosen.
func (t *Taint) Is(v ssa.Value) bool {
	if v == nil {
		return false
	}
	return t.vals[v]
}

func isNamedType(tt types.Type, name string) bool { return typeShort(tt) == name }

func (t *Taint) solve() {
	// roots
	wire := t.wireTypes()
	t.wire = wire
	if os.Getenv("FDOCHECK_DEBUG_WIRE") != "" {
		for k := range wire {
			if strings.Contains(k, "kex.") {
				fmt.Println("WIRETYPE", k)
			}
		}
	}
	for fn := range t.region {
		for i, prm := range fn.Params {
			if t.apiRoots[fn] {
				t.mark(prm)
				t.markMem(prm)
			}
			ts := typeShort(prm.Type())
			if ts == "net/http.Request" || ts == "net/http.Response" {
				t.mark(prm)
			}
			if ts == "io.Reader" && (fn.Name() == "Respond" || fn.Name() == "Decrypt") && fn.Signature.Recv() != nil {
				t.mark(prm) // request body handed to a responder / ciphertext stream
			}
			if fn.Signature.Recv() != nil && wire[typeShort(fn.Signature.Recv().Type())] {
				switch fn.Name() {
				case "UnmarshalCBOR", "UnmarshalBinary":
					if i == 1 {
						t.mark(prm)
					}
				case "UnmarshalCBORStream":
					if i == 1 {
						t.mark(prm)
					}
				}
			}
		}
	}
	for round := 0; round < 60; round++ {
		t.changed = false
		for fn := range t.region {
			t.scan(fn)
		}
		if !t.changed {
			return
		}
	}
	panic("taint fixed point did not converge")
}

func (t *Taint) scan(fn *ssa.Function) {
	name := t.p.FuncName(fn)
	inCbor := funcPkgPath(fn) == modulePath+"/cbor"
	for _, b := range fn.Blocks {
		for _, in := range b.Instrs {
			switch x := in.(type) {
			case *ssa.Store:
				if t.vals[x.Val] {
					t.markMem(x.Addr)
				}
			case *ssa.MapUpdate:
				if t.vals[x.Value] || t.vals[x.Key] {
					t.mark(x.Map)
					t.markMem(x.Map)
				}
			case *ssa.Send:
				if t.vals[x.X] {
					t.mark(x.Chan)
				}
			case *ssa.Return:
				for i, rv := range x.Results {
					if t.vals[rv] || t.vals[returnValue(x, i)] {
						if t.rets[fn] == nil {
							t.rets[fn] = map[int]bool{}
						}
						if !t.rets[fn][i] {
							t.rets[fn][i] = true
							t.changed = true
						}
					}
				}
			}
			if call, ok := in.(ssa.CallInstruction); ok {
				t.call(fn, name, inCbor, call)
			}
			v, ok := in.(ssa.Value)
			if !ok || t.vals[v] {
				continue
			}
			switch x := v.(type) {
			case *ssa.UnOp:
				if x.Op == token.MUL {
					if t.memTainted(x.X) || t.vals[x.X] {
						t.mark(v)
					}
				} else if x.Op == token.ARROW {
					if t.vals[x.X] {
						t.mark(v)
					}
				} else if t.vals[x.X] {
					t.mark(v)
				}
			case *ssa.Alloc:
				if t.allocs[x] {
					t.mark(v)
				}
			case *ssa.FieldAddr:
				if t.vals[x.X] || t.memTainted(x) {
					t.mark(v)
				}
			case *ssa.Field:
				if t.vals[x.X] {
					t.mark(v)
				}
			case *ssa.IndexAddr:
				if t.vals[x.X] {
					t.mark(v)
				}
			case *ssa.Index:
				if t.vals[x.X] {
					t.mark(v)
				}
			case *ssa.Lookup:
				if t.vals[x.X] || t.vals[x.Index] {
					t.mark(v)
				}
			case *ssa.Slice:
				if t.vals[x.X] || t.memTainted(x.X) {
					t.mark(v)
				}
			case *ssa.Convert:
				if t.vals[x.X] {
					t.mark(v)
				}
			case *ssa.ChangeType:
				if t.vals[x.X] {
					t.mark(v)
				}
			case *ssa.ChangeInterface:
				if t.vals[x.X] {
					t.mark(v)
				}
			case *ssa.MakeInterface:
				if t.vals[x.X] {
					t.mark(v)
				}
			case *ssa.SliceToArrayPointer:
				if t.vals[x.X] {
					t.mark(v)
				}
			case *ssa.TypeAssert:
				if t.vals[x.X] {
					t.mark(v)
				}
			case *ssa.Extract:
				if c, isCall := x.Tuple.(*ssa.Call); isCall {
					if t.callResultTainted(c, x.Index) {
						t.mark(v)
					}
				} else if t.vals[x.Tuple] {
					t.mark(v)
				}
			case *ssa.Call:
				if t.callResultTainted(x, 0) {
					t.mark(v)
				}
			case *ssa.Phi:
				for _, e := range x.Edges {
					if t.vals[e] {
						t.mark(v)
						break
					}
				}
			case *ssa.BinOp:
				if t.vals[x.X] || t.vals[x.Y] {
					t.mark(v)
				}
			case *ssa.Range:
				if t.vals[x.X] {
					t.mark(v)
				}
			case *ssa.Next:
				if t.vals[x.Iter] {
					t.mark(v)
				}
			case *ssa.MakeClosure:
				body := t.p.body(x.Fn.(*ssa.Function))
				if body != nil {
					for i, bnd := range x.Bindings {
						if (t.vals[bnd] || t.memTainted(bnd)) && i < len(body.FreeVars) {
							t.mark(body.FreeVars[i])
						}
					}
				}
			}
		}
	}
}

func (t *Taint) anyArgTainted(c *ssa.CallCommon) bool {
	for _, a := range callOperands(c) {
		if t.vals[a] {
			return true
		}
	}
	if !c.IsInvoke() {
		if _, isFn := c.Value.(*ssa.Function); !isFn && t.vals[c.Value] {
			return true
		}
	}
	return false
}

func (t *Taint) callResultTainted(c *ssa.Call, idx int) bool {
	cal := t.p.calleeOf(c.Common())
	if body := t.p.body(cal.Fn); body != nil && t.region[body] {
		return t.rets[body][idx]
	}
	if untaintedResult(cal.Name) {
		return false
	}
	if c.Common().IsInvoke() && strings.HasPrefix(cal.Name, "fdo") {
		// module interface resolved by CHA: any implementation returning taint
		for _, e := range t.p.CallGraph().out[c.Parent()] {
			if e.Site == ssa.Instruction(c) && e.Kind != "codec" && t.rets[e.Callee][idx] {
				return true
			}
		}
	}
	if cal.Name == "net/http.Client.Do" {
		return true
	}
	if untaintedResult(cal.Name) {
		return false
	}
	if cal.Name == "builtin.len" || cal.Name == "builtin.cap" {
		return t.vals[c.Call.Args[0]] || t.memTainted(c.Call.Args[0])
	}
	return t.anyArgTainted(c.Common())
}

func (t *Taint) call(fn *ssa.Function, fname string, inCbor bool, call ssa.CallInstruction) {
	c := call.Common()
	cal := t.p.calleeOf(c)
	args := callOperands(c)
	switch {
	case decodeSinks[cal.Name]:
		// decoded object: tainted when the bytes / reader / header map decoded from are
		src := false
		for _, a := range args[:len(args)-1] {
			if t.vals[a] {
				src = true
			}
		}
		if src {
			last := c.Args[len(c.Args)-1]
			t.markMem(stripConv(last))
			if mi, ok := last.(*ssa.MakeInterface); ok {
				t.markMem(mi.X)
			}
		}
	case cal.Name == "io.ReadFull" || cal.Name == "io.Reader.Read" || cal.Name == "io.ReadAll":
		// reading from a peer-controlled stream
		if len(args) >= 2 && (t.vals[args[0]] || inCbor) {
			t.markMem(args[1])
			if sl, ok := args[1].(*ssa.Slice); ok {
				t.mark(sl)
			}
			t.mark(args[1])
		}
	case cal.Name == "builtin.copy":
		if len(c.Args) == 2 && t.vals[c.Args[1]] {
			t.markMem(c.Args[0])
		}
	case cal.Name == "context.Context.Value" && (strings.HasPrefix(fname, "fdo/sqlite.") || strings.Contains(fname, "/token.")):
		if v, ok := call.(ssa.Value); ok {
			t.mark(v)
		}
	case cal.Name == "net/http.Client.Do":
		if v, ok := call.(ssa.Value); ok {
			t.mark(v)
		}
	case cal.Name == "database/sql.Row.Scan", cal.Name == "fmt.Sscanf":
		// out parameters filled from trusted storage
	}
	// arguments into in-module callees (static, or CHA-resolved invokes)
	pass := func(body *ssa.Function, args []ssa.Value) {
		if body == nil || !t.region[body] {
			return
		}
		for i, a := range args {
			if i < len(body.Params) && (t.vals[a]) {
				t.mark(body.Params[i])
			}
		}
	}
	if body := t.p.body(cal.Fn); body != nil {
		pass(body, c.Args)
	} else if c.IsInvoke() {
		for _, e := range t.p.CallGraph().out[fn] {
			if e.Site == ssa.Instruction(call) && (e.Kind == "invoke" || e.Kind == "codec") {
				if n := e.Callee.Name(); (n == "UnmarshalCBOR" || n == "UnmarshalCBORStream" || n == "UnmarshalBinary") &&
					e.Callee.Signature.Recv() != nil && !t.wire[typeShort(e.Callee.Signature.Recv().Type())] {
					continue // persistence-only type: never decoded from the wire
				}
				pass(e.Callee, args)
			}
		}
	}
}

// wireTypes is the closure of named types reachable from the static types of
// decode targets in the region: only their custom unmarshalers see wire bytes
// (persistence-only types such as key-exchange sessions are decoded from the
// state store).
func (t *Taint) wireTypes() map[string]bool {
	out := map[string]bool{}
	var walk func(tt types.Type, depth int)
	walk = func(tt types.Type, depth int) {
		if tt == nil || depth > 12 {
			return
		}
		tt = types.Unalias(tt)
		switch x := tt.(type) {
		case *types.Named:
			n := typeShort(x)
			if out[n] && x.TypeArgs().Len() == 0 {
				return
			}
			out[n] = true
			for i := 0; i < x.TypeArgs().Len(); i++ {
				walk(x.TypeArgs().At(i), depth+1)
			}
			walk(x.Underlying(), depth+1)
		case *types.Pointer:
			walk(x.Elem(), depth+1)
		case *types.Slice:
			walk(x.Elem(), depth+1)
		case *types.Array:
			walk(x.Elem(), depth+1)
		case *types.Map:
			walk(x.Key(), depth+1)
			walk(x.Elem(), depth+1)
		case *types.Struct:
			for i := 0; i < x.NumFields(); i++ {
				walk(x.Field(i).Type(), depth+1)
			}
		}
	}
	for fn := range t.region {
		pkg := funcPkgPath(fn)
		if strings.HasSuffix(pkg, "/sqlite") || strings.HasSuffix(pkg, "/blob") {
			continue // decodes rows it stored itself
		}
		for _, b := range fn.Blocks {
			for _, in := range b.Instrs {
				call, ok := in.(ssa.CallInstruction)
				if !ok || !decodeSinks[t.p.calleeOf(call.Common()).Name] {
					continue
				}
				last := call.Common().Args[len(call.Common().Args)-1]
				if mi, ok := last.(*ssa.MakeInterface); ok {
					walk(mi.X.Type(), 0)
				} else {
					walk(last.Type(), 0)
				}
			}
		}
	}
	return out
}
