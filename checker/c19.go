package main

import (
	"fmt"
	"go/token"
	"go/types"
	"sort"
	"strings"

	"golang.org/x/tools/go/ssa"
)

// C19 — concurrent onboardings through one server are isolated and race-free.
// Only effect confinement and the guarded-by discipline of the pipes are decided.

func init() {
	checks["C19"] = checkC19
	explanations["C19"] = "Structural necessary conditions: (effect confinement, E2) no function reachable from a wire entry point stores to a package-level variable or updates a package-level map (registries are written only by Register*/init); no method of http.Handler or of the four server types stores through its receiver (one handler and one set of responders may be shared by all sessions); the sqlite store keeps no state in memory and signs tokens only with the secret it read back from the database (so concurrent first sessions converge on one secret); (guarded-by, E4 lockset) in package serviceinfo every access to bufPipe.buf and bufPipe.err happens with the embedded mutex held — one reviewed exception: the read of err ordered by the close of the wake-up channel — and the readers and closing channels of UnchunkWriter are closed only under readerMu / closeMu. Also: no mutating method is called on a package-level object from wire-reachable code; UnchunkWriter.readers is sent on only under readerMu after the closing indicator was seen open under that lock (or by the unique closer) and closed only after the indicator; sqlite.Open limits its pool to one connection. Fields shared between a closer and the producer of the service-info writer are accessed under one common mutex; the one unlocked error read is accepted only while the publication order (store the error, then close the wake-up channel) is visible in every closer. Not decided: data races through shared user callbacks or cached keys, deadlock freedom, lost wake-ups, isolation inside other state backends, schedules as executions."
}

// lockAtoms: held:<canonical mutex address> gen on Lock, kill on Unlock.
func lockAtoms() AtomDef {
	return AtomDef{Name: "locks", ExecDyn: func(m *Matcher, call ssa.CallInstruction) (gen, kill []Atom) {
		if _, isDefer := call.(*ssa.Defer); isDefer {
			return nil, nil
		}
		n := m.P.calleeOf(call.Common()).Name
		args := allArgs(call)
		switch n {
		case "sync.Mutex.Lock", "sync.RWMutex.Lock":
			return []Atom{"held:" + canonAddr(args[0])}, nil
		case "sync.Mutex.Unlock", "sync.RWMutex.Unlock":
			return nil, []Atom{"held:" + canonAddr(args[0]), "~" + canonAddr(args[0])}
		}
		return nil, nil
	}}
}

type guardedField struct {
	field, mutexField string
}

func checkC19(c *Ctx, p *Prog, r *Result) {
	// ---- effect confinement ----
	e := newE3(p, r, wireRoots, nil)
	r.rule("C19.no-global-writes", "no function reachable from a wire entry point stores to a package-level variable, updates a package-level map, or calls a mutating method (module method that stores through its receiver, math/big destination receiver, Write/Set/Reset/Add/Store-style stdlib method outside sync) on a package-level object")
	r.floor("C19.no-global-writes", 400)
	for _, fn := range e.order {
		var bad []string
		m := p.matcher(fn)
		for _, b := range fn.Blocks {
			for _, in := range b.Instrs {
				switch x := in.(type) {
				case *ssa.Store:
					for a := x.Addr; a != nil; {
						switch y := a.(type) {
						case *ssa.Global:
							bad = append(bad, "store to "+y.Name()+" at "+p.instrPos(in))
							a = nil
						case *ssa.FieldAddr:
							a = y.X
						case *ssa.IndexAddr:
							a = y.X
						default:
							a = nil
						}
					}
				case *ssa.MapUpdate:
					if pv := m.Prov(x.Map); pv.HasPrefixLocal("global:fdo") && !pv.HasPrefixLocal("param:") && !pv.HasPrefixLocal("call:") {
						bad = append(bad, "map update of a package-level map at "+p.instrPos(in))
					}
				}
				// a package-level object used as the destination of a mutating method
				if call, ok := in.(ssa.CallInstruction); ok && !call.Common().IsInvoke() {
					if g := globalReceiver(call.Common()); g != nil && mutatesReceiver(p, call.Common()) {
						bad = append(bad, "package-level "+g.Name()+" is the receiver of mutating method "+p.calleeOf(call.Common()).Name+" at "+p.instrPos(in))
					}
				}
			}
		}
		r.table(p, "C19.no-global-writes", p.FuncName(fn), p.Pos(fn.Pos()), len(bad) == 0, strings.Join(bad, "; "))
	}
	// positive control: the registries ARE written by Register* (outside the region)
	ctl := 0
	for _, fn := range p.Funcs {
		if strings.HasPrefix(fn.Name(), "Register") && !e.region[fn] {
			for _, b := range fn.Blocks {
				for _, in := range b.Instrs {
					if mu, ok := in.(*ssa.MapUpdate); ok && p.matcher(fn).Prov(mu.Map).HasPrefix("global:fdo") {
						ctl++
					}
				}
			}
		}
	}
	if ctl < 4 {
		r.fail("C19.no-global-writes: positive control failed: expected the Register* functions to update package-level maps, found %d updates", ctl)
	}

	r.rule("C19.stateless-servers", "no method of http.Handler, DIServer, TO0Server, TO1Server or TO2Server stores through its receiver")
	r.floor("C19.stateless-servers", 20)
	shared := map[string]bool{"fdo/http.Handler": true, "fdo.DIServer": true, "fdo.TO0Server": true, "fdo.TO1Server": true, "fdo.TO2Server": true}
	for _, fn := range p.Funcs {
		if fn.Signature.Recv() == nil || !shared[typeShort(fn.Signature.Recv().Type())] {
			continue
		}
		var bad []string
		recv := fn.Params[0]
		for _, b := range fn.Blocks {
			for _, in := range b.Instrs {
				st, ok := in.(*ssa.Store)
				if !ok {
					continue
				}
				for a := st.Addr; a != nil; {
					switch y := a.(type) {
					case *ssa.FieldAddr:
						if y.X == ssa.Value(recv) {
							bad = append(bad, "store to "+fieldName(y.X.Type(), y.Field)+" at "+p.instrPos(in))
						}
						a = y.X
					case *ssa.IndexAddr:
						a = y.X
					case *ssa.UnOp:
						if y.Op == token.MUL {
							a = y.X
						} else {
							a = nil
						}
					default:
						a = nil
					}
				}
			}
		}
		r.table(p, "C19.stateless-servers", p.FuncName(fn), p.Pos(fn.Pos()), len(bad) == 0, strings.Join(bad, "; "))
	}

	// sqlite: the token secret is the stored one
	r.rule("C19.sqlite-secret-read-back", "the sqlite token secret handed to the MAC is the value read back from the secrets table (never a freshly generated or cached one), so concurrent first sessions and later instances agree")
	r.floor("C19.sqlite-secret-read-back", 2)
	for _, fn := range p.Funcs {
		if funcPkgPath(fn) != modulePath+"/sqlite" || fn.Signature.Recv() == nil {
			continue
		}
		res := fn.Signature.Results()
		if res.Len() != 2 || res.At(0).Type().String() != "[]byte" || !isErrorType(res.At(1).Type()) {
			continue
		}
		// the function that inserts into / queries the secrets table
		touches := false
		for _, b := range fn.Blocks {
			for _, in := range b.Instrs {
				if call, ok := in.(ssa.CallInstruction); ok {
					for _, a := range allArgs(call) {
						if cst, ok := a.(*ssa.Const); ok && cst.Value != nil && cst.Value.ExactString() == `"secrets"` {
							touches = true
						}
					}
				}
			}
		}
		if !touches {
			continue
		}
		m := p.matcher(fn)
		f := NewFlow(p, &RuleSet{Atoms: []AtomDef{
			errNil("secret-read-back", "the query of the secrets table returned no error (the row was read)", func(n string) bool { return strings.HasPrefix(n, "fdo/sqlite.") && strings.HasSuffix(n, ".query") },
				func(m *Matcher, _ ssa.CallInstruction, args []ssa.Value) bool {
					c, ok := args[2].(*ssa.Const)
					return ok && c.Value != nil && c.Value.ExactString() == `"secrets"`
				}),
		}}, []*ssa.Function{fn}, func(g *ssa.Function) bool { return g != fn })
		r.requireAtReturns(f, "C19.sqlite-secret-read-back", fn, 1, []Atom{"secret-read-back"})
		for i, sr := range f.successReturns(fn, 1) {
			pv := m.Prov(returnValue(sr.Ret, 0))
			r.table(p, "C19.sqlite-secret-read-back", fmt.Sprintf("value of success return #%d of %s", i, p.FuncName(fn)), p.instrPos(sr.Ret),
				pv.HasPrefix("out:fdo/sqlite.") && strings.Contains(strings.Join(pv.List(), " "), ".query"), "returned secret provenance: "+joinMax(pv.List(), 6))
		}
	}

	// ---- the sqlite store serialises its sessions ----
	r.rule("C19.sqlite-single-connection", "sqlite.Open hands out a store whose connection pool is limited to one connection (SetMaxOpenConns(1) on every path to a successful return): its connection string replaces the driver's busy timeout, so with several pooled connections concurrent sessions fail with 'database is locked' instead of obtaining the outcome they would obtain alone")
	if open := p.ByName["fdo/sqlite.Open"]; open == nil || len(open.Blocks) == 0 {
		r.note("fdo/sqlite.Open has no body in this build configuration (tinygo): rule not applicable here")
	} else {
		r.floor("C19.sqlite-single-connection", 1)
		f := NewFlow(p, &RuleSet{Atoms: []AtomDef{{Name: "single-conn", Doc: "SetMaxOpenConns(1) was called", Exec: func(m *Matcher, call ssa.CallInstruction) bool {
			if m.P.calleeOf(call.Common()).Name != "database/sql.DB.SetMaxOpenConns" {
				return false
			}
			a := allArgs(call)
			return len(a) == 2 && isConstInt(a[1], 1)
		}}}}, []*ssa.Function{open}, func(g *ssa.Function) bool { return g != open })
		r.requireAtReturns(f, "C19.sqlite-single-connection", open, 1, []Atom{"single-conn"})
	}

	// ---- guarded-by (E4) ----
	// guarded fields are discovered, not named: in every struct of package
	// serviceinfo that has exactly one sync.Mutex field (embedded or named), the
	// fields of type bytes.Buffer and error are guarded by it (today: the
	// in-memory pipe's buffer and its close error)
	var guards []guardedField
	errField := map[string]bool{}
	for _, pk := range p.Pkgs {
		if pk.PkgPath != modulePath+"/serviceinfo" {
			continue
		}
		scope := pk.Types.Scope()
		for _, nm := range scope.Names() {
			tn, ok := scope.Lookup(nm).(*types.TypeName)
			if !ok {
				continue
			}
			st, ok := tn.Type().Underlying().(*types.Struct)
			if !ok {
				continue
			}
			mu := ""
			nMu := 0
			for i := 0; i < st.NumFields(); i++ {
				if typeShort(st.Field(i).Type()) == "sync.Mutex" {
					mu = st.Field(i).Name()
					nMu++
				}
			}
			if nMu != 1 {
				continue
			}
			owner := typeShort(tn.Type())
			for i := 0; i < st.NumFields(); i++ {
				ft := st.Field(i).Type()
				switch {
				case typeShort(ft) == "bytes.Buffer":
					guards = append(guards, guardedField{owner + "." + st.Field(i).Name(), owner + "." + mu})
				case isErrorType(ft):
					guards = append(guards, guardedField{owner + "." + st.Field(i).Name(), owner + "." + mu})
					errField[owner+"."+st.Field(i).Name()] = true
				}
			}
		}
	}
	if len(guards) < 2 {
		r.fail("C19.guarded-by: expected a mutex-guarded buffer and error field in package serviceinfo, found %d guarded fields", len(guards))
	}
	closes := map[string]string{
		"fdo/serviceinfo.UnchunkWriter.readers": "fdo/serviceinfo.UnchunkWriter.readerMu",
		"fdo/serviceinfo.UnchunkWriter.closing": "fdo/serviceinfo.UnchunkWriter.closeMu",
	}
	// one reviewed exception, identified structurally: the Read method's load of
	// the guarded error field
	exceptionReason := "read after the receive on the wake-up channel observed its close: the error is assigned under the mutex before that channel is closed, and never afterwards"
	// the exception is granted only while its reason is visible in the code:
	// (1) every close of a channel field of the struct is preceded, in the
	// same function, by a store to the error field; (2) every store to the
	// error field is followed by such a close (closing twice panics, so nothing
	// is stored after the close); (3) the unlocked load is dominated by the
	// not-ok edge of a receive on that channel.
	instrBefore := func(a, b ssa.Instruction) bool {
		if a.Block() != b.Block() {
			return a.Block().Dominates(b.Block())
		}
		for _, in := range a.Block().Instrs {
			if in == a {
				return true
			}
			if in == b {
				return false
			}
		}
		return false
	}
	publishOrder := map[string]string{} // error field -> "" if the order holds, else what is wrong
	publishChecked := func(fld string) string {
		if v, ok := publishOrder[fld]; ok {
			return v
		}
		owner := fld[:strings.LastIndex(fld, ".")]
		bad := ""
		nClose := 0
		for _, fn := range p.Funcs {
			if funcPkgPath(fn) != modulePath+"/serviceinfo" {
				continue
			}
			var stores, closes []ssa.Instruction
			for _, b := range fn.Blocks {
				for _, in := range b.Instrs {
					switch x := in.(type) {
					case *ssa.Store:
						if fa, ok := x.Addr.(*ssa.FieldAddr); ok && fieldName(fa.X.Type(), fa.Field) == fld {
							if _, fresh := fa.X.(*ssa.Alloc); !fresh {
								stores = append(stores, x)
							}
						}
					case *ssa.Call:
						if bi, isB := x.Call.Value.(*ssa.Builtin); isB && bi.Name() == "close" {
							if fa, ok := loadOf(x.Call.Args[0]).(*ssa.FieldAddr); ok && strings.HasPrefix(fieldName(fa.X.Type(), fa.Field), owner+".") {
								closes = append(closes, x)
							}
						}
					}
				}
			}
			nClose += len(closes)
			for _, c := range closes {
				okc := false
				for _, st := range stores {
					if instrBefore(st, c) {
						okc = true
					}
				}
				if !okc {
					bad = fmt.Sprintf("the close at %s is not preceded by a store to the error field", p.instrPos(c))
				}
			}
			for _, st := range stores {
				oks := false
				for _, c := range closes {
					if instrBefore(st, c) {
						oks = true
					}
				}
				if !oks {
					bad = fmt.Sprintf("the store to the error field at %s is not followed by the close of the wake-up channel", p.instrPos(st))
				}
			}
		}
		if nClose == 0 && bad == "" {
			bad = "no close of a channel field found"
		}
		publishOrder[fld] = bad
		return bad
	}
	afterClosedRecv := func(ref ssa.Instruction, owner string) bool {
		fn := ref.Parent()
		for _, b := range fn.Blocks {
			ifi, ok := b.Instrs[len(b.Instrs)-1].(*ssa.If)
			if !ok {
				continue
			}
			ex, ok := condRoot(ifi.Cond).(*ssa.Extract)
			if !ok || ex.Index != 1 {
				continue
			}
			rcv, ok := ex.Tuple.(*ssa.UnOp)
			if !ok || rcv.Op != token.ARROW || !rcv.CommaOk {
				continue
			}
			fa, ok := loadOf(rcv.X).(*ssa.FieldAddr)
			if !ok || !strings.HasPrefix(fieldName(fa.X.Type(), fa.Field), owner+".") {
				continue
			}
			// which successor is the not-ok edge
			_, onTrue := normCond(ifi.Cond)
			notOK := b.Succs[1]
			if !onTrue {
				notOK = b.Succs[0]
			}
			if len(notOK.Preds) == 1 && notOK.Dominates(ref.Block()) {
				return true
			}
		}
		return false
	}
	isException := func(ref ssa.Instruction, fld string) (bool, string) {
		if !errField[fld] {
			return false, ""
		}
		if _, isLoad := ref.(*ssa.UnOp); !isLoad {
			return false, ""
		}
		owner := fld[:strings.LastIndex(fld, ".")]
		if !afterClosedRecv(ref, owner) {
			return false, ""
		}
		if bad := publishChecked(fld); bad != "" {
			return false, "the unlocked read after the observed close is safe only if the error is published before the channel is closed: " + bad
		}
		return true, ""
	}
	r.rule("C19.guarded-by", "every access to bufPipe.buf / bufPipe.err happens with bufPipe's mutex held; UnchunkWriter.readers is closed only under readerMu and UnchunkWriter.closing only under closeMu (one reviewed exception)")
	r.floor("C19.guarded-by", 8)
	// a channel that is closed under a mutex after a close indicator fired may
	// be sent on only under that mutex and after the indicator was seen open
	// (non-blocking receive took the default branch) under the same lock
	indicators := map[string]string{
		"fdo/serviceinfo.UnchunkWriter.readers": "fdo/serviceinfo.UnchunkWriter.closing",
	}
	r.rule("C19.no-send-on-closed", "UnchunkWriter.readers is closed under readerMu only after the closing indicator was closed; every send on it happens under readerMu after a non-blocking receive on the indicator took its default branch under the same lock (so the channel cannot have been closed) or is made by the unique closer itself, and every close of it follows the close of the indicator")
	r.floor("C19.no-send-on-closed", 3)
	openAtom := AtomDef{Name: "indicator-open", EdgeDyn: func(m *Matcher, pd Pred, holds bool) []Atom {
		if pd.Kind != "eq" || holds {
			return nil
		}
		var out []Atom
		for _, pr := range [][2]ssa.Value{{pd.X, pd.Y}, {pd.Y, pd.X}} {
			ex, ok := pr[0].(*ssa.Extract)
			if !ok || ex.Index != 0 {
				continue
			}
			sel, ok := ex.Tuple.(*ssa.Select)
			if !ok || sel.Blocking {
				continue
			}
			k, ok := constInt(pr[1])
			if !ok || int(k) >= len(sel.States) || k < 0 {
				continue
			}
			stt := sel.States[k]
			if stt.Dir != types.RecvOnly {
				continue
			}
			fa, ok := loadOf(stt.Chan).(*ssa.FieldAddr)
			if !ok {
				continue
			}
			ind := fieldName(fa.X.Type(), fa.Field)
			for ch, i := range indicators {
				if i == ind {
					mu := canonAddr(fa.X) + ".f" + itoa(fieldIndex(fa.X.Type(), closes[ch]))
					out = append(out, Atom("v:open:"+mu))
				}
			}
		}
		return out
	}}
	indClosed := AtomDef{Name: "indicator-closed", Doc: "the close indicator was closed", Exec: func(m *Matcher, call ssa.CallInstruction) bool {
		bi, ok := call.Common().Value.(*ssa.Builtin)
		if !ok || bi.Name() != "close" {
			return false
		}
		fa, ok := loadOf(call.Common().Args[0]).(*ssa.FieldAddr)
		if !ok {
			return false
		}
		for _, i := range indicators {
			if i == fieldName(fa.X.Type(), fa.Field) {
				return true
			}
		}
		return false
	}}
	rs := &RuleSet{Atoms: []AtomDef{lockAtoms(), openAtom, indClosed}}
	// one flow over the package: entry points are the functions no other
	// function of the package calls; helpers get their calling context from the
	// call sites (a close moved into a helper keeps the facts of its callers)
	sipkg := modulePath + "/serviceinfo"
	var siRoots []*ssa.Function
	for _, fn := range p.Funcs {
		if funcPkgPath(fn) != sipkg {
			continue
		}
		called := false
		for _, ed := range p.CallGraph().in[fn] {
			if funcPkgPath(ed.Caller) == sipkg && ed.Caller != fn && (ed.Kind == "static" || ed.Kind == "closure") {
				called = true
			}
		}
		if !called {
			siRoots = append(siRoots, fn)
		}
	}
	sortFuncs(p, siRoots)
	pkgFlow := NewFlow(p, rs, siRoots, func(g *ssa.Function) bool { return funcPkgPath(g) != sipkg })
	for _, fn := range p.Funcs {
		if funcPkgPath(fn) != sipkg {
			continue
		}
		flow := func() *Flow { return pkgFlow }
		k := 0
		for _, b := range fn.Blocks {
			for _, in := range b.Instrs {
				// field accesses
				if fa, ok := in.(*ssa.FieldAddr); ok {
					fld := fieldName(fa.X.Type(), fa.Field)
					for _, g := range guards {
						if g.field != fld {
							continue
						}
						// every use of this address (load, store, method call) must be under the lock
						for _, ref := range *fa.Referrers() {
							k++
							mu := "held:" + canonAddr(fa.X) + ".f" + itoa(fieldIndex(fa.X.Type(), g.mutexField))
							st := flow().StateAt(ref)
							ok2 := st.Has(mu)
							detail := "requires " + mu
							if !ok2 {
								if exc, why := isException(ref, fld); exc {
									ok2, detail = true, "reviewed exception: "+exceptionReason
								} else if why != "" {
									detail += "; " + why
								}
							}
							r.table(p, "C19.guarded-by", fmt.Sprintf("access #%d to %s in %s", k, fld, p.FuncName(fn)), p.instrPos(ref), ok2, detail)
						}
					}
				}
				// sends on a closable channel
				var sendChans []ssa.Value
				switch x := in.(type) {
				case *ssa.Select:
					for _, stt := range x.States {
						if stt.Dir == types.SendOnly {
							sendChans = append(sendChans, stt.Chan)
						}
					}
				case *ssa.Send:
					sendChans = append(sendChans, x.Chan)
				}
				for _, ch := range sendChans {
					fa, ok := loadOf(ch).(*ssa.FieldAddr)
					if !ok {
						continue
					}
					fld := fieldName(fa.X.Type(), fa.Field)
					if _, has := indicators[fld]; !has {
						continue
					}
					k++
					mu := canonAddr(fa.X) + ".f" + itoa(fieldIndex(fa.X.Type(), closes[fld]))
					st := flow().StateAt(in)
					okv := st.Has(Atom("held:"+mu)) && st.Has(Atom("v:open:"+mu))
					if !okv && st.Has("indicator-closed") {
						// this call closed the indicator itself, i.e. it won the
						// close-once election and is the only one that will ever
						// close the channel
						r.table(p, "C19.no-send-on-closed", fmt.Sprintf("send #%d on %s in %s", k, fld, p.FuncName(fn)), p.instrPos(in), true, "the sender is the unique closer (it closed the indicator itself on every path to here)")
						continue
					}
					r.table(p, "C19.no-send-on-closed", fmt.Sprintf("send #%d on %s in %s", k, fld, p.FuncName(fn)), p.instrPos(in), okv,
						fmt.Sprintf("requires held:%s (have %v) and the indicator seen open under that lock (have %v)", mu, st.Has(Atom("held:"+mu)), st.Has(Atom("v:open:"+mu))))
				}
				// channel closes
				if call, ok := in.(*ssa.Call); ok {
					if bi, isB := call.Call.Value.(*ssa.Builtin); isB && bi.Name() == "close" {
						ld := loadOf(call.Call.Args[0])
						fa, isFA := ld.(*ssa.FieldAddr)
						if !isFA {
							continue
						}
						fld := fieldName(fa.X.Type(), fa.Field)
						muField, guarded := closes[fld]
						if !guarded {
							continue
						}
						k++
						mu := "held:" + canonAddr(fa.X) + ".f" + itoa(fieldIndex(fa.X.Type(), muField))
						r.table(p, "C19.guarded-by", fmt.Sprintf("close #%d of %s in %s", k, fld, p.FuncName(fn)), p.instrPos(in), flow().StateAt(call).Has(mu), "requires "+mu)
						if _, has := indicators[fld]; has {
							r.table(p, "C19.no-send-on-closed", fmt.Sprintf("close #%d of %s in %s", k, fld, p.FuncName(fn)), p.instrPos(in), flow().StateAt(call).Has("indicator-closed"), "the indicator channel is closed before this channel on every path")
						}
					}
				}
			}
		}
	}

	// ---- fields shared between a closer and the producer ----
	// A struct with a close indicator is built so that its closers may run while
	// another goroutine is inside its other methods (that is what the indicator
	// and the mutexes are for). Every field of such a struct that is written
	// after construction and is touched both by a closer (a function that closes
	// the indicator) and by a non-closer must therefore be accessed under one
	// common mutex of the struct at every such access.
	r.rule("C19.closer-shared-fields", "in a struct with a close indicator (UnchunkWriter), every field that is written after construction and accessed both by a closer and by a non-closer method is accessed under one common mutex of the struct everywhere outside its constructor (a closer may run concurrently with the producer: the deferred Close of transfer races the devmod writer when TO2 fails early)")
	r.floor("C19.closer-shared-fields", 1)
	type acc struct {
		fn     *ssa.Function
		in     ssa.Instruction
		write  bool
		closer bool            // runs on the closer side
		other  bool            // runs on the producer side
		held   map[string]bool // mutex field names held
	}
	for _, ind := range indicators {
		owner := ind[:strings.LastIndex(ind, ".")]
		// closers: functions containing close(<owner>.<indicator>)
		closers := map[*ssa.Function]bool{}
		for _, fn := range p.Funcs {
			if funcPkgPath(fn) != sipkg {
				continue
			}
			for _, b := range fn.Blocks {
				for _, in := range b.Instrs {
					if call, ok := in.(*ssa.Call); ok {
						if bi, isB := call.Call.Value.(*ssa.Builtin); isB && bi.Name() == "close" {
							if fa, isFA := loadOf(call.Call.Args[0]).(*ssa.FieldAddr); isFA && fieldName(fa.X.Type(), fa.Field) == ind {
								closers[fn] = true
							}
						}
					}
				}
			}
		}
		if len(closers) == 0 {
			r.fail("C19.closer-shared-fields: no function closes the indicator %s", ind)
			continue
		}
		// sides: a closer root is any function from which the close of the
		// indicator is reachable through in-package static calls; the closer
		// side is everything reachable from a closer root, the other side
		// everything reachable from the remaining package entry points (a helper
		// may be on both)
		cgr := p.CallGraph()
		inPkgCallees := func(fn *ssa.Function) []*ssa.Function {
			var out []*ssa.Function
			for _, ed := range cgr.out[fn] {
				if (ed.Kind == "static" || ed.Kind == "closure") && funcPkgPath(ed.Callee) == sipkg && ed.Callee != fn {
					out = append(out, ed.Callee)
				}
			}
			return out
		}
		closerRoot := map[*ssa.Function]bool{}
		for fn := range closers {
			closerRoot[fn] = true
		}
		for changed := true; changed; {
			changed = false
			for _, fn := range p.Funcs {
				if funcPkgPath(fn) != sipkg || closerRoot[fn] {
					continue
				}
				for _, g := range inPkgCallees(fn) {
					if closerRoot[g] {
						closerRoot[fn] = true
						changed = true
					}
				}
			}
		}
		reach := func(seed func(*ssa.Function) bool) map[*ssa.Function]bool {
			out := map[*ssa.Function]bool{}
			var work []*ssa.Function
			for _, fn := range p.Funcs {
				if funcPkgPath(fn) == sipkg && seed(fn) {
					out[fn] = true
					work = append(work, fn)
				}
			}
			for len(work) > 0 {
				fn := work[0]
				work = work[1:]
				for _, g := range inPkgCallees(fn) {
					if !out[g] {
						out[g] = true
						work = append(work, g)
					}
				}
			}
			return out
		}
		isEntry := map[*ssa.Function]bool{}
		for _, fn := range siRoots {
			isEntry[fn] = true
		}
		closerSide := reach(func(fn *ssa.Function) bool { return closerRoot[fn] })
		otherSide := reach(func(fn *ssa.Function) bool {
			return !closerRoot[fn] && (isEntry[fn] || (fn.Object() != nil && fn.Object().Exported()))
		})
		accs := map[string][]acc{}
		var mutexes []string
		for _, fn := range p.Funcs {
			if funcPkgPath(fn) != sipkg {
				continue
			}
			for _, b := range fn.Blocks {
				for _, in := range b.Instrs {
					fa, ok := in.(*ssa.FieldAddr)
					if !ok {
						continue
					}
					fld := fieldName(fa.X.Type(), fa.Field)
					if !strings.HasPrefix(fld, owner+".") {
						continue
					}
					if _, fresh := fa.X.(*ssa.Alloc); fresh {
						continue // the constructor's own, not yet shared object
					}
					stt := structOf(fa.X.Type())
					if stt == nil {
						continue
					}
					if typeShort(stt.Field(fa.Field).Type()) == "sync.Mutex" {
						continue
					}
					if mutexes == nil {
						for i := 0; i < stt.NumFields(); i++ {
							if typeShort(stt.Field(i).Type()) == "sync.Mutex" {
								mutexes = append(mutexes, stt.Field(i).Name())
							}
						}
					}
					for _, ref := range *fa.Referrers() {
						a := acc{fn: fn, in: ref, closer: closerSide[fn], other: otherSide[fn], held: map[string]bool{}}
						if stq, isSt := ref.(*ssa.Store); isSt && stq.Addr == ssa.Value(fa) {
							a.write = true
						}
						st := pkgFlow.StateAt(ref)
						for i := 0; i < stt.NumFields(); i++ {
							if typeShort(stt.Field(i).Type()) == "sync.Mutex" && st.Has(Atom("held:"+canonAddr(fa.X)+".f"+itoa(i))) {
								a.held[stt.Field(i).Name()] = true
							}
						}
						accs[fld] = append(accs[fld], a)
					}
				}
			}
		}
		var flds []string
		for f := range accs {
			flds = append(flds, f)
		}
		sort.Strings(flds)
		for _, fld := range flds {
			as := accs[fld]
			anyWrite, inCloser, inOther := false, false, false
			for _, a := range as {
				anyWrite = anyWrite || a.write
				inCloser = inCloser || a.closer
				inOther = inOther || a.other
			}
			if !anyWrite || !inCloser || !inOther {
				continue
			}
			// the common mutex: one that is held at the most accesses
			best, bestN := "", -1
			for _, mu := range mutexes {
				n := 0
				for _, a := range as {
					if a.held[mu] {
						n++
					}
				}
				if n > bestN {
					best, bestN = mu, n
				}
			}
			k := 0
			for _, a := range as {
				k++
				// an access conflicts if the other side (closer vs non-closer)
				// has an access and one of the two is a write
				conflict := false
				for _, b := range as {
					if ((a.closer && b.other) || (a.other && b.closer)) && (a.write || b.write) {
						conflict = true
					}
				}
				if !conflict {
					continue
				}
				kind := "read"
				if a.write {
					kind = "write"
				}
				r.table(p, "C19.closer-shared-fields", fmt.Sprintf("%s #%d of %s in %s", kind, k, fld, p.FuncName(a.fn)), p.instrPos(a.in), a.held[best],
					fmt.Sprintf("the field is written after construction and shared between closer and producer; requires the struct's mutex %s (held at %d of %d accesses)", best, bestN, len(as)))
			}
		}
	}
}

// structOf returns the struct type behind t (a struct or pointer to struct).
func structOf(t types.Type) *types.Struct {
	base := types.Unalias(t).Underlying()
	if pt, ok := base.(*types.Pointer); ok {
		base = types.Unalias(pt.Elem()).Underlying()
	}
	st, _ := base.(*types.Struct)
	return st
}

// fieldIndex returns the index of the field whose qualified name is name
// ("pkg.Type.Field") in the struct (or pointer to struct) type t, or -1.
func fieldIndex(t types.Type, name string) int {
	base := t
	if pt, ok := types.Unalias(base).Underlying().(*types.Pointer); ok {
		base = pt.Elem()
	}
	st, ok := types.Unalias(base).Underlying().(*types.Struct)
	if !ok {
		return -1
	}
	for i := 0; i < st.NumFields(); i++ {
		if typeShort(base)+"."+st.Field(i).Name() == name {
			return i
		}
	}
	return -1
}

// globalReceiver: the receiver of a method call is a package-level variable of
// this module (its address, a field / element of it, or the pointer stored in it).
func globalReceiver(c *ssa.CallCommon) *ssa.Global {
	sc := c.StaticCallee()
	if sc == nil || sc.Signature.Recv() == nil || len(c.Args) == 0 {
		return nil
	}
	for v := c.Args[0]; v != nil; {
		switch x := v.(type) {
		case *ssa.Global:
			if x.Pkg != nil && strings.HasPrefix(x.Pkg.Pkg.Path(), modulePath) {
				return x
			}
			return nil
		case *ssa.FieldAddr:
			v = x.X
		case *ssa.IndexAddr:
			v = x.X
		case *ssa.UnOp:
			if x.Op != token.MUL {
				return nil
			}
			v = x.X
		default:
			return nil
		}
	}
	return nil
}

func mutatesReceiver(p *Prog, c *ssa.CallCommon) bool {
	sc := c.StaticCallee()
	recv := sc.Signature.Recv()
	if _, ptr := recv.Type().Underlying().(*types.Pointer); !ptr {
		return false
	}
	if body := p.body(sc); body != nil {
		for _, b := range body.Blocks {
			for _, in := range b.Instrs {
				if st, ok := in.(*ssa.Store); ok {
					for a := st.Addr; a != nil; {
						switch y := a.(type) {
						case *ssa.FieldAddr:
							a = y.X
						case *ssa.IndexAddr:
							a = y.X
						case *ssa.Parameter:
							if y == body.Params[0] {
								return true
							}
							a = nil
						default:
							a = nil
						}
					}
				}
			}
		}
		return false
	}
	pkg := ""
	if sc.Pkg != nil {
		pkg = sc.Pkg.Pkg.Path()
	}
	switch {
	case pkg == "sync" || pkg == "sync/atomic" || pkg == "log/slog":
		return false
	case pkg == "math/big":
		return recv.Name() == "z"
	}
	for _, pre := range []string{"Write", "Set", "Reset", "Add", "Store", "Grow", "Truncate"} {
		if strings.HasPrefix(sc.Name(), pre) {
			return true
		}
	}
	return false
}
