package main

import (
	"fmt"
	"go/token"
	"go/types"

	"golang.org/x/tools/go/ssa"
)

// c16KeyFollowsRawKey: ChunkReader.ReadChunk labels every chunk with a key it
// caches in its receiver. The cached key is decoded from raw key bytes that are
// cached too. Whenever the raw bytes are replaced (a new service info starts),
// the decoded key has to be replaced as well before the function returns with
// the reader kept, otherwise the chunks of the new service info go out under
// the key of the previous one. Fields are discovered from the data flow, not
// named.
func c16KeyFollowsRawKey(p *Prog, r *Result) {
	rule := "C16.key-follows-rawkey"
	r.rule(rule, "in ChunkReader.ReadChunk every path from the point where the cached raw key is replaced to a return either decodes it into the cached key that labels the returned chunks or drops the current reader (so a chunk is never labelled with the previous service info's key)")
	r.floor(rule, 1)
	fn := p.ByName["fdo/serviceinfo.ChunkReader.ReadChunk"]
	if fn == nil || len(fn.Params) == 0 {
		r.fail("anchor fdo/serviceinfo.ChunkReader.ReadChunk not found")
		return
	}
	recv := fn.Params[0]
	recvField := func(v ssa.Value) (int, bool) {
		fa, ok := v.(*ssa.FieldAddr)
		if !ok || fa.X != ssa.Value(recv) {
			return 0, false
		}
		return fa.Field, true
	}
	// K: the receiver field whose load is the Key of a returned KV literal
	kField := -1
	for _, b := range fn.Blocks {
		for _, in := range b.Instrs {
			al, ok := in.(*ssa.Alloc)
			if !ok || typeShort(al.Type()) != "*fdo/serviceinfo.KV" && typeShort(al.Type()) != "fdo/serviceinfo.KV" {
				continue
			}
			if kv, has := litFields(al)["Key"]; has {
				if ld, ok := kv.(*ssa.UnOp); ok && ld.Op == token.MUL {
					if i, ok := recvField(ld.X); ok {
						kField = i
					}
				}
			}
		}
	}
	if kField < 0 {
		r.table(p, rule, "key of the returned chunk in "+p.FuncName(fn), p.Pos(fn.Pos()), true, "the key of the returned chunk is not cached in a receiver field: nothing can go stale")
		return
	}
	// decode sinks writing a receiver field: which field, and from which receiver field the input comes
	type fill struct {
		in    ssa.Instruction
		field int
		from  int // receiver field the input is loaded from, or -1
	}
	var fills []fill
	for _, b := range fn.Blocks {
		for _, in := range b.Instrs {
			call, ok := in.(ssa.CallInstruction)
			if !ok {
				continue
			}
			name := p.calleeOf(call.Common()).Name
			if name != "fdo/cbor.Unmarshal" && name != "fdo/cbor.Decoder.Decode" {
				continue
			}
			args := allArgs(call)
			target := args[len(args)-1]
			if mi, ok := target.(*ssa.MakeInterface); ok {
				target = mi.X
			}
			fld, ok := recvField(target)
			if !ok {
				continue
			}
			from := -1
			if name == "fdo/cbor.Unmarshal" {
				v := args[0]
				for {
					if cv, ok := v.(*ssa.Convert); ok {
						v = cv.X
						continue
					}
					if cv, ok := v.(*ssa.ChangeType); ok {
						v = cv.X
						continue
					}
					break
				}
				if ld, ok := v.(*ssa.UnOp); ok && ld.Op == token.MUL {
					if i, ok := recvField(ld.X); ok {
						from = i
					}
				}
			}
			fills = append(fills, fill{in, fld, from})
		}
	}
	rField := -1
	for _, f := range fills {
		if f.field == kField && f.from >= 0 {
			rField = f.from
		}
	}
	if rField < 0 {
		r.table(p, rule, "key of the returned chunk in "+p.FuncName(fn), p.Pos(fn.Pos()), true, "the cached key is decoded directly from the stream, not from cached raw bytes")
		return
	}
	hit := func(in ssa.Instruction) bool {
		for _, f := range fills {
			if f.in == in && f.field == kField && f.from == rField {
				return true
			}
		}
		// the current reader is dropped: nil stored into an interface-typed receiver field
		if st, ok := in.(*ssa.Store); ok {
			if c, isC := st.Val.(*ssa.Const); isC && c.IsNil() {
				if i, ok := recvField(st.Addr); ok {
					if stt := structOf(recv.Type()); stt != nil {
						if _, isIface := stt.Field(i).Type().Underlying().(*types.Interface); isIface {
							return true
						}
					}
				}
			}
		}
		return false
	}
	k := 0
	for _, f := range fills {
		if f.field != rField {
			continue
		}
		k++
		// all paths from just after f.in to a Return must hit
		seen := map[*ssa.BasicBlock]bool{}
		var bad string
		var walk func(b *ssa.BasicBlock, from int, path []string)
		walk = func(b *ssa.BasicBlock, from int, path []string) {
			if bad != "" {
				return
			}
			for i := from; i < len(b.Instrs); i++ {
				if hit(b.Instrs[i]) {
					return
				}
				if ret, ok := b.Instrs[i].(*ssa.Return); ok {
					bad = fmt.Sprintf("return at %s reached via %v", p.instrPos(ret), path)
					return
				}
			}
			for _, s := range b.Succs {
				if seen[s] {
					continue
				}
				seen[s] = true
				walk(s, 0, append(path, p.instrPos(b.Instrs[len(b.Instrs)-1])))
			}
		}
		idx := 0
		for i, in := range f.in.Block().Instrs {
			if in == f.in {
				idx = i + 1
			}
		}
		walk(f.in.Block(), idx, nil)
		detail := "every path to a return decodes the cached key from the new raw key or drops the reader"
		if bad != "" {
			detail = "the raw key is replaced but the cached key is not: " + bad
		}
		r.table(p, rule, fmt.Sprintf("raw key fill #%d in %s", k, p.FuncName(fn)), p.instrPos(f.in), bad == "", detail)
	}
	if k == 0 {
		r.fail("%s: the cached key is decoded from a receiver field that is never filled in ReadChunk", rule)
	}
}

// c16YieldTargetFollowsMessages: the device yields, when no more owner message
// is queued, to the module named by a loop-carried variable. That variable must
// be replaced by the module of the message just received on every way round
// the receive loop; an iteration that leaves it unchanged (e.g. the automatic
// handling of "active") makes the device yield to a stale module, so the data a
// freshly addressed module produces from Yield never reaches the owner.
func c16YieldTargetFollowsMessages(p *Prog, r *Result, f *Flow) {
	rule := "C16.yield-target-follows-messages"
	r.rule(rule, "the loop-carried module name that selects the module to yield to is, on every back edge of the loop that receives owner messages, the module name parsed from the message received in that iteration (never the unchanged previous value)")
	r.floor(rule, 1)
	n := 0
	for _, fn := range f.Order {
		if funcPkgPath(fn) != modulePath {
			continue
		}
		recv := false
		for _, b := range fn.Blocks {
			for _, in := range b.Instrs {
				if c, ok := in.(ssa.CallInstruction); ok && p.calleeOf(c.Common()).Name == "fdo/serviceinfo.UnchunkReader.NextServiceInfo" {
					recv = true
				}
			}
		}
		if !recv {
			continue
		}
		m := f.matcherFor(fn)
		for _, b := range fn.Blocks {
			for _, in := range b.Instrs {
				phi, ok := in.(*ssa.Phi)
				if !ok || !isString(phi.Type()) {
					continue
				}
				// selects the yield target: handed to a callee that reaches DeviceModule.Yield
				selects := false
				for _, ref := range *phi.Referrers() {
					if c, ok := ref.(ssa.CallInstruction); ok {
						if g := p.body(c.Common().StaticCallee()); g != nil && callsNamed(p, g, "fdo/serviceinfo.DeviceModule.Yield") {
							selects = true
						}
					}
				}
				if !selects {
					continue
				}
				for i, e := range phi.Edges {
					if !b.Dominates(b.Preds[i]) {
						continue // not a back edge
					}
					n++
					okv := e != ssa.Value(phi) && m.Prov(e).HasX("call:fdo/serviceinfo.UnchunkReader.NextServiceInfo")
					r.table(p, rule, fmt.Sprintf("back edge #%d of the yield-target variable in %s", n, p.FuncName(fn)), p.instrPos(b.Preds[i].Instrs[len(b.Preds[i].Instrs)-1]), okv,
						fmt.Sprintf("value on this edge: unchanged=%v, derives from the received message=%v", e == ssa.Value(phi), m.Prov(e).HasX("call:fdo/serviceinfo.UnchunkReader.NextServiceInfo")))
				}
			}
		}
	}
}

func isString(t types.Type) bool {
	b, ok := types.Unalias(t).Underlying().(*types.Basic)
	return ok && b.Kind() == types.String
}
