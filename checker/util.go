package main

import (
	"fmt"
	"go/token"
	"sort"
	"strconv"
	"strings"

	"golang.org/x/tools/go/ssa"
)

func joinMax(l []string, n int) string {
	if len(l) > n {
		return strings.Join(l[:n], ", ") + fmt.Sprintf(", … (%d more)", len(l)-n)
	}
	return strings.Join(l, ", ")
}

// intLeaves walks back from v through conversions, arithmetic with constants,
// calls (arguments), loads of local allocs (their stored values) and composite
// values to the set of non-constant integer-typed SSA values it derives from
// whose own definition is not one of those forms (parameters, extracts, phis,
// field loads).
func intLeaves(v ssa.Value) map[ssa.Value]bool {
	out := map[ssa.Value]bool{}
	seen := map[ssa.Value]bool{}
	var walk func(v ssa.Value, depth int)
	walk = func(v ssa.Value, depth int) {
		if v == nil || seen[v] || depth > 24 {
			return
		}
		seen[v] = true
		switch x := v.(type) {
		case *ssa.Const, *ssa.Global, *ssa.Function, *ssa.Builtin:
		case *ssa.Convert:
			walk(x.X, depth+1)
		case *ssa.ChangeType:
			walk(x.X, depth+1)
		case *ssa.MakeInterface:
			walk(x.X, depth+1)
		case *ssa.BinOp:
			walk(x.X, depth+1)
			walk(x.Y, depth+1)
		case *ssa.Call:
			for _, a := range callOperands(x.Common()) {
				walk(a, depth+1)
			}
		case *ssa.Alloc:
			for _, ref := range *x.Referrers() {
				if st, ok := ref.(*ssa.Store); ok && baseAlloc(st.Addr) == x {
					walk(st.Val, depth+1)
				}
			}
			for _, ref := range *x.Referrers() {
				if fa, ok := ref.(*ssa.FieldAddr); ok {
					for _, r2 := range *fa.Referrers() {
						if st, ok := r2.(*ssa.Store); ok && st.Addr == fa {
							walk(st.Val, depth+1)
						}
					}
				}
			}
		case *ssa.UnOp:
			if x.Op == token.MUL {
				if a := baseAlloc(x.X); a != nil {
					walk(a, depth+1)
					return
				}
			}
			if isIntegral(v) {
				out[v] = true
			}
		default:
			if isIntegral(v) {
				out[v] = true
			}
		}
	}
	walk(v, 0)
	return out
}

func isIntegral(v ssa.Value) bool {
	switch t := v.Type().Underlying().(type) {
	case interface{ Info() int }:
		_ = t
	}
	s := v.Type().Underlying().String()
	switch s {
	case "int", "int8", "int16", "int32", "int64", "uint", "uint8", "uint16", "uint32", "uint64", "uintptr":
		return true
	}
	return false
}

func sameValues(a, b map[ssa.Value]bool) bool {
	if len(a) != len(b) {
		return false
	}
	for v := range a {
		if !b[v] {
			return false
		}
	}
	return true
}

func valueNames(m map[ssa.Value]bool) string {
	var l []string
	for v := range m {
		l = append(l, v.Name()+"="+v.String())
	}
	sort.Strings(l)
	return "{" + strings.Join(l, "; ") + "}"
}

// dumpFlow prints the E1 state of the function named by -dump.
func dumpFlow(f *Flow) {
	if debugDump == "" {
		return
	}
	for _, fn := range f.Order {
		if f.P.FuncName(fn) != debugDump {
			continue
		}
		fmt.Printf("== %s ctx=%v\n", debugDump, f.ctx[fn].list())
		for _, b := range fn.Blocks {
			st, ok := f.in[b]
			fmt.Printf(" b%d in=%v reached=%v gen=%v\n", b.Index, st.list(), ok, f.gen[b])
			for _, in := range b.Instrs {
				name := ""
				if v, ok := in.(ssa.Value); ok {
					name = v.Name() + " = "
				}
				fmt.Printf("    %s%s   // %s\n", name, in.String(), f.P.instrPos(in))
				if c, ok := in.(ssa.CallInstruction); ok && debugProv {
					for i, a := range callOperands(c.Common()) {
						fmt.Printf("        arg%d prov=%v\n", i, f.matcherFor(fn).Prov(a).List())
					}
				}
			}
		}
		fmt.Printf(" ctxDyn=%v\n", f.ctxDyn[fn])
		for kind, mm := range f.dyn {
			for k, v := range mm[fn] {
				fmt.Printf(" dyn[%s][%d]=%v\n", kind, k, v)
			}
		}
		for _, b := range fn.Blocks {
			for _, in := range b.Instrs {
				if len(f.exec[in]) > 0 || len(f.kill[in]) > 0 {
					fmt.Printf(" exec@%s gen=%v kill=%v\n", f.P.instrPos(in), f.exec[in], f.kill[in])
				}
			}
		}
		for k, v := range f.sumErr[fn] {
			fmt.Printf(" sumErr[%d]=%v\n", k, v.list())
		}
		for k, v := range f.sumTrue[fn] {
			fmt.Printf(" sumTrue[%d]=%v\n", k, v.list())
		}
	}
}

var debugProv = true

func unquote(s string) (string, error) { return strconv.Unquote(s) }
