package main

import (
	"golang.org/x/tools/go/ssa"
)

// C06 — the rendezvous server registers a redirect only for the voucher's
// current owner.

func init() {
	checks["C06"] = checkC06
	explanations["C06"] = "Structural necessary condition, decided on all CFG/call-graph paths (E1 must-pass analysis): every RendezvousBlobPersistentState.SetRVBlob call reachable from (*TO0Server).Respond is dominated by the passing edges of (a) the to0d-hash comparison, (b) the non-empty entry list test, (c) VerifyEntries err==nil, (d) the comparison of the decoded nonce with Session.TO0SignNonce, (e) the TTL policy (callback nil, or err==nil and ttl!=0) and (f) Sign1.Verify ok && err==nil on the decoded to1d with the key from the decoded voucher's OwnerPublicKey; the stored expiry and the reported WaitSeconds derive from the same ttl value. Not decided: that the hash/signature primitives bind the right bytes, clock correctness."
}

var decoded = hasProv("decoded:")

// decodedX: decoded in this function or handed in / returned as decoded data
// (server-side responders decode once and may pass the parts to helpers).
var decodedX = hasProvX("decoded:")

func c06Rules() *RuleSet {
	sumOf := hasProv("call:hash.Hash.Sum")
	va, vd := voucherAtoms()
	rs := c06Own(sumOf)
	rs.Atoms = append(rs.Atoms, va...)
	rs.Derive = append(rs.Derive, vd...)
	return rs
}

func c06Own(sumOf func(m *Matcher, v ssa.Value) bool) *RuleSet {
	return &RuleSet{
		Atoms: []AtomDef{
			equal("to0d-hash-eq", "hash recomputed over the decoded to0d equals the hash inside the decoded to1d",
				sumOf, provAnd(decodedX, lacksProv("call:hash.Hash.Sum"))),
			executed("to0d-hashed", "the decoded to0d was encoded into the hash that is compared",
				named("fdo/cbor.Encoder.Encode"), func(m *Matcher, call ssa.CallInstruction, args []ssa.Value) bool {
					return m.Prov(args[0]).HasPrefix("call:crypto.Hash.New") && decodedX(m, args[1])
				}),
			nonEmpty("entries-nonempty", "the decoded voucher has at least one entry", decodedX),
			errNil("chain-ok", "VerifyEntries on the decoded voucher returned nil", named("fdo.Voucher.VerifyEntries"),
				func(m *Matcher, _ ssa.CallInstruction, args []ssa.Value) bool { return decodedX(m, args[0]) }),
			errNil("session-nonce-read", "reading the session's TO0 sign nonce succeeded", named("fdo.TO0SessionState.TO0SignNonce"), nil),
			equal("nonce-eq", "decoded nonce equals the nonce stored in this session",
				provAnd(decodedX, lacksProv("call:fdo.TO0SessionState.TO0SignNonce")), hasProvX("call:fdo.TO0SessionState.TO0SignNonce")),
			isNil("ttl-policy", "no AcceptVoucher callback configured", fieldLoad("fdo.TO0Server.AcceptVoucher")),
			errNil("accept-ok", "AcceptVoucher callback returned no error", named("field:fdo.TO0Server.AcceptVoucher"), nil),
			notEqualConst("ttl-nonzero", "the callback's ttl is not zero", 0, resultOfCall(named("field:fdo.TO0Server.AcceptVoucher"), 0)),
			boolTrue("blob-sig-true", "Sign1.Verify on the decoded to1d with the decoded voucher's owner key returned true",
				named("fdo/cose.Sign1.Verify"), 0, c06VerifyArgs),
			errNil("blob-sig-noerr", "that Verify call returned no error", named("fdo/cose.Sign1.Verify"), c06VerifyArgs),
		},
		Derive: []Derivation{
			{"ttl-policy", []Atom{"accept-ok", "ttl-nonzero"}},
			{"blob-sig-ok", []Atom{"blob-sig-true", "blob-sig-noerr"}},
		},
	}
}

func c06VerifyArgs(m *Matcher, _ ssa.CallInstruction, args []ssa.Value) bool {
	if len(args) < 2 {
		return false
	}
	key := m.Prov(args[1])
	return decodedX(m, args[0]) && key.HasX("call:fdo.Voucher.OwnerPublicKey") && key.HasX("decoded:")
}

func checkC06(c *Ctx, p *Prog, r *Result) {
	root := p.ByName["fdo.TO0Server.Respond"]
	if root == nil {
		r.fail("anchor fdo.TO0Server.Respond not found")
		return
	}
	f := NewFlow(p, c06Rules(), []*ssa.Function{root}, nil)
	r.useFlow(f)
	dumpFlow(f)

	r.rule("C06.setrvblob-guarded", "every SetRVBlob reachable from (*TO0Server).Respond requires {to0d-hashed, to0d-hash-eq, entries-nonempty, chain-ok, session-nonce-read, nonce-eq, ttl-policy, blob-sig-ok}")
	r.floor("C06.setrvblob-guarded", 1)
	sites := f.CallSites(func(cal Callee, _ ssa.CallInstruction) bool {
		return cal.Name == "fdo.RendezvousBlobPersistentState.SetRVBlob"
	})
	r.requireAtSites(f, "C06.setrvblob-guarded", sites,
		[]Atom{"to0d-hashed", "to0d-hash-eq", "entries-nonempty", "chain-ok", "session-nonce-read", "nonce-eq", "ttl-policy", "blob-sig-ok"})

	// chain-ok is only as good as VerifyEntries: its success summary must carry the per-entry checks
	voucherVerifierObligations(f, r, "C06", []string{"fdo.Voucher.VerifyEntries"})

	// what is stored is what was checked, and the expiry follows the accepted ttl
	r.rule("C06.stored-args", "the voucher and blob passed to SetRVBlob are the decoded, verified ones; the expiry derives from time.Now and from the accepted ttl (decoded request value or callback result)")
	r.floor("C06.stored-args", 1)
	for _, call := range sites {
		m := f.matcherFor(call.Parent())
		args := allArgs(call)
		ok := len(args) == 5 && decoded(m, args[2]) && decoded(m, args[3])
		exp := ProvSet{}
		if len(args) == 5 {
			exp = m.Prov(args[4])
		}
		ok = ok && exp.Has("call:time.Now") && exp.Has("call:field:fdo.TO0Server.AcceptVoucher") && exp.Has("decoded:")
		r.table(p, "C06.stored-args", siteKey(p, call), p.instrPos(call), ok, "expiry provenance: "+joinMax(exp.List(), 12))
	}

	// reply reports the same ttl
	r.rule("C06.reply-ttl", "in the function that stores the blob, every success return's reply derives from the same ttl SSA value that feeds the expiry")
	r.floor("C06.reply-ttl", 1)
	for _, call := range sites {
		fn := call.Parent()
		m := f.matcherFor(fn)
		args := allArgs(call)
		if len(args) != 5 {
			continue
		}
		expLeaves := intLeaves(args[4])
		for i, sr := range f.successReturns(fn, len(sr0(fn))-1) {
			rep := intLeaves(sr.Ret.Results[0])
			ok := len(expLeaves) > 0 && sameValues(expLeaves, rep)
			_ = m
			r.table(p, "C06.reply-ttl", p.FuncName(fn)+" success return #"+itoa(i), p.instrPos(sr.Ret), ok,
				"expiry leaves="+valueNames(expLeaves)+" reply leaves="+valueNames(rep))
		}
	}
}

func sr0(fn *ssa.Function) []int {
	n := fn.Signature.Results().Len()
	return make([]int, n)
}
