package main

import "golang.org/x/tools/go/ssa"

// C04 — ownership vouchers verify iff untampered; only the current owner can
// extend. Decides the rejection direction: each exported verifier reports
// success only after its comparison passed.

func init() {
	checks["C04"] = checkC04
	explanations["C04"] = "Structural necessary condition (E1 must-pass over the success returns of the exported verifiers): VerifyHeader, VerifyManufacturerKey, VerifyCertChainHash, VerifyDeviceCertChain and VerifyEntries return nil only on paths that passed their comparison (hmac.Equal over recomputed HMAC / key hash / chain hash, x509 Verify, and per entry: Sign1.Verify true && err==nil under the previous owner key, header-hash algorithm equality, header-info hash, previous-entry hash), the entry validator recurses on entries[1:] with the verified entry's key, and ExtendVoucher succeeds only after key-type, size and current-owner-key equality and signs with that signer. Also (E3/G1) no explicit panic reachable from these entry points is control-dependent on voucher content. The chain validator reports success without recursing only when no entry is left. Not decided: that untampered vouchers do verify; bit-level tamper coverage; that hashes cover the right bytes."
}

func checkC04(c *Ctx, p *Prog, r *Result) {
	names := []string{"fdo.Voucher.VerifyHeader", "fdo.Voucher.VerifyManufacturerKey", "fdo.Voucher.VerifyCertChainHash",
		"fdo.Voucher.VerifyDeviceCertChain", "fdo.Voucher.VerifyEntries", "fdo.ExtendVoucher"}
	var roots []*ssa.Function
	for _, n := range names {
		fn := p.ByName[n]
		if fn == nil {
			r.fail("anchor %s not found", n)
			continue
		}
		roots = append(roots, fn)
	}
	va, vd := voucherAtoms()
	f := NewFlow(p, &RuleSet{Atoms: va, Derive: vd}, roots, nil)
	r.useFlow(f)
	dumpFlow(f)
	voucherVerifierObligations(f, r, "C04", names)
	panicObligations(c, p, r, "C04", roots, nil)
}
