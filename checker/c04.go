package main

import (
	"fmt"
	"go/token"

	"golang.org/x/tools/go/ssa"
)

// C04 — ownership vouchers verify iff untampered; only the current owner can
// extend. Decides the rejection direction: each exported verifier reports
// success only after its comparison passed.

func init() {
	checks["C04"] = checkC04
	explanations["C04"] = "Structural necessary condition (E1 must-pass over the success returns of the exported verifiers): VerifyHeader, VerifyManufacturerKey, VerifyCertChainHash, VerifyDeviceCertChain and VerifyEntries return nil only on paths that passed their comparison (hmac.Equal over recomputed HMAC / key hash / chain hash, x509 Verify, and per entry: Sign1.Verify true && err==nil under the previous owner key, header-hash algorithm equality, header-info hash, previous-entry hash), the entry validator recurses on entries[1:] with the verified entry's key, and ExtendVoucher succeeds only after key-type, size and current-owner-key equality and signs with that signer; the extension appends its entry to a slice whose capacity was clipped or that was freshly allocated, never to one sharing the input voucher's backing array (two extensions of one voucher stay independent). Also (E3/G1) no explicit panic reachable from these entry points is control-dependent on voucher content. The chain validator reports success without recursing only when no entry is left. Not decided: that untampered vouchers do verify; bit-level tamper coverage; that hashes cover the right bytes."
}

func checkC04(c *Ctx, p *Prog, r *Result) {
	names := []string{"fdo.Voucher.VerifyHeader", "fdo.Voucher.VerifyManufacturerKey", "fdo.Voucher.VerifyCertChainHash",
		"fdo.Voucher.VerifyDeviceCertChain", "fdo.Voucher.VerifyEntries", "fdo.ExtendVoucher"}
	var roots []*ssa.Function
	for _, n := range names {
		fn := p.ByName[n]
		if fn == nil {
			r.fail("anchor %s not found", n)
			continue
		}
		roots = append(roots, fn)
	}
	va, vd := voucherAtoms()
	f := NewFlow(p, &RuleSet{Atoms: va, Derive: vd}, roots, nil)
	r.useFlow(f)
	dumpFlow(f)
	voucherVerifierObligations(f, r, "C04", names)
	panicObligations(c, p, r, "C04", roots, nil)
	c04ExtensionFresh(p, r)
}

// c04ExtensionFresh — "C04.extension-does-not-alias". A voucher extension
// returns a new voucher and leaves its input as it was; two extensions of one
// voucher are independent. Necessary: wherever library code appends to a slice
// loaded from the field Voucher.Entries, the operand's capacity is cut off first
// (a three-index slice with an explicit maximum, slices.Clip / slices.Clone, or a
// slice made in this function), because a clone that shares the parent's backing
// array lets the second extension overwrite the entry written by the first.
func c04ExtensionFresh(p *Prog, r *Result) {
	rule := "C04.extension-does-not-alias"
	r.rule(rule, "every builtin append whose slice operand is loaded from the field Voucher.Entries, or whose result is stored into that field (library packages), takes an operand whose capacity was clipped or that was freshly allocated: a 3-index slice with max, slices.Clip, slices.Clone, make, or append to a nil/fresh slice — otherwise two extensions of the same voucher share a backing array and the later one overwrites the earlier one's entry")
	var fresh func(v ssa.Value, depth int) bool
	fresh = func(v ssa.Value, depth int) bool {
		if depth > 4 {
			return false
		}
		switch x := v.(type) {
		case *ssa.Slice:
			return x.Max != nil
		case *ssa.MakeSlice:
			return true
		case *ssa.Const:
			return x.IsNil()
		case *ssa.ChangeType:
			return fresh(x.X, depth+1)
		case *ssa.UnOp:
			// loaded from the Entries field of an object that a callee built with
			// a fresh slice in that field (a deep-copying clone helper)
			fa, ok := x.X.(*ssa.FieldAddr)
			if !ok || x.Op != token.MUL {
				return false
			}
			src, ok := fa.X.(*ssa.Call)
			if !ok {
				return false
			}
			cal := p.body(src.Call.StaticCallee())
			if cal == nil {
				return false
			}
			stores := 0
			for _, b := range cal.Blocks {
				for _, in := range b.Instrs {
					st, ok := in.(*ssa.Store)
					if !ok {
						continue
					}
					if fa2, ok := st.Addr.(*ssa.FieldAddr); ok && fieldName(fa2.X.Type(), fa2.Field) == "fdo.Voucher.Entries" {
						stores++
						if !fresh(st.Val, depth+1) {
							return false
						}
					}
				}
			}
			return stores > 0
		case *ssa.Call:
			if b, ok := x.Call.Value.(*ssa.Builtin); ok && b.Name() == "append" && len(x.Call.Args) > 0 {
				return fresh(x.Call.Args[0], depth+1)
			}
			if cal := x.Call.StaticCallee(); cal != nil {
				if o := cal.Origin(); o != nil {
					cal = o
				}
				if cal.Pkg != nil && cal.Pkg.Pkg.Path() == "slices" {
					return cal.Name() == "Clip" || cal.Name() == "Clone"
				}
			}
		}
		return false
	}
	var fromEntries func(v ssa.Value, depth int) bool
	fromEntries = func(v ssa.Value, depth int) bool {
		if depth > 4 {
			return false
		}
		switch x := v.(type) {
		case *ssa.UnOp:
			if fa, ok := x.X.(*ssa.FieldAddr); ok && x.Op == token.MUL {
				return fieldName(fa.X.Type(), fa.Field) == "fdo.Voucher.Entries"
			}
		case *ssa.Field:
			return fieldName(x.X.Type(), x.Field) == "fdo.Voucher.Entries"
		case *ssa.Slice:
			return fromEntries(x.X, depth+1)
		case *ssa.Phi:
			for _, e := range x.Edges {
				if fromEntries(e, depth+1) {
					return true
				}
			}
		case *ssa.ChangeType:
			return fromEntries(x.X, depth+1)
		case *ssa.Call:
			if cal := x.Call.StaticCallee(); cal != nil && len(x.Call.Args) > 0 {
				if o := cal.Origin(); o != nil {
					cal = o
				}
				if cal.Pkg != nil && cal.Pkg.Pkg.Path() == "slices" {
					return fromEntries(x.Call.Args[0], depth+1)
				}
			}
		}
		return false
	}
	seen := map[string]int{}
	for _, fn := range p.Funcs {
		if fn.Pkg == nil || isHarnessPkg(fn.Pkg.Pkg.Path()) || fn.Blocks == nil {
			continue
		}
		for _, b := range fn.Blocks {
			for _, in := range b.Instrs {
				call, ok := in.(*ssa.Call)
				if !ok {
					continue
				}
				bi, ok := call.Call.Value.(*ssa.Builtin)
				if !ok || bi.Name() != "append" || len(call.Call.Args) == 0 {
					continue
				}
				storedToEntries := false
				for _, ref := range *call.Referrers() {
					if st, ok := ref.(*ssa.Store); ok && st.Val == ssa.Value(call) {
						if fa, ok := st.Addr.(*ssa.FieldAddr); ok && fieldName(fa.X.Type(), fa.Field) == "fdo.Voucher.Entries" {
							storedToEntries = true
						}
					}
				}
				if !fromEntries(call.Call.Args[0], 0) && !storedToEntries {
					continue
				}
				construct := "append to Voucher.Entries in " + p.FuncName(fn)
				seen[construct]++
				if seen[construct] > 1 {
					construct = fmt.Sprintf("%s #%d", construct, seen[construct])
				}
				ok2 := fresh(call.Call.Args[0], 0)
				detail := "operand capacity is clipped / freshly allocated"
				if !ok2 {
					detail = "the operand shares the backing array of the voucher it was loaded from (a shallow clone of the input): a second extension of the same voucher overwrites this entry"
				}
				r.table(p, rule, construct, p.instrPos(in), ok2, detail)
			}
		}
	}
	r.floor(rule, 1)
}
