package main

import (
	"fmt"
	"go/token"

	"golang.org/x/tools/go/ssa"
)

// c10PipeBuffer: a function that fills a chunk-in pipe and only afterwards
// reads it back, all in one goroutine, blocks for ever as soon as the number of
// queued readers exceeds the pipe's buffer (every change of key queues one).
// The buffer handed to NewChunkInPipe must therefore be the length of the very
// slice whose elements are written.
func c10PipeBuffer(p *Prog, r *Result, region []*ssa.Function) {
	rule := "C10.pipe-buffer-covers-writes"
	r.rule(rule, "where one function writes every element of a peer-supplied slice into a ChunkInPipe and reads the pipe back afterwards in the same goroutine, the pipe's buffer is len() of that same slice (each key change queues a reader; a smaller buffer blocks the handler for ever on the first message with more key changes)")
	r.floor(rule, 1)
	for _, fn := range region {
		for _, b := range fn.Blocks {
			for _, in := range b.Instrs {
				call, ok := in.(*ssa.Call)
				if !ok || p.calleeOf(call.Common()).Name != "fdo/serviceinfo.NewChunkInPipe" {
					continue
				}
				var rd, wr ssa.Value
				for _, ref := range *call.Referrers() {
					if ex, ok := ref.(*ssa.Extract); ok {
						if ex.Index == 0 {
							rd = ex
						} else {
							wr = ex
						}
					}
				}
				if rd == nil || wr == nil {
					continue
				}
				// all uses of both ends are method calls in this very function
				local := func(v ssa.Value) ([]*ssa.Call, bool) {
					var calls []*ssa.Call
					for _, ref := range *v.Referrers() {
						switch x := ref.(type) {
						case *ssa.Call:
							if len(x.Call.Args) > 0 && x.Call.Args[0] == v && x.Call.StaticCallee() != nil {
								calls = append(calls, x)
								continue
							}
							return nil, false
						case *ssa.DebugRef:
						default:
							return nil, false
						}
					}
					return calls, true
				}
				wcalls, wl := local(wr)
				_, rl := local(rd)
				if !wl || !rl {
					continue // an end is handed to another function or goroutine: the documented buffering bound applies, not this rule
				}
				k := 0
				for _, wc := range wcalls {
					if wc.Call.StaticCallee().Name() != "WriteChunk" {
						continue
					}
					k++
					key := fmt.Sprintf("write #%d into the pipe made in %s", k, p.FuncName(fn))
					// the written element: a load of an element of slice X
					arg := wc.Call.Args[1]
					var slice ssa.Value
					if ld, ok := arg.(*ssa.UnOp); ok && ld.Op == token.MUL {
						if ia, ok := ld.X.(*ssa.IndexAddr); ok {
							slice = ia.X
						}
					}
					if slice == nil {
						r.table(p, rule, key, p.instrPos(wc), false, "the written chunk is not an element of a slice; cannot relate the number of writes to the buffer")
						continue
					}
					okBuf, detail := false, "buffer argument is not len() of the written slice "+canon(slice)
					if lc, ok := call.Call.Args[0].(*ssa.Call); ok {
						if bi, isB := lc.Call.Value.(*ssa.Builtin); isB && bi.Name() == "len" && canon(lc.Call.Args[0]) == canon(slice) {
							okBuf, detail = true, "buffer = len("+canon(slice)+"), the slice whose elements are written"
						}
					}
					r.table(p, rule, key, p.instrPos(wc), okBuf, detail)
				}
			}
		}
	}
}
