package main

import (
	"fmt"
	"go/token"
	"go/types"
	"sort"
	"strings"

	"golang.org/x/tools/go/ssa"
)

// C13 — COSE signatures and MACs verify exactly what was signed, with the
// right key.

func init() {
	checks["C13"] = checkC13
	explanations["C13"] = "Structural necessary conditions: (1) Sign1.Sign and Sign1.Verify hash a structure of the same type with the same constant context and the same source class per field (protected bucket re-serialised from Protected, external AAD from the parameter, payload from the object or the parameter), all fields present on both sides; (2) Sign stores the algorithm id whose hash it uses under AlgLabel in Protected before that bucket is serialised, Verify hashes with the id it parsed from Protected; (3) MacAlgorithm.NewMac is called only from Mac0.Digest (one routine serves creation and verification); (4) RFC8152Signer.Sign writes r and s with FillBytes into the two halves of a buffer of 2n bytes, n from the curve order; (5) Sign1.Verify returns true only as the result of ecdsa.Verify or rsa.VerifyPKCS1v15/VerifyPSS == nil; (6) the ECDSA signature is sliced at n only after len(signature) == 2n was established and the hash is taken only after the algorithm was found registered. (7) a MAC whose Write XOR-accumulates into a state field (AES-CBC-MAC) finalises without copying into, storing to or partially copying that field. Not decided: bit-level unforgeability; leading-zero behaviour at run time."
}

// hashedLiteral finds, in fn, the struct literal that is CBOR-encoded into a
// crypto.Hash (the Sig_structure / MAC_structure).
// c13Region: root plus the unexported functions of its own package that it
// reaches through static calls (two levels): routine refactorings move parts of
// Sign / Verify into such helpers.
func c13Region(p *Prog, root *ssa.Function) []*ssa.Function {
	out := []*ssa.Function{root}
	seen := map[*ssa.Function]bool{root: true}
	frontier := []*ssa.Function{root}
	for depth := 0; depth < 2; depth++ {
		var next []*ssa.Function
		for _, fn := range frontier {
			for _, ed := range p.CallGraph().out[fn] {
				g := ed.Callee
				if ed.Kind != "static" || seen[g] || funcPkgPath(g) != funcPkgPath(root) {
					continue
				}
				if n := g.Name(); n == "" || (n[0] >= 'A' && n[0] <= 'Z') {
					continue // exported API is analysed under its own name
				}
				seen[g] = true
				out = append(out, g)
				next = append(next, g)
			}
		}
		frontier = next
	}
	return out
}

func hashedLiteral(p *Prog, root *ssa.Function) (*ssa.Alloc, ssa.CallInstruction) {
	for _, fn := range c13Region(p, root) {
		if al, call := hashedLiteralIn(p, fn); al != nil {
			return al, call
		}
	}
	return nil, nil
}

func hashedLiteralIn(p *Prog, fn *ssa.Function) (*ssa.Alloc, ssa.CallInstruction) {
	m := p.matcher(fn)
	for _, b := range fn.Blocks {
		for _, in := range b.Instrs {
			call, ok := in.(ssa.CallInstruction)
			if !ok || p.calleeOf(call.Common()).Name != "fdo/cbor.Encoder.Encode" {
				continue
			}
			args := allArgs(call)
			if !m.Prov(args[0]).HasPrefix("call:crypto.Hash.New") {
				continue
			}
			if al := baseAlloc(loadOrSelf(stripConv(args[1]))); al != nil && len(litFields(al)) > 0 {
				return al, call
			}
		}
	}
	return nil, nil
}

func c13FieldClass(m *Matcher, v ssa.Value) string {
	pv := m.Prov(v)
	var cls []string
	if c, ok := stripConv(v).(*ssa.Const); ok && c.Value != nil {
		return "const " + c.Value.ExactString()
	}
	if pv.Has("field:fdo/cose.Header.Protected") {
		cls = append(cls, "protected-bucket")
	}
	if pv.Has("field:fdo/cose.Sign1.Payload") {
		cls = append(cls, "object-payload")
	}
	for i, prm := range m.Fn.Params {
		if pv.Has("param:" + itoa(i)) {
			switch prm.Name() {
			case "additionalData", "aad":
				cls = append(cls, "aad-param")
			case "payload":
				cls = append(cls, "payload-param")
			}
		}
	}
	sort.Strings(cls)
	return strings.Join(cls, "+")
}

func checkC13(c *Ctx, p *Prog, r *Result) {
	get := func(n string) *ssa.Function {
		fn := p.ByName[n]
		if fn == nil {
			r.fail("anchor %s not found", n)
		}
		return fn
	}
	sign, verify := get("fdo/cose.Sign1.Sign"), get("fdo/cose.Sign1.Verify")
	if sign == nil || verify == nil {
		return
	}
	r.Functions["fdo/cose.Sign1.Sign"], r.Functions["fdo/cose.Sign1.Verify"] = true, true

	// (1) same Sig_structure
	r.rule("C13.sig-structure", "Sign and Verify encode into the hash a literal of the same struct type with the same fields, the same constant context string and the same source class per field")
	r.floor("C13.sig-structure", 1)
	sl, _ := hashedLiteral(p, sign)
	vl, _ := hashedLiteral(p, verify)
	if sl == nil || vl == nil {
		r.fail("C13.sig-structure: hashed structure literal not found in Sign (%v) / Verify (%v)", sl != nil, vl != nil)
	} else {
		sf, vf := litFields(sl), litFields(vl)
		ms, mv := p.matcher(sl.Parent()), p.matcher(vl.Parent())
		sameType := typeShort(sl.Type()) == typeShort(vl.Type())
		nFields := sl.Type().Underlying().(*types.Pointer).Elem().Underlying().(*types.Struct).NumFields()
		ok := sameType && len(sf) == nFields && len(vf) == nFields
		var detail []string
		for _, n := range sortedKeys(sf) {
			cs, cv := c13FieldClass(ms, sf[n]), "<missing>"
			if v, has := vf[n]; has {
				cv = c13FieldClass(mv, v)
			}
			// the payload may come from the object or from the parameter on either side
			norm := func(s string) string {
				return strings.ReplaceAll(strings.ReplaceAll(s, "object-payload+payload-param", "payload"), "object-payload", "payload")
			}
			if norm(cs) != norm(cv) || cs == "" {
				ok = false
			}
			detail = append(detail, fmt.Sprintf("%s: sign=%s verify=%s", n, cs, cv))
		}
		r.table(p, "C13.sig-structure", "Sign1.Sign vs Sign1.Verify", p.Pos(sl.Pos()), ok, strings.Join(detail, "; "))
	}

	// (2) algorithm id bound into the protected bucket
	rs := &RuleSet{Atoms: []AtomDef{
		{Name: "alg-stored", Doc: "the algorithm id was stored under AlgLabel in the protected header map", ExecAny: func(m *Matcher, in ssa.Instruction) bool {
			mu, ok := in.(*ssa.MapUpdate)
			if !ok {
				return false
			}
			return m.Prov(mu.Key).Has("global:fdo/cose.AlgLabel") && m.Prov(mu.Map).Has("field:fdo/cose.Header.Protected") && m.Prov(mu.Value).Has("call:fdo/cose.SignatureAlgorithmFor")
		}},
		errNil("alg-parsed", "the algorithm id was parsed from the protected header without error", named("fdo/cose.HeaderMap.Parse"),
			func(m *Matcher, _ ssa.CallInstruction, args []ssa.Value) bool {
				return m.Prov(args[0]).Has("field:fdo/cose.Header.Protected") && m.Prov(args[1]).Has("global:fdo/cose.AlgLabel")
			}),
		boolTrue("alg-present", "the protected header contains an algorithm id", named("fdo/cose.HeaderMap.Parse"), 0, nil),
		AtomDef{Name: "alg-registered", Doc: "the parsed algorithm id was found in the signature algorithm registry", Edge: func(m *Matcher, pd Pred, holds bool) bool {
			if pd.Kind != "bool" || !holds {
				return false
			}
			ex, ok := pd.X.(*ssa.Extract)
			if !ok || ex.Index != 1 {
				return false
			}
			lk, ok := ex.Tuple.(*ssa.Lookup)
			return ok && lk.CommaOk && m.Prov(lk.X).Has("global:fdo/cose.sigAlgorithms") && m.Prov(lk.Index).HasX("decoded:")
		}},
		AtomDef{Name: "payload-param-nil", Doc: "no detached payload was given to Verify", Edge: func(m *Matcher, pd Pred, holds bool) bool {
			if pd.Kind != "nil" || !holds {
				return false
			}
			pr, ok := pd.X.(*ssa.Parameter)
			return ok && pr.Name() == "payload"
		}},
		AtomDef{Name: "payload-overridden", Doc: "the detached payload given to Verify replaced the object's payload", ExecAny: func(m *Matcher, in ssa.Instruction) bool {
			st, ok := in.(*ssa.Store)
			if !ok {
				return false
			}
			fa, ok := st.Addr.(*ssa.FieldAddr)
			if !ok || fieldName(fa.X.Type(), fa.Field) != "fdo/cose.Sign1.Payload" {
				return false
			}
			pv := m.Prov(st.Val)
			for i, prm := range m.Fn.Params {
				if prm.Name() == "payload" && pv.Has("param:"+itoa(i)) {
					return true
				}
			}
			return false
		}},
		boolTrue("hash-available", "the algorithm's hash is linked into the binary", named("crypto.Hash.Available"), 0, nil),
		AtomDef{Name: "siglen-eq-2n", Doc: "len(signature) == 2n with n from the verifying key's curve order", Edge: func(m *Matcher, pd Pred, holds bool) bool {
			if pd.Kind != "eq" || !holds {
				return false
			}
			x, y := pd.X, pd.Y
			if lenOf(m, x) == nil {
				x, y = y, x
			}
			l := lenOf(m, x)
			if l == nil || !m.Prov(l).HasX("field:fdo/cose.Sign1.Signature") {
				return false
			}
			bo, ok := y.(*ssa.BinOp)
			return ok && bo.Op == token.MUL && (isConstInt(bo.X, 2) || isConstInt(bo.Y, 2)) && m.Prov(y).Has("call:math/big.Int.BitLen")
		}},
	}}
	rs.Derive = append(rs.Derive, Derivation{"payload-bound", []Atom{"payload-param-nil"}}, Derivation{"payload-bound", []Atom{"payload-overridden"}})
	inRegion := func(root *ssa.Function) func(g *ssa.Function) bool {
		reg := map[*ssa.Function]bool{}
		for _, fn := range c13Region(p, root) {
			reg[fn] = true
		}
		return func(g *ssa.Function) bool { return !reg[g] }
	}
	fs := NewFlow(p, rs, []*ssa.Function{sign}, inRegion(sign))
	r.useFlow(fs)
	r.rule("C13.alg-bound", "Sign: the protected bucket is serialised only after the algorithm id (the result of SignatureAlgorithmFor, whose HashFunc is used) was stored under AlgLabel; Verify: the hash is taken from the id parsed from Protected, after it was found present, registered and available")
	r.floor("C13.alg-bound", 3)
	if sl != nil {
		if bp, ok := litFields(sl)["BodyProtected"]; ok {
			if call, _ := fs.matcherFor(sign).CallResult(bp); call != nil {
				r.requireAtSites(fs, "C13.alg-bound", []ssa.CallInstruction{call}, []Atom{"alg-stored"})
			} else {
				r.fail("C13.alg-bound: BodyProtected of Sign is not a call result")
			}
		}
	}
	for _, call := range fs.CallSites(func(cal Callee, _ ssa.CallInstruction) bool {
		return cal.Name == "fdo/cose.SignatureAlgorithm.HashFunc"
	}) {
		m := fs.matcherFor(sign)
		r.table(p, "C13.alg-bound", "hash of Sign "+siteKey(p, call), p.instrPos(call), m.Prov(allArgs(call)[0]).Has("call:fdo/cose.SignatureAlgorithmFor"), "HashFunc receiver is the SignatureAlgorithmFor result")
	}
	fv := NewFlow(p, rs, []*ssa.Function{verify}, inRegion(verify))
	r.useFlow(fv)
	dumpFlow(fv)
	hf := fv.CallSites(func(cal Callee, _ ssa.CallInstruction) bool {
		return cal.Name == "fdo/cose.SignatureAlgorithm.HashFunc"
	})
	r.requireAtSites(fv, "C13.alg-bound", hf, []Atom{"alg-parsed", "alg-present", "alg-registered"})
	for _, call := range hf {
		r.table(p, "C13.alg-bound", "hash of Verify "+siteKey(p, call), p.instrPos(call), decodedX(fv.matcherFor(call.Parent()), allArgs(call)[0]), "HashFunc receiver is the id parsed from the protected header")
	}
	r.rule("C13.detached-payload-binds", "Verify hashes the structure only on paths where no detached payload was given or the given payload replaced the object's own (a verifier-supplied payload is never ignored)")
	r.floor("C13.detached-payload-binds", 1)
	if _, call := hashedLiteral(p, verify); call != nil {
		r.requireAtSites(fv, "C13.detached-payload-binds", []ssa.CallInstruction{call}, []Atom{"payload-bound"})
	}
	r.rule("C13.hash-available", "Verify creates the hash only after Hash.Available() was true")
	r.floor("C13.hash-available", 1)
	r.requireAtSites(fv, "C13.hash-available", fv.CallSites(func(cal Callee, _ ssa.CallInstruction) bool { return cal.Name == "crypto.Hash.New" }), []Atom{"hash-available"})

	// (6) signature slicing guarded
	r.rule("C13.sig-slicing-guarded", "every slice of the Signature field in Verify happens after len(Signature) == 2n")
	r.floor("C13.sig-slicing-guarded", 2)
	k := 0
	for _, vfn := range fv.Order {
		mv := fv.matcherFor(vfn)
		for _, b := range vfn.Blocks {
			for _, in := range b.Instrs {
				sl, ok := in.(*ssa.Slice)
				if !ok || !mv.Prov(sl.X).HasX("field:fdo/cose.Sign1.Signature") || (sl.Low == nil && sl.High == nil) {
					continue
				}
				k++
				st := fv.StateAt(sl)
				o := Obl{Rule: "C13.sig-slicing-guarded", Construct: fmt.Sprintf("C13.sig-slicing-guarded | slice #%d of Signature in fdo/cose.Sign1.Verify", k), Pos: p.instrPos(in), Config: p.Config.Name,
					Required: []string{"siglen-eq-2n"}, Found: st.list(), OK: st.Has("siglen-eq-2n")}
				if !o.OK {
					o.Missing = []string{"siglen-eq-2n"}
					o.Detail = r.explain(fv, vfn, b, o.Missing)
				}
				r.add(o)
			}
		}
	}

	// (3) one MAC routine
	r.rule("C13.one-mac-routine", "MacAlgorithm.NewMac is called only from Mac0.Digest, which both creation and verification use")
	r.floor("C13.one-mac-routine", 1)
	// the caller is Mac0.Digest, or an unexported helper of package cose that is
	// itself reachable only from Mac0.Digest
	var onlyFromDigest func(fn *ssa.Function, depth int) bool
	onlyFromDigest = func(fn *ssa.Function, depth int) bool {
		if p.FuncName(fn) == "fdo/cose.Mac0.Digest" {
			return true
		}
		n := fn.Name()
		if depth > 3 || funcPkgPath(fn) != modulePath+"/cose" || n == "" || (n[0] >= 'A' && n[0] <= 'Z') {
			return false
		}
		callers := 0
		for _, ed := range p.CallGraph().in[fn] {
			if isHarnessPkg(funcPkgPath(ed.Caller)) {
				continue
			}
			if ed.Kind != "static" || !onlyFromDigest(ed.Caller, depth+1) {
				return false
			}
			callers++
		}
		return callers > 0
	}
	for _, call := range p.callsTo("fdo/cose.MacAlgorithm.NewMac") {
		r.table(p, "C13.one-mac-routine", siteKey(p, call), p.instrPos(call), onlyFromDigest(call.Parent(), 0), "caller "+p.FuncName(call.Parent()))
	}

	// (3b) block-MAC state: zero padding of the last block must not erase the chaining state
	c13MacState(p, r)

	// (4) RFC 8152 fixed-width encoding
	if rf := get("fdo/cose.RFC8152Signer.Sign"); rf != nil {
		r.Functions["fdo/cose.RFC8152Signer.Sign"] = true
		r.rule("C13.rfc8152-encoding", "RFC8152Signer.Sign (or the unexported helper it hands the two integers to) allocates 2n bytes (n from the curve order) and writes R into [:n] and S into [n:] with FillBytes")
		r.floor("C13.rfc8152-encoding", 1)
		var buf *ssa.MakeSlice
		var fills []string
		okFill := true
		for _, fn := range c13Region(p, rf) {
			m := p.matcher(fn)
			nOK := func(v ssa.Value) bool { return v != nil && m.Prov(v).HasX("call:math/big.Int.BitLen") }
			var fbuf *ssa.MakeSlice
			for _, b := range fn.Blocks {
				for _, in := range b.Instrs {
					if ms, ok := in.(*ssa.MakeSlice); ok {
						if bo, ok := ms.Len.(*ssa.BinOp); ok && bo.Op == token.MUL && (isConstInt(bo.Y, 2) || isConstInt(bo.X, 2)) && nOK(ms.Len) {
							fbuf = ms
						}
					}
				}
			}
			if fbuf == nil {
				continue
			}
			buf = fbuf
			// which integer a receiver is: a load of field R / S, or a parameter
			// that the single caller fills from such a load
			recvName := func(v ssa.Value) string {
				if f := fieldOfLoad(v); f != "" {
					return f[strings.LastIndex(f, ".")+1:]
				}
				pr, ok := v.(*ssa.Parameter)
				if !ok {
					return "?"
				}
				pi := -1
				for k, q := range fn.Params {
					if q == pr {
						pi = k
					}
				}
				for _, ed := range p.CallGraph().in[fn] {
					cs, ok := ed.Site.(ssa.CallInstruction)
					if !ok || ed.Kind != "static" {
						continue
					}
					ops := callOperands(cs.Common())
					if pi < len(ops) {
						if f := fieldOfLoad(ops[pi]); f != "" {
							return f[strings.LastIndex(f, ".")+1:]
						}
					}
				}
				return "?"
			}
			for _, b := range fn.Blocks {
				for _, in := range b.Instrs {
					call, ok := in.(*ssa.Call)
					if !ok || p.calleeOf(call.Common()).Name != "math/big.Int.FillBytes" {
						continue
					}
					args := allArgs(call)
					sl, ok := args[1].(*ssa.Slice)
					if !ok || sl.X != ssa.Value(buf) {
						okFill = false
						continue
					}
					half := ""
					switch {
					case sl.Low == nil && nOK(sl.High):
						half = "[:n]"
					case sl.High == nil && nOK(sl.Low):
						half = "[n:]"
					default:
						okFill = false
					}
					fills = append(fills, recvName(args[0])+half)
				}
			}
		}
		sort.Strings(fills)
		r.table(p, "C13.rfc8152-encoding", "fdo/cose.RFC8152Signer.Sign", p.Pos(rf.Pos()), buf != nil && okFill && strings.Join(fills, ",") == "R[:n],S[n:]", "fills="+strings.Join(fills, ","))
	}

	// (5) true only from the primitives
	r.rule("C13.true-from-primitives", "Sign1.Verify returns true only as the result of ecdsa.Verify or of rsa.VerifyPKCS1v15 / rsa.VerifyPSS == nil")
	r.floor("C13.true-from-primitives", 3)
	var checkRet func(fn *ssa.Function, depth int)
	checkRet = func(fn *ssa.Function, depth int) {
		m := p.matcher(fn)
		for i, b := range fn.Blocks {
			ret, ok := b.Instrs[len(b.Instrs)-1].(*ssa.Return)
			if !ok || b == fn.Recover {
				continue
			}
			v := returnValue(ret, 0)
			if provablyFalse(v) {
				continue
			}
			what, ok2 := "", false
			if n, idx, call := m.ResultOf(v); call != nil && idx == 0 {
				switch {
				case n == "crypto/ecdsa.Verify":
					what, ok2 = "ecdsa.Verify", true
				case p.body(call.Common().StaticCallee()) != nil && depth < 2:
					what, ok2 = "delegates to "+n, true
					checkRet(p.body(call.Common().StaticCallee()), depth+1)
				default:
					what = "call " + n
				}
			} else if bo, ok := v.(*ssa.BinOp); ok && bo.Op == token.EQL {
				n, _, call := m.ResultOf(bo.X)
				if c, isC := bo.Y.(*ssa.Const); call != nil && isC && c.IsNil() && (n == "crypto/rsa.VerifyPKCS1v15" || n == "crypto/rsa.VerifyPSS") {
					what, ok2 = n+" == nil", true
				}
			}
			r.table(p, "C13.true-from-primitives", fmt.Sprintf("return #%d of %s", i, p.FuncName(fn)), p.instrPos(ret), ok2, what)
		}
	}
	checkRet(verify, 0)
}

// c13MacState: in every hash implementation of package cose whose Write
// accumulates message bytes into a state field by XOR (state[i] ^= b — the CBC-MAC
// shape, where the field also holds the previous cipher block), Sum may change
// that field only by encrypting it in place: zero padding is the identity under
// XOR, so any copy into / store to the state in Sum erases chaining state and
// makes the tag independent of earlier blocks.
func c13MacState(p *Prog, r *Result) {
	rule := "C13.mac-state-preserved"
	r.rule(rule, "a MAC whose Write XOR-accumulates message bytes into a state field finalises (Sum) without copying into or storing to that field, and any working copy of it is a full copy: the zero padding of a partial last block leaves the chaining state untouched")
	r.floor(rule, 1)
	for _, wr := range p.Funcs {
		if funcPkgPath(wr) != modulePath+"/cose" || wr.Name() != "Write" || wr.Signature.Recv() == nil {
			continue
		}
		// state fields: stores of an XOR into an element of a receiver field
		fields := map[string]bool{}
		for _, b := range wr.Blocks {
			for _, in := range b.Instrs {
				st, ok := in.(*ssa.Store)
				if !ok {
					continue
				}
				bo, ok := st.Val.(*ssa.BinOp)
				if !ok || bo.Op != token.XOR {
					continue
				}
				ia, ok := st.Addr.(*ssa.IndexAddr)
				if !ok {
					continue
				}
				if fa, ok := loadOf(ia.X).(*ssa.FieldAddr); ok {
					fields[fieldName(fa.X.Type(), fa.Field)] = true
				}
			}
		}
		if len(fields) == 0 {
			continue
		}
		recv := typeShort(wr.Signature.Recv().Type())
		sum := p.ByName[recv+".Sum"]
		if sum == nil {
			r.table(p, rule, "Sum of "+recv, p.Pos(wr.Pos()), false, "type XOR-accumulates in Write but has no Sum method: undecided")
			continue
		}
		var bad []string
		baseField := func(v ssa.Value) string {
			for {
				switch x := v.(type) {
				case *ssa.Slice:
					v = x.X
					continue
				case *ssa.IndexAddr:
					v = x.X
					continue
				}
				break
			}
			if fa, ok := loadOf(v).(*ssa.FieldAddr); ok {
				return fieldName(fa.X.Type(), fa.Field)
			}
			return ""
		}
		for _, b := range sum.Blocks {
			for _, in := range b.Instrs {
				switch x := in.(type) {
				case *ssa.Store:
					if fields[baseField(x.Addr)] {
						bad = append(bad, "store into the state at "+p.instrPos(in))
					}
				case *ssa.Call:
					if bi, ok := x.Call.Value.(*ssa.Builtin); ok && (bi.Name() == "copy" || bi.Name() == "clear") && fields[baseField(x.Call.Args[0])] {
						bad = append(bad, bi.Name()+" into the state at "+p.instrPos(in))
					}
					// a working copy of the state must be a full copy
					if bi, ok := x.Call.Value.(*ssa.Builtin); ok && bi.Name() == "copy" && len(x.Call.Args) == 2 && fields[baseField(x.Call.Args[1])] {
						if sl, ok := x.Call.Args[1].(*ssa.Slice); ok && (sl.High != nil || sl.Low != nil) {
							bad = append(bad, "partial copy of the state ("+sl.String()+") at "+p.instrPos(in))
						}
					}
				}
			}
		}
		r.Functions[p.FuncName(sum)] = true
		r.table(p, rule, "Sum of "+recv, p.Pos(sum.Pos()), len(bad) == 0, strings.Join(bad, "; "))
	}
}
