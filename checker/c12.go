package main

import (
	"fmt"
	"go/token"
	"go/types"
	"strings"

	"golang.org/x/tools/go/ssa"
)

// C12 — CBOR decoding of arbitrary bytes is total, bounded and exact.

func init() {
	checks["C12"] = checkC12
	explanations["C12"] = "Structural necessary conditions over everything reachable from cbor.Unmarshal, (*Decoder).Decode, ArrayShift and the convention types' unmarshalers (codec dispatch edges added by hand), every input byte treated as attacker-controlled: (1) G2: each allocation whose size derives from a wire head is dominated by an upper-bound comparison (MaxArrayDecodeLength) whose failing edge returns an error; (2) Unmarshal returns success only after buf.Len() > 0 was false (no trailing bytes), and a byte-string wrapper (Bstr, ByteWrap) reports success only after the reader limited to the declared length was found exhausted; (3) G1: every explicit panic is an SSA artifact, type-shape dependent, exhaustive-switch fallthrough or by-construction (reviewed table), with the head-byte helpers' invariants checked; (4) G3/G4: index/slice expressions the compiler could not prove and stdlib preconditions are guarded; (5) allocations proportional to a CLAIMED rather than a received length are enumerated — they pass clause 1 (bounded by the documented limit) but contradict the property's last sentence, and are carried as known findings. Also (who-may-call): package cbor takes bytes from a reader only with io.ReadFull, a Read into a one-byte array, or through a limited reader; ReadAtLeast/ReadAll/Copy* do not fix the number of bytes consumed. Also: a multiplication of a peer-controlled unsigned 64-bit value by a constant is dominated by an upper bound on it (wrap-around before the length limit); today's decodeLen violates this for map heads and is a known finding. Not decided: termination, exact consumption of a well-formed item, reflect-internal panics, stack depth."
}

func checkC12(c *Ctx, p *Prog, r *Result) {
	var extra []*ssa.Function
	rootNames := []string{"fdo/cbor.Unmarshal", "fdo/cbor.Decoder.Decode", "fdo/cbor.ArrayShift"}
	for _, fn := range p.Funcs {
		if fn.Signature.Recv() == nil || funcPkgPath(fn) != modulePath+"/cbor" {
			continue
		}
		switch fn.Name() {
		case "UnmarshalCBOR", "UnmarshalCBORStream":
			extra = append(extra, fn)
		}
	}
	e := newE3(p, r, rootNames, extra)
	inCbor := func(fn *ssa.Function) bool {
		return strings.HasPrefix(funcPkgPath(fn), modulePath+"/cbor") && !strings.HasSuffix(funcPkgPath(fn), "/cdn")
	}
	// restrict to the codec itself: other packages' unmarshalers are judged under C10
	var order []*ssa.Function
	for _, fn := range e.order {
		if inCbor(fn) {
			order = append(order, fn)
		}
	}
	e.order = order
	e.g1(r, "C12")
	f := NewFlow(p, e3Rules(p), e.roots, func(fn *ssa.Function) bool { return !inCbor(fn) })
	e.g2(r, "C12", f)
	e.g3(r, "C12", f, c.Repo)
	e.g4(r, "C12", f)
	r.floor("C12.panics", 8)
	r.floor("C12.alloc-bounded", 10)
	r.floor("C12.bounds", 4)

	// (2) trailing data
	um := p.ByName["fdo/cbor.Unmarshal"]
	if um == nil {
		r.fail("anchor fdo/cbor.Unmarshal not found")
		return
	}
	rs := &RuleSet{Atoms: []AtomDef{
		errNil("decoded-ok", "the single item was decoded without error", named("fdo/cbor.Decoder.Decode"), nil),
		{Name: "no-trailing", Doc: "buf.Len() > 0 is false (or buf.Len() == 0 is true) after decoding", Edge: func(m *Matcher, pd Pred, holds bool) bool {
			isLen := func(v ssa.Value) bool {
				n, _, call := m.ResultOf(v)
				return call != nil && n == "bytes.Buffer.Len"
			}
			switch pd.Kind {
			case "lt": // 0 < Len is false
				return !holds && isConstInt(pd.X, 0) && isLen(pd.Y)
			case "eq": // Len == 0 is true
				return holds && ((isConstInt(pd.Y, 0) && isLen(pd.X)) || (isConstInt(pd.X, 0) && isLen(pd.Y)))
			case "le": // Len <= 0 is true
				return holds && isConstInt(pd.Y, 0) && isLen(pd.X)
			}
			return false
		}},
	}}
	fu := NewFlow(p, rs, []*ssa.Function{um}, func(g *ssa.Function) bool { return g != um })
	r.rule("C12.no-trailing-data", "cbor.Unmarshal returns nil only after Decode succeeded and buf.Len() > 0 was false")
	r.floor("C12.no-trailing-data", 1)
	r.requireAtReturns(fu, "C12.no-trailing-data", um, 0, []Atom{"decoded-ok", "no-trailing"})

	// (2b) a byte string that wraps an item is consumed in full
	c12WrappedItemConsumed(p, r)
	c12KindRestricted(p, r)
	c12ExactReads(p, r)

	// head helpers invariants behind two reviewed panics
	r.rule("C12.head-bytes", "the additional-bytes buffer is made with a constant size of 1, 2, 4 or 8 (so toU64 never sees more than 8 bytes)")
	r.floor("C12.head-bytes", 4)
	for _, fn := range e.order {
		hasRead := false
		for _, b := range fn.Blocks {
			for _, in := range b.Instrs {
				if call, ok := in.(ssa.CallInstruction); ok && p.calleeOf(call.Common()).Name == "io.ReadFull" {
					hasRead = true
				}
			}
		}
		if !hasRead || fn.Signature.Results().Len() != 4 {
			continue
		}
		k := 0
		for _, b := range fn.Blocks {
			for _, in := range b.Instrs {
				ms, ok := in.(*ssa.MakeSlice)
				if ok {
					k++
					c, isC := constInt(ms.Len)
					r.table(p, "C12.head-bytes", fmt.Sprintf("make #%d in %s", k, p.FuncName(fn)), p.instrPos(in), isC && (c == 1 || c == 2 || c == 4 || c == 8), fmt.Sprintf("size=%d", c))
				}
				if al, ok := in.(*ssa.Alloc); ok && strings.HasPrefix(al.Type().String(), "*[") && strings.HasSuffix(al.Type().String(), "]byte") && al.Comment == "makeslice" {
					k++
					n := knownLen(p.matcher(fn), &ssa.Slice{X: al})
					r.table(p, "C12.head-bytes", fmt.Sprintf("make #%d in %s", k, p.FuncName(fn)), p.instrPos(in), n == 1 || n == 2 || n == 4 || n == 8, fmt.Sprintf("size=%d", n))
				}
			}
		}
	}

	// byte-string wrappers decode their content from a reader limited to the announced length
	r.rule("C12.bstr-bounded", "in every unmarshaler that unwraps a byte-string head, the inner decoder reads from io.LimitReader(r, n) and direct reads fill a buffer of exactly n bytes (a wrapped item can never consume bytes beyond its byte string)")
	r.floor("C12.bstr-bounded", 4)
	for _, fn := range e.order {
		var unwrap ssa.CallInstruction
		for _, b := range fn.Blocks {
			for _, in := range b.Instrs {
				if call, ok := in.(ssa.CallInstruction); ok && p.calleeOf(call.Common()).Name == "fdo/cbor.Decoder.UnwrapBytes" {
					unwrap = call
				}
			}
		}
		if unwrap == nil || fn.Name() != "UnmarshalCBORStream" {
			continue
		}
		m := p.matcher(fn)
		for _, b := range fn.Blocks {
			for _, in := range b.Instrs {
				call, ok := in.(ssa.CallInstruction)
				if !ok || !instrBefore(unwrap, call) || call == unwrap {
					continue
				}
				switch p.calleeOf(call.Common()).Name {
				case "fdo/cbor.NewDecoder":
					r.table(p, "C12.bstr-bounded", siteKey(p, call), p.instrPos(call), limitedByUnwrap(m, call.Common().Args[0]), "inner decoder's reader is io.LimitReader(_, n) / &io.LimitedReader{N: n} with n from UnwrapBytes")
				case "io.ReadFull":
					buf := call.Common().Args[1]
					ok2 := limitedByUnwrap(m, call.Common().Args[0])
					if ms, isMake := buf.(*ssa.MakeSlice); isMake {
						ok2 = ok2 || m.Prov(ms.Len).Has("call:fdo/cbor.Decoder.UnwrapBytes")
					}
					r.table(p, "C12.bstr-bounded", siteKey(p, call), p.instrPos(call), ok2, "ReadFull fills a buffer made with exactly the announced length")
				}
			}
		}
	}

	// (5) claimed-length allocations
	c12ClaimedLength(e, p, r, f)
	c12MulBounded(e, p, r, f)
}

// c12ClaimedLength enumerates allocations sized by a length the input claims.
func c12ClaimedLength(e *E3, p *Prog, r *Result, f *Flow) {
	rule := "C12.alloc-proportional"
	r.rule(rule, "no allocation in the decoder is sized by a length taken from a wire head before that many items/bytes were actually read (the property's last sentence); sites that are are known findings, any new one is a violation")
	r.floor(rule, 5)
	for _, fn := range e.order {
		if !f.Region[fn] {
			continue
		}
		m := f.matcherFor(fn)
		check := func(in ssa.Instruction, size ssa.Value, what string) {
			if size == nil || !e.t.Is(size) || lenDerived(m, size, 0) || narrowBounded(m, size, 0) {
				return
			}
			// the site is named after the function that reads the length off
			// the wire: when the size arrives as a parameter (the allocation was
			// moved into a helper) the finding belongs to the callers
			owners := []*ssa.Function{fn}
			if prm, isParam := intRootNoVar(size).(*ssa.Parameter); isParam {
				idx := -1
				for i, q := range fn.Params {
					if q == prm {
						idx = i
					}
				}
				var callers []*ssa.Function
				for _, ed := range p.CallGraph().in[fn] {
					if ed.Kind == "static" && f.Region[ed.Caller] && ed.Caller != fn && idx >= 0 {
						callers = append(callers, ed.Caller)
					}
				}
				if len(callers) > 0 {
					sortFuncs(p, callers)
					owners = callers
				}
			}
			seenOwner := map[*ssa.Function]bool{}
			for _, owner := range owners {
				if seenOwner[owner] {
					continue
				}
				seenOwner[owner] = true
				construct := fmt.Sprintf("%s in %s", what, p.FuncName(owner))
				k := 1
				for r.hasConstruct(rule, construct) {
					k++
					construct = fmt.Sprintf("%s #%d in %s", what, k, p.FuncName(owner))
				}
				detail := "sized by a claimed length (bounded by the decode limit, but allocated before the data is read)"
				if owner != fn {
					detail += "; the allocation itself is in " + p.FuncName(fn) + ", which receives the length as a parameter"
				}
				r.table(p, rule, construct, p.instrPos(in), false, detail)
			}
		}
		for _, b := range fn.Blocks {
			for _, in := range b.Instrs {
				switch x := in.(type) {
				case *ssa.MakeSlice:
					check(in, x.Len, "make")
				case ssa.CallInstruction:
					args := allArgs(x)
					switch n := p.calleeOf(x.Common()).Name; n {
					case "reflect.MakeSlice":
						check(in, args[1], n)
					case "reflect.Value.Grow", "reflect.Value.SetLen":
						check(in, args[1], n)
					}
				}
			}
		}
	}
}

// c12WrappedItemConsumed: a decoder that reads the item wrapped in a byte
// string through a length-limited reader must find that reader exhausted before
// it reports success; otherwise the rest of the byte string is parsed as the
// items that follow it (a truncated or tampered input decodes).
func c12WrappedItemConsumed(p *Prog, r *Result) {
	rule := "C12.wrapped-item-consumed"
	r.rule(rule, "every function of package cbor that decodes an item through a reader limited to a decoded byte-string length reports success only after that limited reader was found exhausted (its remaining count compared with 0), or reads exactly that many bytes with io.ReadFull")
	r.floor(rule, 2)
	exhausted := AtomDef{Name: "limit-exhausted", Doc: "the limited reader's remaining count is 0", Edge: func(m *Matcher, pd Pred, holds bool) bool {
		if pd.Kind != "eq" || !holds {
			return false
		}
		for _, pr := range [][2]ssa.Value{{pd.X, pd.Y}, {pd.Y, pd.X}} {
			if !isConstInt(pr[1], 0) {
				continue
			}
			if ld, ok := pr[0].(*ssa.UnOp); ok && ld.Op == token.MUL {
				if fa, ok := ld.X.(*ssa.FieldAddr); ok && fieldName(fa.X.Type(), fa.Field) == "io.LimitedReader.N" {
					return true
				}
			}
		}
		return false
	}}
	n := 0
	for _, fn := range p.Funcs {
		if funcPkgPath(fn) != modulePath+"/cbor" {
			continue
		}
		// does fn create a limited reader?
		limited := false
		for _, b := range fn.Blocks {
			for _, in := range b.Instrs {
				switch x := in.(type) {
				case *ssa.Call:
					if p.calleeOf(x.Common()).Name == "io.LimitReader" {
						limited = true
					}
				case *ssa.Alloc:
					if typeShort(x.Type()) == "*io.LimitedReader" || typeShort(x.Type()) == "io.LimitedReader" {
						limited = true
					}
				}
			}
		}
		if !limited {
			continue
		}
		f := NewFlow(p, &RuleSet{Atoms: []AtomDef{exhausted}}, []*ssa.Function{fn}, func(g *ssa.Function) bool { return g != fn })
		for _, b := range fn.Blocks {
			for _, in := range b.Instrs {
				call, ok := in.(*ssa.Call)
				if !ok || p.calleeOf(call.Common()).Name != "fdo/cbor.Decoder.Decode" {
					continue
				}
				// the decoder reads from the limited reader
				nd, ok := allArgs(call)[0].(*ssa.Call)
				if !ok || p.calleeOf(nd.Common()).Name != "fdo/cbor.NewDecoder" {
					continue
				}
				src := nd.Call.Args[0]
				for {
					if mi, ok := src.(*ssa.MakeInterface); ok {
						src = mi.X
						continue
					}
					if ci, ok := src.(*ssa.ChangeInterface); ok {
						src = ci.X
						continue
					}
					break
				}
				isLimited := false
				switch x := src.(type) {
				case *ssa.Call:
					isLimited = p.calleeOf(x.Common()).Name == "io.LimitReader"
				case *ssa.Alloc:
					isLimited = typeShort(x.Type()) == "*io.LimitedReader" || typeShort(x.Type()) == "io.LimitedReader"
				}
				if !isLimited {
					continue
				}
				// every return reachable from this call with a possibly-nil error needs the fact
				seen := map[*ssa.BasicBlock]bool{}
				var walk func(bb *ssa.BasicBlock)
				walk = func(bb *ssa.BasicBlock) {
					if seen[bb] {
						return
					}
					seen[bb] = true
					if ret, ok := bb.Instrs[len(bb.Instrs)-1].(*ssa.Return); ok {
						st := f.StateAt(ret)
						errv := returnValue(ret, len(ret.Results)-1)
						if !provablyNonNil(p, errv, st, 0) {
							n++
							r.table(p, rule, fmt.Sprintf("return #%d after the wrapped decode in %s", n, p.FuncName(fn)), p.instrPos(ret), st.Has("limit-exhausted"), "success requires the limited reader to be exhausted")
						}
						return
					}
					for _, s := range bb.Succs {
						walk(s)
					}
				}
				walk(b)
			}
		}
	}
}

// limitedByUnwrap: v is a reader limited to the byte count that UnwrapBytes
// returned: io.LimitReader(_, n) or a literal &io.LimitedReader{N: n}.
func limitedByUnwrap(m *Matcher, v ssa.Value) bool {
	for {
		if mi, ok := v.(*ssa.MakeInterface); ok {
			v = mi.X
			continue
		}
		if ci, ok := v.(*ssa.ChangeInterface); ok {
			v = ci.X
			continue
		}
		break
	}
	switch x := v.(type) {
	case *ssa.Call:
		if m.P.calleeOf(x.Common()).Name == "io.LimitReader" {
			return m.Prov(x.Call.Args[1]).Has("call:fdo/cbor.Decoder.UnwrapBytes")
		}
	case *ssa.Alloc:
		if typeShort(x.Type()) != "*io.LimitedReader" && typeShort(x.Type()) != "io.LimitedReader" {
			return false
		}
		if n, has := litFields(x)["N"]; has {
			return m.Prov(n).Has("call:fdo/cbor.Decoder.UnwrapBytes")
		}
	}
	return false
}

// c12KindRestricted: the codec's range-check helpers switch over a reflect.Kind
// and panic for a kind they have no case for. Every call must therefore be
// reached only on paths that established `kind == c` for a c the callee
// handles (a switch in the caller, or a pure bool helper around one): the
// caller's paths to the call are enumerated with the kind comparisons as
// boolean atoms.
func c12KindRestricted(p *Prog, r *Result) {
	rule := "C12.kind-restricted"
	r.rule(rule, "a helper that switches over a reflect.Kind parameter and panics for any other kind is called only on paths where the caller compared that very kind value equal to one of the kinds the helper handles (path enumeration over the caller, pure bool helpers evaluated through their own paths)")
	r.floor(rule, 2)
	n := 0
	for _, callee := range p.Funcs {
		if funcPkgPath(callee) != modulePath+"/cbor" || len(callee.Blocks) == 0 {
			continue
		}
		// a reflect.Kind parameter compared with constants, and a panic in the function
		kindParam := -1
		for i, prm := range callee.Params {
			if typeShort(prm.Type()) == "reflect.Kind" {
				kindParam = i
			}
		}
		if kindParam < 0 {
			continue
		}
		cases := map[int64]bool{}
		hasPanic := false
		for _, b := range callee.Blocks {
			for _, in := range b.Instrs {
				switch x := in.(type) {
				case *ssa.Panic:
					hasPanic = true
				case *ssa.BinOp:
					if x.Op == token.EQL && x.X == ssa.Value(callee.Params[kindParam]) {
						if c, ok := constInt(x.Y); ok {
							cases[c] = true
						}
					}
				}
			}
		}
		if !hasPanic || len(cases) == 0 {
			continue
		}
		for _, ed := range p.CallGraph().in[callee] {
			call, ok := ed.Site.(*ssa.Call)
			if !ok || ed.Kind != "static" {
				continue
			}
			caller := ed.Caller
			kindArg := call.Call.Args[kindParam]
			n++
			key := fmt.Sprintf("call #%d of %s in %s", n, p.FuncName(callee), p.FuncName(caller))
			e := newBoolPaths(p)
			paths, bad := 0, ""
			var resolve func(v ssa.Value, st *bpState, d int) ssa.Value
			resolve = func(v ssa.Value, st *bpState, d int) ssa.Value {
				if prm, ok := v.(*ssa.Parameter); ok && d < 4 {
					if b, ok := st.bind[prm]; ok {
						return resolve(b, st, d+1)
					}
				}
				return v
			}
			e.walk(caller, caller.Blocks[0], &bpState{env: map[ssa.Value]bool{}, pred: map[*ssa.BasicBlock]*ssa.BasicBlock{}, bind: map[*ssa.Parameter]ssa.Value{}}, map[*ssa.BasicBlock]bool{},
				func(b *ssa.BasicBlock) bool { return b == call.Block() },
				func(b *ssa.BasicBlock, st *bpState) {
					paths++
					if bad != "" {
						return
					}
					okPath := false
					for v, val := range st.env {
						bo, isB := v.(*ssa.BinOp)
						if !isB || !val || bo.Op != token.EQL {
							continue
						}
						c, isC := constInt(bo.Y)
						if isC && resolve(bo.X, st, 0) == kindArg && cases[c] {
							okPath = true
						}
					}
					if !okPath {
						bad = strings.Join(st.path, " ")
					}
				})
			switch {
			case e.blown:
				r.fail("%s: path budget exhausted in %s", rule, p.FuncName(caller))
			case paths == 0:
				r.fail("%s: no acyclic path reaches %s", rule, key)
			default:
				detail := fmt.Sprintf("%d paths reach the call, each after comparing the kind equal to one of the %d kinds the helper handles", paths, len(cases))
				if bad != "" {
					detail = "a path reaches the call without restricting the kind to the helper's cases: " + bad
				}
				r.table(p, rule, key, p.instrPos(call), bad == "", detail)
			}
		}
	}
}

// c12ExactReads — "C12.exact-reads". An item is consumed exactly when every
// read of the decoder takes a number of bytes fixed before the read: the one
// initial byte, or io.ReadFull into a buffer. A reader primitive that may return
// after fewer or take more bytes than asked (ReadAtLeast with a larger buffer,
// ReadAll, Copy, a bare Read into a longer buffer) mis-frames what follows.
func c12ExactReads(p *Prog, r *Result) {
	rule := "C12.exact-reads"
	r.rule(rule, "in package cbor every byte taken from an io.Reader is taken by io.ReadFull, by a Read into a one-byte buffer (the initial byte), or through io.LimitReader/io.LimitedReader; io.ReadAtLeast, io.ReadAll, io.Copy*, and Read into longer buffers do not fix the number of bytes consumed and are not allowed")
	r.floor(rule, 4)
	pkg := modulePath + "/cbor"
	seen := map[string]int{}
	for _, fn := range p.Funcs {
		if funcPkgPath(fn) != pkg || fn.Blocks == nil {
			continue
		}
		for _, b := range fn.Blocks {
			for _, in := range b.Instrs {
				call, ok := in.(ssa.CallInstruction)
				if !ok {
					continue
				}
				cc := call.Common()
				name, okv, detail := "", false, ""
				if cc.IsInvoke() {
					if cc.Method.Name() != "Read" || cc.Method.Pkg() == nil || cc.Method.Pkg().Path() != "io" {
						continue
					}
					name = "io.Reader.Read"
					if sl, ok := cc.Args[0].(*ssa.Slice); ok {
						if pt, ok := sl.X.Type().Underlying().(*types.Pointer); ok {
							if at, ok := pt.Elem().Underlying().(*types.Array); ok && at.Len() == 1 && sl.Low == nil && sl.High == nil {
								okv, detail = true, "Read into a one-byte array"
							}
						}
					}
					if !okv {
						detail = "a bare Read may return fewer bytes than the buffer holds; only the one-byte initial read is allowed"
					}
				} else {
					cal := cc.StaticCallee()
					if cal == nil || cal.Pkg == nil || cal.Pkg.Pkg.Path() != "io" {
						continue
					}
					switch cal.Name() {
					case "ReadFull":
						name, okv, detail = "io.ReadFull", true, "reads exactly len(buffer) bytes or fails"
					case "ReadAtLeast", "ReadAll", "Copy", "CopyN", "CopyBuffer":
						name, okv, detail = "io."+cal.Name(), false, "does not fix the number of bytes consumed from the decoder's reader"
					default:
						continue
					}
				}
				construct := name + " in " + p.FuncName(fn)
				seen[construct]++
				if seen[construct] > 1 {
					construct = fmt.Sprintf("%s #%d", construct, seen[construct])
				}
				r.table(p, rule, construct, p.instrPos(in), okv, detail)
			}
		}
	}
}

// c12MulBounded — "C12.length-mul-bounded". The limit on a declared length is
// worth only what the arithmetic before it leaves intact: a peer-controlled
// unsigned value that is multiplied before it was compared with an upper bound
// can wrap around and pass the limit (a map head of 2^63 pairs doubles to 0).
func c12MulBounded(e *E3, p *Prog, r *Result, f *Flow) {
	rule := "C12.length-mul-bounded"
	r.rule(rule, "in package cbor every multiplication of a peer-controlled unsigned 64-bit value by a constant is dominated by an upper bound on that value (<= 2^24), so that it cannot wrap around before the length limit is applied")
	r.floor(rule, 1)
	for _, fn := range e.order {
		if !f.Region[fn] || funcPkgPath(fn) != modulePath+"/cbor" {
			continue
		}
		k := 0
		for _, b := range fn.Blocks {
			for _, in := range b.Instrs {
				bo, ok := in.(*ssa.BinOp)
				if !ok || bo.Op != token.MUL || !isUnsigned(bo) {
					continue
				}
				x, c := bo.X, bo.Y
				if _, isC := constInt(x); isC {
					x, c = c, x
				}
				if _, isC := constInt(c); !isC || !e.t.Is(x) {
					continue
				}
				if bt, ok := bo.Type().Underlying().(*types.Basic); !ok || (bt.Kind() != types.Uint64 && bt.Kind() != types.Uint && bt.Kind() != types.Uintptr) {
					continue
				}
				k++
				construct := fmt.Sprintf("unsigned multiplication #%d in %s", k, p.FuncName(fn))
				st := f.StateAt(bo)
				okv := st.Has(Atom("v:ub:" + canon(x)))
				detail := "operand bounded above before the multiplication"
				if !okv {
					detail = "peer-controlled " + canon(x) + " is multiplied before any upper bound on it: the product can wrap around and pass the length limit"
				}
				r.table(p, rule, construct, p.instrPos(in), okv, detail)
			}
		}
	}
}
