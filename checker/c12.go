package main

import (
	"fmt"
	"strings"

	"golang.org/x/tools/go/ssa"
)

// C12 — CBOR decoding of arbitrary bytes is total, bounded and exact.

func init() {
	checks["C12"] = checkC12
	explanations["C12"] = "Structural necessary conditions over everything reachable from cbor.Unmarshal, (*Decoder).Decode, ArrayShift and the convention types' unmarshalers (codec dispatch edges added by hand), every input byte treated as attacker-controlled: (1) G2: each allocation whose size derives from a wire head is dominated by an upper-bound comparison (MaxArrayDecodeLength) whose failing edge returns an error; (2) Unmarshal returns success only after buf.Len() > 0 was false (no trailing bytes); (3) G1: every explicit panic is an SSA artifact, type-shape dependent, exhaustive-switch fallthrough or by-construction (reviewed table), with the head-byte helpers' invariants checked; (4) G3/G4: index/slice expressions the compiler could not prove and stdlib preconditions are guarded; (5) allocations proportional to a CLAIMED rather than a received length are enumerated — they pass clause 1 (bounded by the documented limit) but contradict the property's last sentence, and are carried as known findings. Not decided: termination, exact consumption of a well-formed item, reflect-internal panics, stack depth."
}

func checkC12(c *Ctx, p *Prog, r *Result) {
	var extra []*ssa.Function
	rootNames := []string{"fdo/cbor.Unmarshal", "fdo/cbor.Decoder.Decode", "fdo/cbor.ArrayShift"}
	for _, fn := range p.Funcs {
		if fn.Signature.Recv() == nil || funcPkgPath(fn) != modulePath+"/cbor" {
			continue
		}
		switch fn.Name() {
		case "UnmarshalCBOR", "UnmarshalCBORStream":
			extra = append(extra, fn)
		}
	}
	e := newE3(p, r, rootNames, extra)
	inCbor := func(fn *ssa.Function) bool {
		return strings.HasPrefix(funcPkgPath(fn), modulePath+"/cbor") && !strings.HasSuffix(funcPkgPath(fn), "/cdn")
	}
	// restrict to the codec itself: other packages' unmarshalers are judged under C10
	var order []*ssa.Function
	for _, fn := range e.order {
		if inCbor(fn) {
			order = append(order, fn)
		}
	}
	e.order = order
	e.g1(r, "C12")
	f := NewFlow(p, e3Rules(p), e.roots, func(fn *ssa.Function) bool { return !inCbor(fn) })
	e.g2(r, "C12", f)
	e.g3(r, "C12", f, c.Repo)
	e.g4(r, "C12", f)
	r.floor("C12.panics", 8)
	r.floor("C12.alloc-bounded", 10)
	r.floor("C12.bounds", 4)

	// (2) trailing data
	um := p.ByName["fdo/cbor.Unmarshal"]
	if um == nil {
		r.fail("anchor fdo/cbor.Unmarshal not found")
		return
	}
	rs := &RuleSet{Atoms: []AtomDef{
		errNil("decoded-ok", "the single item was decoded without error", named("fdo/cbor.Decoder.Decode"), nil),
		{Name: "no-trailing", Doc: "buf.Len() > 0 is false after decoding", Edge: func(m *Matcher, pd Pred, holds bool) bool {
			if pd.Kind != "lt" || holds || !isConstInt(pd.X, 0) {
				return false
			}
			n, _, call := m.ResultOf(pd.Y)
			return call != nil && n == "bytes.Buffer.Len"
		}},
	}}
	fu := NewFlow(p, rs, []*ssa.Function{um}, func(g *ssa.Function) bool { return g != um })
	r.rule("C12.no-trailing-data", "cbor.Unmarshal returns nil only after Decode succeeded and buf.Len() > 0 was false")
	r.floor("C12.no-trailing-data", 1)
	r.requireAtReturns(fu, "C12.no-trailing-data", um, 0, []Atom{"decoded-ok", "no-trailing"})

	// head helpers invariants behind two reviewed panics
	r.rule("C12.head-bytes", "the additional-bytes buffer is made with a constant size of 1, 2, 4 or 8 (so toU64 never sees more than 8 bytes)")
	r.floor("C12.head-bytes", 4)
	for _, fn := range e.order {
		hasRead := false
		for _, b := range fn.Blocks {
			for _, in := range b.Instrs {
				if call, ok := in.(ssa.CallInstruction); ok && p.calleeOf(call.Common()).Name == "io.ReadFull" {
					hasRead = true
				}
			}
		}
		if !hasRead || fn.Signature.Results().Len() != 4 {
			continue
		}
		k := 0
		for _, b := range fn.Blocks {
			for _, in := range b.Instrs {
				ms, ok := in.(*ssa.MakeSlice)
				if ok {
					k++
					c, isC := constInt(ms.Len)
					r.table(p, "C12.head-bytes", fmt.Sprintf("make #%d in %s", k, p.FuncName(fn)), p.instrPos(in), isC && (c == 1 || c == 2 || c == 4 || c == 8), fmt.Sprintf("size=%d", c))
				}
				if al, ok := in.(*ssa.Alloc); ok && strings.HasPrefix(al.Type().String(), "*[") && strings.HasSuffix(al.Type().String(), "]byte") && al.Comment == "makeslice" {
					k++
					n := knownLen(p.matcher(fn), &ssa.Slice{X: al})
					r.table(p, "C12.head-bytes", fmt.Sprintf("make #%d in %s", k, p.FuncName(fn)), p.instrPos(in), n == 1 || n == 2 || n == 4 || n == 8, fmt.Sprintf("size=%d", n))
				}
			}
		}
	}

	// byte-string wrappers decode their content from a reader limited to the announced length
	r.rule("C12.bstr-bounded", "in every unmarshaler that unwraps a byte-string head, the inner decoder reads from io.LimitReader(r, n) and direct reads fill a buffer of exactly n bytes (a wrapped item can never consume bytes beyond its byte string)")
	r.floor("C12.bstr-bounded", 4)
	for _, fn := range e.order {
		var unwrap ssa.CallInstruction
		for _, b := range fn.Blocks {
			for _, in := range b.Instrs {
				if call, ok := in.(ssa.CallInstruction); ok && p.calleeOf(call.Common()).Name == "fdo/cbor.Decoder.UnwrapBytes" {
					unwrap = call
				}
			}
		}
		if unwrap == nil || fn.Name() != "UnmarshalCBORStream" {
			continue
		}
		m := p.matcher(fn)
		for _, b := range fn.Blocks {
			for _, in := range b.Instrs {
				call, ok := in.(ssa.CallInstruction)
				if !ok || !instrBefore(unwrap, call) || call == unwrap {
					continue
				}
				switch p.calleeOf(call.Common()).Name {
				case "fdo/cbor.NewDecoder":
					pv := m.Prov(call.Common().Args[0])
					r.table(p, "C12.bstr-bounded", siteKey(p, call), p.instrPos(call), pv.Has("call:io.LimitReader") && pv.Has("call:fdo/cbor.Decoder.UnwrapBytes"), "inner decoder's reader derives from io.LimitReader(_, n) with n from UnwrapBytes")
				case "io.ReadFull":
					buf := call.Common().Args[1]
					rd := m.Prov(call.Common().Args[0])
					ok2 := rd.Has("call:io.LimitReader") && rd.Has("call:fdo/cbor.Decoder.UnwrapBytes")
					if ms, isMake := buf.(*ssa.MakeSlice); isMake {
						ok2 = ok2 || m.Prov(ms.Len).Has("call:fdo/cbor.Decoder.UnwrapBytes")
					}
					r.table(p, "C12.bstr-bounded", siteKey(p, call), p.instrPos(call), ok2, "ReadFull fills a buffer made with exactly the announced length")
				}
			}
		}
	}

	// (5) claimed-length allocations
	c12ClaimedLength(e, p, r, f)
}

// c12ClaimedLength enumerates allocations sized by a length the input claims.
func c12ClaimedLength(e *E3, p *Prog, r *Result, f *Flow) {
	rule := "C12.alloc-proportional"
	r.rule(rule, "no allocation in the decoder is sized by a length taken from a wire head before that many items/bytes were actually read (the property's last sentence); sites that are are known findings, any new one is a violation")
	r.floor(rule, 5)
	for _, fn := range e.order {
		if !f.Region[fn] {
			continue
		}
		m := f.matcherFor(fn)
		check := func(in ssa.Instruction, size ssa.Value, what string) {
			if size == nil || !e.t.Is(size) || lenDerived(m, size, 0) || narrowBounded(m, size, 0) {
				return
			}
			construct := fmt.Sprintf("%s in %s", what, p.FuncName(fn))
			k := 1
			for r.hasConstruct(rule, construct) {
				k++
				construct = fmt.Sprintf("%s #%d in %s", what, k, p.FuncName(fn))
			}
			r.table(p, rule, construct, p.instrPos(in), false, "sized by a claimed length (bounded by the decode limit, but allocated before the data is read)")
		}
		for _, b := range fn.Blocks {
			for _, in := range b.Instrs {
				switch x := in.(type) {
				case *ssa.MakeSlice:
					check(in, x.Len, "make")
				case ssa.CallInstruction:
					args := allArgs(x)
					switch n := p.calleeOf(x.Common()).Name; n {
					case "reflect.MakeSlice":
						check(in, args[1], n)
					case "reflect.Value.Grow", "reflect.Value.SetLen":
						check(in, args[1], n)
					}
				}
			}
		}
	}
}
