package main

// E3 / G6 — dereferences of decoded pointers.
//
// The CBOR decoder stores nil into a pointer-typed target when the wire item
// is null (0xf6) or undefined. Every pointer the peer can make nil that way —
// a pointer-typed exported field of a decoded struct, an element of a decoded
// slice of pointers — must therefore be compared with nil before it is
// dereferenced.
//
// Two facts are propagated to a fixed point over the wire-reachable region:
//
//	D  "decoded data": the value points into, or was copied out of, memory the
//	   decoder filled from peer-controlled bytes (targets of the decode sinks
//	   whose input is peer-tainted). Flows through address arithmetic, loads of
//	   pointer-holding types, conversions, phis, stores (alloc-level for
//	   locals; field-name-level for objects of unknown origin), append,
//	   arguments -> parameters, results.
//	N  "may be nil": a pointer-typed load out of D memory through an exported
//	   field, an element or a map lookup; flows like D, except that an edge,
//	   store, argument or return that already holds a non-nil fact for the
//	   value does not propagate it.
//
// Sinks: FieldAddr / load / IndexAddr through an N pointer, and calls of
// non-module methods with an N receiver. Discharge: the must-state at the sink
// holds nn:<value> or v:nn:<canonical location> (false edge of `p == nil`).

import (
	"fmt"
	"go/token"
	"go/types"
	"sort"
	"strings"

	"golang.org/x/tools/go/ssa"
)

type nilAn struct {
	e         *E3
	f         *Flow
	dvals     map[ssa.Value]bool
	dallocs   map[*ssa.Alloc]bool
	dfields   map[string]bool
	drets     map[*ssa.Function]map[int]bool
	nvals     map[ssa.Value]string // may-nil pointer (or container of may-nil pointers) -> origin
	nallocs   map[*ssa.Alloc]string
	nfields   map[string]string
	nrets     map[*ssa.Function]map[int]string
	ptrMemo   map[types.Type]bool
	hasCaller map[*ssa.Function]bool
	// stored: "<interface>.<Name>|<type>" for every persistent-state setter
	// Set<Name> that some region code calls with decoder-filled data of that
	// type: the getter <Name> hands the same data back in a later request
	stored  map[string]bool
	changed bool
}

func isPtrLike(t types.Type) bool {
	p, ok := t.Underlying().(*types.Pointer)
	if !ok {
		return false
	}
	if _, tp := types.Unalias(p.Elem()).(*types.TypeParam); tp {
		return true
	}
	_, iface := p.Elem().Underlying().(*types.Interface)
	return !iface
}

// deepPtr: the type contains, at any depth, a pointer to a non-interface type
// (only such data can carry a decoder-produced nil pointer).
func (n *nilAn) deepPtr(t types.Type) bool {
	if v, ok := n.ptrMemo[t]; ok {
		return v
	}
	n.ptrMemo[t] = false // cycle cut
	res := false
	switch u := t.Underlying().(type) {
	case *types.Pointer:
		res = isPtrLike(t) || n.deepPtr(u.Elem())
	case *types.Slice:
		res = n.deepPtr(u.Elem())
	case *types.Array:
		res = n.deepPtr(u.Elem())
	case *types.Map:
		res = n.deepPtr(u.Elem())
	case *types.Struct:
		for i := 0; i < u.NumFields(); i++ {
			if n.deepPtr(u.Field(i).Type()) {
				res = true
				break
			}
		}
	case *types.Interface:
		res = true // `any` may hold anything
	}
	n.ptrMemo[t] = res
	return res
}

func deref(t types.Type) types.Type {
	if p, ok := t.Underlying().(*types.Pointer); ok {
		return p.Elem()
	}
	return t
}

func (n *nilAn) markD(v ssa.Value) {
	if v == nil || n.dvals[v] {
		return
	}
	if _, isConst := v.(*ssa.Const); isConst {
		return
	}
	n.dvals[v] = true
	n.changed = true
}

func (n *nilAn) markN(v ssa.Value, origin string) {
	if v == nil {
		return
	}
	if _, ok := n.nvals[v]; ok {
		return
	}
	if _, isConst := v.(*ssa.Const); isConst {
		return
	}
	n.nvals[v] = origin
	n.changed = true
}

// unknownOrigin: the root object of an address chain is a parameter, free
// variable or global (field-name-level facts apply only to those).
func rootOf(addr ssa.Value) ssa.Value {
	for v := addr; v != nil; {
		switch x := v.(type) {
		case *ssa.FieldAddr:
			v = x.X
		case *ssa.IndexAddr:
			v = x.X
		case *ssa.Slice:
			v = x.X
		case *ssa.ChangeType:
			v = x.X
		case *ssa.UnOp:
			if x.Op == token.MUL {
				v = x.X
				continue
			}
			return v
		default:
			return v
		}
	}
	return nil
}

func (n *nilAn) unknownOrigin(root ssa.Value) bool {
	switch x := root.(type) {
	case *ssa.Global:
		return true
	case *ssa.FreeVar:
		return false // bound at the closure creation site, which is analysed
	case *ssa.Parameter:
		// parameters of functions all of whose callers are analysed receive
		// their facts from the call sites; only entry points (no analysed
		// caller) fall back to field-name-level facts
		if v, ok := n.hasCaller[x.Parent()]; ok {
			return !v
		}
		has := false
		for _, ed := range n.e.p.CallGraph().in[x.Parent()] {
			if n.e.region[ed.Caller] && ed.Kind != "closure" {
				has = true
				break
			}
		}
		n.hasCaller[x.Parent()] = has
		return !has
	}
	return false
}

func firstField(addr ssa.Value) string {
	for v := addr; v != nil; {
		switch x := v.(type) {
		case *ssa.FieldAddr:
			return fieldName(x.X.Type(), x.Field)
		case *ssa.IndexAddr:
			v = x.X
		case *ssa.Slice:
			v = x.X
		case *ssa.UnOp:
			if x.Op == token.MUL {
				v = x.X
				continue
			}
			return ""
		default:
			return ""
		}
	}
	return ""
}

// decodedMem: addr lies in decoder-filled memory.
func (n *nilAn) decodedMem(addr ssa.Value) bool {
	for v := addr; v != nil; {
		if n.dvals[v] {
			return true
		}
		switch x := v.(type) {
		case *ssa.Alloc:
			return n.dallocs[x]
		case *ssa.FieldAddr:
			// the decoder fills exported fields only; unexported ones hold
			// what the library's own code stored (tracked by the N facts)
			if st, _ := deref(x.X.Type()).Underlying().(*types.Struct); st != nil && !st.Field(x.Field).Exported() {
				return false
			}
			v = x.X
		case *ssa.IndexAddr:
			v = x.X
		case *ssa.Slice:
			v = x.X
		case *ssa.ChangeType:
			v = x.X
		case *ssa.UnOp:
			if x.Op == token.MUL {
				v = x.X
				continue
			}
			return false
		default:
			if n.unknownOrigin(v) {
				return n.dfields[firstField(addr)]
			}
			return false
		}
	}
	return false
}

// storeD: decoded data is stored at addr.
func (n *nilAn) storeD(addr ssa.Value) {
	switch root := rootOf(addr).(type) {
	case *ssa.Alloc:
		if !n.dallocs[root] {
			n.dallocs[root] = true
			n.changed = true
		}
	case nil:
	default:
		if n.unknownOrigin(root) {
			if f := firstField(addr); f != "" && !n.dfields[f] {
				n.dfields[f] = true
				n.changed = true
			}
			return
		}
		n.markD(root)
	}
}

func (n *nilAn) storeN(addr ssa.Value, origin string) {
	switch root := rootOf(addr).(type) {
	case *ssa.Alloc:
		if _, ok := n.nallocs[root]; !ok {
			n.nallocs[root] = origin
			n.changed = true
		}
	case nil:
	default:
		// stored through a pointer (parameter, receiver, call result): the
		// object is shared with whoever else holds it, so the fact is kept
		// per field name
		if f := firstField(addr); f != "" {
			if _, ok := n.nfields[f]; !ok {
				n.nfields[f] = origin
				n.changed = true
			}
			return
		}
		if !isPtrLike(root.Type()) {
			n.markN(root, origin) // a slice value whose elements may be nil
		}
	}
}

// loadN: a pointer loaded from addr may be nil because a may-nil pointer was stored there.
func (n *nilAn) loadN(addr ssa.Value) (string, bool) {
	for v := addr; v != nil; {
		if o, ok := n.nvals[v]; ok && !isPtrLike(v.Type()) {
			return o, true // container known to hold may-nil elements
		}
		switch x := v.(type) {
		case *ssa.Alloc:
			if o, ok := n.nallocs[x]; ok {
				return o, true
			}
			// the spill slot of a parameter (captured by a closure / address
			// taken): the object behind it is the caller's
			if spillOfParam(x) {
				o, ok := n.nfields[firstField(addr)]
				return o, ok
			}
			return "", false
		case *ssa.FieldAddr:
			v = x.X
		case *ssa.IndexAddr:
			v = x.X
		case *ssa.Slice:
			v = x.X
		case *ssa.ChangeType:
			v = x.X
		case *ssa.UnOp:
			if x.Op == token.MUL {
				v = x.X
				continue
			}
			return "", false
		case *ssa.Parameter, *ssa.FreeVar, *ssa.Global:
			o, ok := n.nfields[firstField(addr)]
			return o, ok
		default:
			return "", false
		}
	}
	return "", false
}

func (n *nilAn) nonNilAt(in ssa.Instruction, v ssa.Value) bool {
	switch v.(type) {
	case *ssa.Alloc, *ssa.FieldAddr, *ssa.IndexAddr, *ssa.MakeSlice, *ssa.MakeMap, *ssa.MakeClosure:
		return true
	}
	st := n.f.StateAt(in)
	return st.Has(Atom("nn:"+v.Name())) || st.Has(Atom("v:nn:"+canon(v)))
}

func (n *nilAn) nonNilOnEdge(pred, b *ssa.BasicBlock, v ssa.Value) bool {
	st, ok := n.f.edgeSt[[2]*ssa.BasicBlock{pred, b}]
	if !ok {
		return true // edge never taken in the analysed region
	}
	st = n.f.close(st)
	return st.Has(Atom("nn:"+v.Name())) || st.Has(Atom("v:nn:"+canon(v)))
}

// callees: in-region module bodies a call may reach (static, CHA, function values).
func (n *nilAn) callees(call ssa.CallInstruction) []*ssa.Function {
	var out []*ssa.Function
	for _, ed := range n.e.p.CallGraph().out[call.Parent()] {
		if ed.Site != call.(ssa.Instruction) || ed.Kind == "closure" {
			continue
		}
		if ed.Kind == "codec" || ed.Kind == "invoke" {
			if nm := ed.Callee.Name(); (nm == "UnmarshalCBOR" || nm == "UnmarshalCBORStream" || nm == "UnmarshalBinary") &&
				ed.Callee.Signature.Recv() != nil && !n.e.t.wire[typeShort(ed.Callee.Signature.Recv().Type())] {
				continue
			}
		}
		if b := n.e.p.body(ed.Callee); b != nil && n.e.region[b] {
			out = append(out, b)
		}
	}
	return out
}

func (n *nilAn) scan(fn *ssa.Function) {
	p := n.e.p
	fname := p.FuncName(fn)
	for _, b := range fn.Blocks {
		for _, in := range b.Instrs {
			// ---- sources and calls
			if call, ok := in.(ssa.CallInstruction); ok {
				c := call.Common()
				cal := p.calleeOf(c)
				args := callOperands(c)
				if decodeSinks[cal.Name] && len(c.Args) > 0 {
					src := false
					for _, a := range args[:len(args)-1] {
						if n.e.t.Is(a) {
							src = true
						}
					}
					if src {
						last := c.Args[len(c.Args)-1]
						tgt := stripConv(last)
						if mi, ok := last.(*ssa.MakeInterface); ok {
							tgt = mi.X
						}
						if n.deepPtr(deref(tgt.Type())) {
							n.storeD(tgt)
							n.markD(tgt)
						}
					}
				}
				if i := strings.LastIndex(cal.Name, "."); i > 0 && strings.HasSuffix(cal.Name[:i], "PersistentState") {
					iface, method := cal.Name[:i], cal.Name[i+1:]
					if n.stored == nil {
						n.stored = map[string]bool{}
					}
					if strings.HasPrefix(method, "Set") {
						for _, a := range args {
							if n.deepPtr(a.Type()) && (n.dvals[a] || n.decodedMem(a)) {
								k := iface + "." + method[3:] + "|" + a.Type().String()
								if !n.stored[k] {
									n.stored[k] = true
									n.changed = true
								}
							}
						}
					} else if v := call.Value(); v != nil {
						for _, ref := range *v.Referrers() {
							if ex, ok := ref.(*ssa.Extract); ok && n.stored[cal.Name+"|"+ex.Type().String()] {
								n.markD(ex)
							}
						}
					}
				}
				if cal.Name == "builtin.append" {
					if v := call.Value(); v != nil {
						for _, a := range c.Args {
							if n.dvals[a] || n.decodedMem(a) {
								n.markD(v)
							}
							if o, ok := n.nvals[a]; ok {
								n.markN(v, o)
							} else if o, ok := n.loadN(a); ok {
								n.markN(v, o)
							}
						}
					}
				}
				for _, g := range n.callees(call) {
					for i, a := range args {
						if i >= len(g.Params) {
							continue
						}
						if n.dvals[a] || (n.deepPtr(a.Type()) && n.decodedMem(a)) {
							n.markD(g.Params[i])
						}
						if o, ok := n.nvals[a]; ok {
							if isPtrLike(a.Type()) && n.nonNilAt(call, a) {
								continue
							}
							if strings.Contains(o, "the field is cleared") && n.clearedButSetBefore(fn, call, a) != "" {
								continue
							}
							n.markN(g.Params[i], o+" via "+fname)
						}
					}
					if v := call.Value(); v != nil && g.Signature.Results().Len() == 1 {
						if n.drets[g][0] {
							n.markD(v)
						}
						if o, ok := n.nrets[g][0]; ok {
							n.markN(v, o)
						}
					}
				}
			}
			v, isVal := in.(ssa.Value)
			switch x := in.(type) {
			case *ssa.UnOp:
				if x.Op != token.MUL {
					break
				}
				if n.deepPtr(x.Type()) && n.decodedMem(x.X) {
					n.markD(x)
					if isPtrLike(x.Type()) {
						switch a := x.X.(type) {
						case *ssa.FieldAddr:
							st, _ := deref(a.X.Type()).Underlying().(*types.Struct)
							if st != nil && st.Field(a.Field).Exported() {
								n.markN(x, fmt.Sprintf("decoded field %s read in %s", fieldName(a.X.Type(), a.Field), fname))
							}
						case *ssa.IndexAddr:
							n.markN(x, fmt.Sprintf("element of decoded %s read in %s", shortTypeString(a.X.Type()), fname))
						}
					}
				}
				if o, ok := n.loadN(x.X); ok && n.deepPtr(x.Type()) {
					n.markN(x, o)
				}
			case *ssa.Lookup:
				if n.dvals[x.X] && n.deepPtr(x.Type()) {
					n.markD(x)
					if isPtrLike(x.Type()) {
						n.markN(x, "value of decoded map read in "+fname)
					}
				}
			case *ssa.FieldAddr:
				if n.decodedMem(x) {
					n.markD(x)
				}
			case *ssa.IndexAddr:
				if n.dvals[x.X] || n.decodedMem(x) {
					n.markD(x)
				}
			case *ssa.Field:
				if n.dvals[x.X] && n.deepPtr(x.Type()) {
					n.markD(x)
				}
			case *ssa.Index:
				if n.dvals[x.X] && n.deepPtr(x.Type()) {
					n.markD(x)
				}
			case *ssa.ChangeType:
				if n.dvals[x.X] {
					n.markD(x)
				}
				if o, ok := n.nvals[x.X]; ok {
					n.markN(x, o)
				}
			case *ssa.MakeInterface:
				if n.dvals[x.X] {
					n.markD(x)
				}
			case *ssa.Slice:
				if n.dvals[x.X] || n.decodedMem(x.X) {
					n.markD(x)
				}
				if o, ok := n.nvals[x.X]; ok && !isPtrLike(x.X.Type()) {
					n.markN(x, o)
				} else if o, ok := n.loadN(x.X); ok {
					n.markN(x, o)
				}
			case *ssa.Phi:
				// "optional decoded value": nil on one edge, decoded data on another
				if isPtrLike(x.Type()) {
					hasNil, hasD := false, false
					for _, e := range x.Edges {
						if c, ok := e.(*ssa.Const); ok && c.IsNil() {
							hasNil = true
						} else if n.dvals[e] || n.decodedMem(e) {
							hasD = true
						}
					}
					if hasNil && hasD {
						n.markN(x, "nil when the decoded optional item is absent, in "+fname)
					}
				}
				for i, e := range x.Edges {
					if n.dvals[e] {
						n.markD(x)
					}
					if o, ok := n.nvals[e]; ok {
						if isPtrLike(e.Type()) && n.nonNilOnEdge(b.Preds[i], b, e) {
							continue
						}
						n.markN(x, o)
					}
				}
			case *ssa.Extract:
				if c, ok := x.Tuple.(*ssa.Call); ok {
					for _, g := range n.callees(c) {
						if n.drets[g][x.Index] {
							n.markD(x)
						}
						if o, ok := n.nrets[g][x.Index]; ok {
							n.markN(x, o)
						}
					}
				}
			case *ssa.MakeClosure:
				if body := p.body(x.Fn.(*ssa.Function)); body != nil {
					for i, bnd := range x.Bindings {
						if i < len(body.FreeVars) && (n.dvals[bnd] || n.decodedMem(bnd)) {
							n.markD(body.FreeVars[i])
						}
					}
				}
			case *ssa.Store:
				if n.dvals[x.Val] {
					n.storeD(x.Addr)
				}
				if o, ok := n.nvals[x.Val]; ok {
					if isPtrLike(x.Val.Type()) && n.nonNilAt(x, x.Val) {
						break
					}
					n.storeN(x.Addr, o)
				}
			case *ssa.Return:
				for i, rv := range x.Results {
					if n.dvals[rv] {
						if n.drets[fn] == nil {
							n.drets[fn] = map[int]bool{}
						}
						if !n.drets[fn][i] {
							n.drets[fn][i] = true
							n.changed = true
						}
					}
					if o, ok := n.nvals[rv]; ok {
						if isPtrLike(rv.Type()) && n.nonNilAt(x, rv) {
							continue
						}
						if n.nrets[fn] == nil {
							n.nrets[fn] = map[int]string{}
						}
						if _, had := n.nrets[fn][i]; !had {
							n.nrets[fn][i] = o
							n.changed = true
						}
					}
				}
			}
			_ = v
			_ = isVal
		}
	}
}

func (e *E3) g6(r *Result, prefix string, f *Flow) {
	p := e.p
	rule := prefix + ".decoded-pointers"
	r.rule(rule, "G6: a pointer the CBOR decoder can leave nil (pointer-typed exported field of a decoded struct, element of a decoded slice of pointers, and everything such a pointer is copied into) is dereferenced, or used as the receiver of a non-module method, only where a comparison with nil established that it is not nil")
	n := &nilAn{e: e, f: f, dvals: map[ssa.Value]bool{}, dallocs: map[*ssa.Alloc]bool{}, dfields: map[string]bool{}, drets: map[*ssa.Function]map[int]bool{},
		nvals: map[ssa.Value]string{}, nallocs: map[*ssa.Alloc]string{}, nfields: map[string]string{}, nrets: map[*ssa.Function]map[int]string{}, ptrMemo: map[types.Type]bool{}, hasCaller: map[*ssa.Function]bool{}}
	// API roots handed peer data directly: their parameters are decoded data
	for fn := range e.t.apiRoots {
		for _, prm := range fn.Params {
			if n.deepPtr(prm.Type()) {
				n.markD(prm)
			}
		}
	}
	// fields the code itself clears: a pointer-typed field of a shared object
	// (reached through a parameter, not a fresh local) that some region code
	// assigns nil may be nil the next time any method loads it
	for _, fn := range e.order {
		if !f.Region[fn] {
			continue
		}
		for _, b := range fn.Blocks {
			for _, in := range b.Instrs {
				st, ok := in.(*ssa.Store)
				if !ok {
					continue
				}
				c, isC := st.Val.(*ssa.Const)
				if !isC || !c.IsNil() || !isPtrLike(st.Val.Type()) {
					continue
				}
				fa, ok := st.Addr.(*ssa.FieldAddr)
				if !ok {
					continue
				}
				if _, fresh := rootOf(fa).(*ssa.Alloc); fresh {
					continue
				}
				if fld := fieldName(fa.X.Type(), fa.Field); fld != "" {
					if _, had := n.nfields[fld]; !had {
						n.nfields[fld] = "the field is cleared (assigned nil) at " + p.instrPos(st)
					}
				}
			}
		}
	}
	for round := 0; ; round++ {
		n.changed = false
		for _, fn := range e.order {
			if f.Region[fn] {
				n.scan(fn)
			}
		}
		if !n.changed {
			break
		}
		if round > 80 {
			r.fail("G6 fixed point did not converge")
			return
		}
	}
	type sink struct {
		in   ssa.Instruction
		v    ssa.Value
		what string
	}
	for _, fn := range e.order {
		if !f.Region[fn] {
			continue
		}
		var sinks []sink
		for _, b := range fn.Blocks {
			for _, in := range b.Instrs {
				switch x := in.(type) {
				case *ssa.FieldAddr:
					if _, ok := n.nvals[x.X]; ok && isPtrLike(x.X.Type()) {
						sinks = append(sinks, sink{in, x.X, "field " + fieldName(x.X.Type(), x.Field)})
					}
				case *ssa.UnOp:
					if _, ok := n.nvals[x.X]; ok && x.Op == token.MUL && isPtrLike(x.X.Type()) {
						sinks = append(sinks, sink{in, x.X, "load"})
					}
				case *ssa.IndexAddr:
					if _, ok := n.nvals[x.X]; ok && isPtrLike(x.X.Type()) {
						sinks = append(sinks, sink{in, x.X, "index"})
					}
				}
				if call, ok := in.(ssa.CallInstruction); ok {
					cc := call.Common()
					if cc.IsInvoke() || len(cc.Args) == 0 {
						continue
					}
					sc := cc.StaticCallee()
					if sc == nil || p.body(sc) != nil {
						continue
					}
					if sc.Signature.Recv() != nil {
						if _, ok := n.nvals[cc.Args[0]]; ok && isPtrLike(cc.Args[0].Type()) {
							sinks = append(sinks, sink{in, cc.Args[0], "receiver of " + p.calleeOf(cc).Name})
						}
					}
					// pointer operands of the standard library's numeric / key
					// methods are dereferenced by the callee
					if pk := sc.Pkg; pk != nil && (pk.Pkg.Path() == "math/big" || strings.HasPrefix(pk.Pkg.Path(), "crypto/")) {
						for i, a := range cc.Args {
							if i == 0 && sc.Signature.Recv() != nil {
								continue
							}
							if _, ok := n.nvals[a]; ok && isPtrLike(a.Type()) {
								sinks = append(sinks, sink{in, a, fmt.Sprintf("argument #%d of %s", i, p.calleeOf(cc).Name)})
							}
						}
					}
				}
			}
		}
		seen := map[string]int{}
		for _, s := range sinks {
			construct := fmt.Sprintf("%s through %s in %s", s.what, shortTypeString(s.v.Type()), p.FuncName(fn))
			seen[construct]++
			if seen[construct] > 1 {
				construct = fmt.Sprintf("%s #%d", construct, seen[construct])
			}
			ok := n.nonNilAt(s.in, s.v)
			detail := "compared with nil before use"
			if !ok && elemsCheckedByLoop(f.matcherFor(fn), fn, s.in, s.v) {
				ok, detail = true, "every element of the slice was compared with nil by a completed loop before this use"
			}
			if !ok && strings.Contains(n.nvals[s.v], "the field is cleared") {
				if why := n.clearedButSetBefore(fn, s.in, s.v); why != "" {
					ok, detail = true, why
				}
			}
			if !ok {
				detail = "may be nil (" + n.nvals[s.v] + ") and no nil comparison dominates this use"
			}
			r.table(p, rule, construct, p.instrPos(s.in), ok, detail)
		}
	}
	if debugDump == "g6" {
		var ks []string
		for v, o := range n.nvals {
			if in, ok := v.(ssa.Instruction); ok {
				ks = append(ks, fmt.Sprintf("N %s %s = %s [%s] @ %s", p.FuncName(in.Parent()), v.Name(), v.String(), o, p.instrPos(in)))
			} else if pr, ok := v.(*ssa.Parameter); ok {
				ks = append(ks, fmt.Sprintf("N %s param %s [%s]", p.FuncName(pr.Parent()), pr.Name(), o))
			}
		}
		for v := range n.dvals {
			if pr, ok := v.(*ssa.Parameter); ok {
				ks = append(ks, fmt.Sprintf("D %s param %s", p.FuncName(pr.Parent()), pr.Name()))
			}
		}
		for a := range n.dallocs {
			ks = append(ks, fmt.Sprintf("DALLOC %s %s @ %s", p.FuncName(a.Parent()), a.Comment, p.instrPos(a)))
		}
		for fld := range n.dfields {
			ks = append(ks, "DFIELD "+fld)
		}
		for fld, o := range n.nfields {
			ks = append(ks, "NFIELD "+fld+" ["+o+"]")
		}
		sort.Strings(ks)
		fmt.Println(strings.Join(ks, "\n"))
	}
}

// elemsCheckedByLoop: ld loads an element s[k]; a loop over every index of the
// same slice, completed before `sink` is reached, compares each element with
// nil and leaves the function when one is ("validate all elements, then use
// them"). Conditions checked on the SSA form:
//   - loop header H with induction phi (range form: init -1, current index
//     phi+1 computed in H; classic form: init 0, current index phi, step +1),
//     exit test `cur < len(s)` in H;
//   - a block of the loop tests `s[cur] == nil`, its nil successor cannot
//     reach H again, and it dominates every back edge (runs each iteration);
//   - no other edge leaves the loop towards the sink (no break), and H
//     dominates the sink, which lies outside the loop.
func elemsCheckedByLoop(m *Matcher, fn *ssa.Function, sink ssa.Instruction, v ssa.Value) bool {
	for {
		if ct, ok := v.(*ssa.ChangeType); ok {
			v = ct.X
			continue
		}
		break
	}
	ld, ok := v.(*ssa.UnOp)
	if !ok || ld.Op != token.MUL {
		return false
	}
	ia, ok := ld.X.(*ssa.IndexAddr)
	if !ok {
		return false
	}
	sname := canon(ia.X)
	reaches := func(from, to *ssa.BasicBlock, stop *ssa.BasicBlock) bool {
		seen := map[*ssa.BasicBlock]bool{}
		var dfs func(b *ssa.BasicBlock) bool
		dfs = func(b *ssa.BasicBlock) bool {
			if b == to {
				return true
			}
			if seen[b] || b == stop {
				return false
			}
			seen[b] = true
			for _, s := range b.Succs {
				if dfs(s) {
					return true
				}
			}
			return false
		}
		return dfs(from)
	}
	for _, H := range fn.Blocks {
		if len(H.Instrs) == 0 {
			continue
		}
		ifi, ok := H.Instrs[len(H.Instrs)-1].(*ssa.If)
		if !ok {
			continue
		}
		for _, in := range H.Instrs {
			phi, ok := in.(*ssa.Phi)
			if !ok {
				break
			}
			var init, step ssa.Value
			var latches []*ssa.BasicBlock
			for j, pred := range H.Preds {
				if H.Dominates(pred) {
					latches = append(latches, pred)
					step = phi.Edges[j]
				} else {
					init = phi.Edges[j]
				}
			}
			if len(latches) == 0 || init == nil {
				continue
			}
			bo, ok := step.(*ssa.BinOp)
			if !ok || bo.Op != token.ADD || bo.X != ssa.Value(phi) || !isConstInt(bo.Y, 1) {
				continue
			}
			var cur ssa.Value
			switch {
			case isConstInt(init, -1) && bo.Block() == H:
				cur = bo
			case isConstInt(init, 0):
				cur = phi
			default:
				continue
			}
			cond, ok := ifi.Cond.(*ssa.BinOp)
			if !ok || cond.Op != token.LSS || cond.X != cur {
				continue
			}
			l := lenOf(m, intRootNoVar(cond.Y))
			if l == nil || canon(l) != sname {
				continue
			}
			// loop blocks: reach a latch backwards without passing H
			loop := map[*ssa.BasicBlock]bool{H: true}
			var back func(b *ssa.BasicBlock)
			back = func(b *ssa.BasicBlock) {
				if loop[b] {
					return
				}
				loop[b] = true
				for _, p := range b.Preds {
					back(p)
				}
			}
			for _, lt := range latches {
				back(lt)
			}
			if loop[sink.Block()] || !H.Dominates(sink.Block()) {
				continue
			}
			// the per-iteration nil test
			var check *ssa.BasicBlock
			for b := range loop {
				bi, ok := b.Instrs[len(b.Instrs)-1].(*ssa.If)
				if !ok || b == H {
					continue
				}
				pd, onTrue := normCond(bi.Cond)
				if pd.Kind != "nil" {
					continue
				}
				e, ok := pd.X.(*ssa.UnOp)
				if !ok || e.Op != token.MUL {
					continue
				}
				eia, ok := e.X.(*ssa.IndexAddr)
				if !ok || eia.Index != cur || canon(eia.X) != sname {
					continue
				}
				nilSucc := b.Succs[0]
				if !onTrue {
					nilSucc = b.Succs[1]
				}
				if loop[nilSucc] || reaches(nilSucc, H, nil) || reaches(nilSucc, sink.Block(), nil) {
					continue
				}
				dominatesLatches := true
				for _, lt := range latches {
					if !b.Dominates(lt) && b != lt {
						dominatesLatches = false
					}
				}
				if dominatesLatches {
					check = b
				}
			}
			if check == nil {
				continue
			}
			// no early exit from the loop towards the sink
			early := false
			for b := range loop {
				if b == H {
					continue
				}
				for _, s := range b.Succs {
					if !loop[s] && reaches(s, sink.Block(), nil) {
						early = true
					}
				}
			}
			if !early {
				return true
			}
		}
	}
	return false
}

// spillOfParam: al is the entry-block slot a pointer parameter is stored into.
func spillOfParam(al *ssa.Alloc) bool {
	fn := al.Parent()
	if fn == nil || len(fn.Blocks) == 0 {
		return false
	}
	for _, in := range fn.Blocks[0].Instrs {
		if st, ok := in.(*ssa.Store); ok && st.Addr == ssa.Value(al) {
			if _, isParam := st.Val.(*ssa.Parameter); isParam {
				return true
			}
		}
	}
	return false
}

// clearedButSetBefore discharges a use of a field that the code clears
// elsewhere when this function (or, for a closure, the function that creates it,
// before creating it) assigns the field a non-nil value or has compared it with
// nil: the value loaded is then the one just established.
func (n *nilAn) clearedButSetBefore(fn *ssa.Function, at ssa.Instruction, v ssa.Value) string {
	ld, ok := v.(*ssa.UnOp)
	if !ok || ld.Op != token.MUL {
		return ""
	}
	fa, ok := ld.X.(*ssa.FieldAddr)
	if !ok {
		return ""
	}
	fld := fieldName(fa.X.Type(), fa.Field)
	scope, before := fn, at
	if fn.Parent() != nil {
		// the creation site of the closure in its parent
		scope = fn.Parent()
		before = nil
		for _, b := range scope.Blocks {
			for _, in := range b.Instrs {
				if mc, ok := in.(*ssa.MakeClosure); ok && mc.Fn == ssa.Value(fn) {
					before = mc
				}
			}
		}
		if before == nil {
			return ""
		}
	}
	return n.fieldSetBefore(scope, before, fld, 0)
}

// storesNonNil: fn assigns the field a value that is not nil / may-nil.
func (n *nilAn) storesNonNil(fn *ssa.Function, fld string) bool {
	for _, b := range fn.Blocks {
		for _, in := range b.Instrs {
			st, ok := in.(*ssa.Store)
			if !ok {
				continue
			}
			fa, ok := st.Addr.(*ssa.FieldAddr)
			if !ok || fieldName(fa.X.Type(), fa.Field) != fld {
				continue
			}
			if c, isC := st.Val.(*ssa.Const); isC && c.IsNil() {
				continue
			}
			if _, mayNil := n.nvals[st.Val]; !mayNil {
				return true
			}
		}
	}
	return false
}

func (n *nilAn) fieldSetBefore(scope *ssa.Function, before ssa.Instruction, fld string, depth int) string {
	for _, b := range scope.Blocks {
		for _, in := range b.Instrs {
			switch x := in.(type) {
			case ssa.CallInstruction:
				// a helper that establishes the field (lazy creation) was called before
				if g := n.e.p.body(x.Common().StaticCallee()); g != nil && g != scope && instrBefore(x, before) && n.storesNonNil(g, fld) {
					return "the field is established by " + n.e.p.FuncName(g) + ", called in " + n.e.p.FuncName(scope) + " before this use"
				}
			}
			switch x := in.(type) {
			case *ssa.Store:
				fa2, ok := x.Addr.(*ssa.FieldAddr)
				if !ok || fieldName(fa2.X.Type(), fa2.Field) != fld {
					continue
				}
				if c, isC := x.Val.(*ssa.Const); isC && c.IsNil() {
					continue
				}
				if _, mayNil := n.nvals[x.Val]; instrBefore(x, before) && !mayNil {
					return "the field is assigned a non-nil value in " + n.e.p.FuncName(scope) + " before this use"
				}
			case *ssa.UnOp:
				fa2, ok := x.X.(*ssa.FieldAddr)
				if !ok || x.Op != token.MUL || fieldName(fa2.X.Type(), fa2.Field) != fld {
					continue
				}
				if n.f.StateAt(before).Has(Atom("v:nn:" + canon(x))) {
					return "the field was compared with nil in " + n.e.p.FuncName(scope) + " before this use"
				}
			}
		}
	}
	// every in-region static caller establishes it before calling
	if depth < 2 {
		var why string
		nsites := 0
		for _, ed := range n.e.p.CallGraph().in[scope] {
			site, ok := ed.Site.(ssa.CallInstruction)
			if !ok || ed.Kind != "static" || !n.f.Region[ed.Caller] || ed.Caller == scope {
				continue
			}
			nsites++
			w := n.fieldSetBefore(ed.Caller, site, fld, depth+1)
			if w == "" {
				return ""
			}
			why = w
		}
		if nsites > 0 {
			return why + " (at every call site of " + n.e.p.FuncName(scope) + ")"
		}
	}
	return ""
}
