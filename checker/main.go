package main

import (
	"encoding/json"
	"flag"
	"fmt"
	"os"
	"path/filepath"
	"sort"
	"strconv"
	"strings"
	"time"
)

// Ctx is handed to every property check.
type Ctx struct {
	Repo    string
	Tier    string
	Modules []string
	progs   map[string]*Prog
	errs    map[string]error
}

// Prog loads (once) the program in a build configuration.
func (c *Ctx) Prog(cfg BuildConfig) (*Prog, error) {
	if p, ok := c.progs[cfg.Name]; ok {
		return p, c.errs[cfg.Name]
	}
	p, err := loadProg(c.Repo, cfg, c.Modules)
	c.progs[cfg.Name] = p
	c.errs[cfg.Name] = err
	return p, err
}

// Configs returns the build configurations of the tier.
func (c *Ctx) Configs() []BuildConfig {
	if c.Tier == "thorough" {
		return []BuildConfig{cfgDefault, cfg386, cfgTinygo}
	}
	return []BuildConfig{cfgDefault}
}

type checkFn func(c *Ctx, p *Prog, r *Result)

var checks = map[string]checkFn{}

func main() {
	repo := flag.String("repo", "/repo", "repository working tree to analyse")
	verif := flag.String("verif", "/verif", "verification directory (evidence, known findings)")
	tier := flag.String("tier", "quick", "quick | thorough")
	noWrite := flag.Bool("no-write", false, "do not write evidence files (used by the mutation self-test)")
	replay := flag.String("replay", "", "re-evaluate the obligation recorded in this violation file")
	dump := flag.String("dump", "", "debug: dump E1 states of the named function for the property")
	list := flag.Bool("list", false, "list implemented properties")
	flag.Parse()

	if *list {
		var ids []string
		for id := range checks {
			ids = append(ids, id)
		}
		sort.Strings(ids)
		fmt.Println(strings.Join(ids, " "))
		return
	}
	if *replay != "" {
		os.Exit(doReplay(*replay, *repo, *verif))
	}
	if flag.NArg() != 1 {
		fmt.Fprintln(os.Stderr, "usage: fdocheck [-repo dir] [-tier quick|thorough] <property id>")
		os.Exit(2)
	}
	os.Exit(runCheck(flag.Arg(0), *repo, *verif, *tier, *noWrite, *dump))
}

func runCheck(id, repo, verif, tier string, noWrite bool, dump string) (code int) {
	start := time.Now()
	seed, _ := strconv.Atoi(os.Getenv("VERIF_SEED"))
	fn, ok := checks[id]
	if !ok {
		fmt.Printf("CHECK-FAILURE property=%s not implemented\n", id)
		return 2
	}
	abs, err := filepath.Abs(repo)
	if err != nil {
		fmt.Printf("CHECK-FAILURE property=%s %v\n", id, err)
		return 2
	}
	ctx := &Ctx{Repo: abs, Tier: tier, Modules: []string{".", "sqlite", "fsim"}, progs: map[string]*Prog{}, errs: map[string]error{}}
	r := newResult(id)
	debugDump = dump
	defer func() {
		if e := recover(); e != nil {
			fmt.Printf("CHECK-FAILURE property=%s analyser panic: %v\n", id, e)
			panic(e)
		}
	}()
	for _, cfg := range ctx.Configs() {
		p, err := ctx.Prog(cfg)
		if err != nil {
			r.fail("load %s: %v", cfg.Name, err)
			continue
		}
		r.Configs = append(r.Configs, fmt.Sprintf("%s (%d packages, %d module functions)", cfg.Name, len(p.Pkgs), len(p.Funcs)))
		r.curConfig = cfg.Name
		fn(ctx, p, r)
	}
	findings, err := loadFindings(filepath.Join(verif, "known_findings.json"))
	if err != nil {
		r.fail("known_findings.json: %v", err)
	}
	ri := runInfo{Tier: tier, Seed: seed, Start: start, VerifD: verif, RepoD: abs, NoWrite: noWrite,
		Cmd: fmt.Sprintf("bin/fdocheck -repo %s -tier %s %s", abs, tier, id)}
	return finish(r, ri, findings)
}

var debugDump string

func doReplay(path, repo, verif string) int {
	b, err := os.ReadFile(path)
	if err != nil {
		fmt.Println(err)
		return 2
	}
	var v struct {
		Property   string `json:"property"`
		Tier       string `json:"tier"`
		Obligation Obl    `json:"obligation"`
	}
	if err := json.Unmarshal(b, &v); err != nil {
		fmt.Println(err)
		return 2
	}
	fmt.Printf("replaying %s: rule=%s construct=%s\n  recorded at %s: missing=%v\n  %s\n", v.Property, v.Obligation.Rule, v.Obligation.Construct, v.Obligation.Pos, v.Obligation.Missing, v.Obligation.Detail)
	fmt.Println("re-evaluating the property on the current tree:")
	return runCheck(v.Property, repo, verif, v.Tier, true, "")
}
