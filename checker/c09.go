package main

import (
	"fmt"
	"strings"

	"golang.org/x/tools/go/ssa"
)

// C09 — every supported crypto configuration onboards; forbidden ones are
// refused. Only the registry/table agreement part is decided.

func init() {
	checks["C09"] = checkC09
	explanations["C09"] = "Structural necessary conditions (E2 tables extracted from the code and compared with each other, plus two E1 gates): every kex.Suite constant has exactly one RegisterKeyExchangeSuite call and vice versa; every RegisterCipherSuite names a registered encrypt algorithm, a MAC algorithm that is 0 or registered with MacAlg!=0 iff the encrypt algorithm has AD=false, and a PRF hash of SHA-256/384 (the sizes nistkdf.KDF accepts); CipherSuiteByName and CipherSuiteID.String are inverse over the same id set which covers every registered id; every signature algorithm that the device-sig-type mapping accepts or SignatureAlgorithmFor returns is registered (HashFunc total on them); every KeyType/KeyEncoding constant is handled by the public-key parser; on both sides Suite.New is reached only after Suite.Valid and kex.Available (so a forbidden or unavailable combination is an error, never a silent substitute). Also the decision table of kex.Suite.Valid: the set of (device class, owner class, suite) triples accepted — read off the conjunctions of branch conditions along every CFG path to `return true`, no execution — equals the FDO 1.1 section 3.6.5 table over the whole finite class domain; and (interval analysis, block size symbolic) the CBC padder produces and the unpadder accepts exactly pad sizes 1..blockSize. Not decided: that the ~750 valid tuples actually complete onboarding (that is a run), nor Suite.Valid's truth table."
}

func checkC09(c *Ctx, p *Prog, r *Result) {
	c09SuiteValidTable(p, r)
	c09PaddingRanges(p, r)
	c09ChainLeafKey(p, r)
	// (a) key exchange suites
	r.rule("C09.kex-registry", "kex.Suite constants and RegisterKeyExchangeSuite calls are in bijection")
	r.floor("C09.kex-registry", 6)
	suites := map[string]bool{}
	for _, v := range p.constsOfType("fdo/kex.Suite") {
		suites[v.ExactString()] = true
	}
	reg := map[string]int{}
	for _, call := range p.callsTo("fdo/kex.RegisterKeyExchangeSuite") {
		if v, ok := constValue(call.Common().Args[0]); ok {
			reg[v.ExactString()]++
		} else {
			r.fail("C09.kex-registry: non-constant suite name at %s", p.instrPos(call))
		}
	}
	for s := range suites {
		r.table(p, "C09.kex-registry", "suite "+s, "-", reg[s] == 1, fmt.Sprintf("registered %d time(s)", reg[s]))
	}
	for s := range reg {
		if !suites[s] {
			r.table(p, "C09.kex-registry", "registered "+s, "-", false, "registered name is not a kex.Suite constant")
		}
	}

	// (b) cipher suites vs algorithm registries
	r.rule("C09.cipher-registry", "every RegisterCipherSuite: EncryptAlg registered, MacAlg 0 or registered, MacAlg!=0 iff AD==false, PRFHash is SHA-256 or SHA-384; its id is a CipherSuiteID constant")
	r.floor("C09.cipher-registry", 7)
	encAD := map[string]string{}
	for _, call := range p.callsTo("fdo/cose.RegisterEncryptAlgorithm") {
		a := call.Common().Args
		if alg, ok := constValue(a[0]); ok {
			if ad, ok := constValue(a[1]); ok {
				encAD[alg.ExactString()] = ad.ExactString()
			}
		}
	}
	macs := map[string]bool{}
	for _, call := range p.callsTo("fdo/cose.RegisterMacAlgorithm") {
		if alg, ok := constValue(call.Common().Args[0]); ok {
			macs[alg.ExactString()] = true
		}
	}
	idConsts := map[string]bool{}
	for _, v := range p.constsOfType("fdo/kex.CipherSuiteID") {
		idConsts[v.ExactString()] = true
	}
	registeredIDs := map[string]bool{}
	for _, call := range p.callsTo("fdo/kex.RegisterCipherSuite") {
		a := call.Common().Args
		id, ok := constValue(a[0])
		if !ok {
			r.fail("C09.cipher-registry: non-constant id at %s", p.instrPos(call))
			continue
		}
		registeredIDs[id.ExactString()] = true
		fl := structLiteralFields(a[1])
		get := func(n string) string {
			if v, ok := fl[n]; ok {
				if cv, ok := constValue(v); ok {
					return cv.ExactString()
				}
				return "?"
			}
			return "0"
		}
		enc, mac, prf := get("EncryptAlg"), get("MacAlg"), get("PRFHash")
		ad, encOK := encAD[enc]
		macOK := mac == "0" || macs[mac]
		iff := (mac != "0") == (ad == "false")
		prfOK := prf == "5" || prf == "6" // crypto.SHA256, crypto.SHA384
		r.table(p, "C09.cipher-registry", "cipher suite "+id.ExactString(), p.instrPos(call), encOK && macOK && iff && prfOK && idConsts[id.ExactString()],
			fmt.Sprintf("EncryptAlg=%s (registered=%v, AD=%s) MacAlg=%s (ok=%v) PRFHash=%s", enc, encOK, ad, mac, macOK, prf))
	}

	// (c) names
	r.rule("C09.cipher-names", "CipherSuiteByName and CipherSuiteID.String are inverse tables over the same ids, covering every registered id")
	r.floor("C09.cipher-names", 2)
	byName, str := p.ByName["fdo/kex.CipherSuiteByName"], p.ByName["fdo/kex.CipherSuiteID.String"]
	if byName == nil || str == nil {
		r.fail("anchors CipherSuiteByName / CipherSuiteID.String not found")
	} else {
		n2id := caseReturns(byName, 0)
		id2n := caseReturns(str, 0)
		inv := len(n2id) == len(id2n)
		for n, id := range n2id {
			if id2n[id] != n {
				inv = false
			}
		}
		r.table(p, "C09.cipher-names", "ByName vs String", p.Pos(byName.Pos()), inv && len(n2id) > 0, fmt.Sprintf("%d names, %d ids", len(n2id), len(id2n)))
		named := map[string]bool{}
		for id := range id2n {
			named[id] = true
		}
		ok, miss := subset(registeredIDs, named)
		r.table(p, "C09.cipher-names", "registered ids are named", p.Pos(str.Pos()), ok, "unnamed: "+strings.Join(miss, ","))
	}

	// (d) signature algorithms
	r.rule("C09.sigalg-registry", "every SignatureAlgorithm constant returned by cose.SignatureAlgorithmFor (and its helpers) or accepted by the device signature-type mapping in package fdo is registered with RegisterSignatureAlgorithm")
	r.floor("C09.sigalg-registry", 2)
	sigReg := map[string]bool{}
	for _, call := range p.callsTo("fdo/cose.RegisterSignatureAlgorithm") {
		if v, ok := constValue(call.Common().Args[0]); ok {
			sigReg[v.ExactString()] = true
		}
	}
	if saf := p.ByName["fdo/cose.SignatureAlgorithmFor"]; saf == nil {
		r.fail("anchor fdo/cose.SignatureAlgorithmFor not found")
	} else {
		ret := map[string]bool{}
		for fn := range p.Reachable([]*ssa.Function{saf}, nil) {
			res := fn.Signature.Results()
			if res.Len() > 0 && typeShort(res.At(0).Type()) == "fdo/cose.SignatureAlgorithm" {
				for k := range returnConsts(fn, 0) {
					if k != "0" {
						ret[k] = true
					}
				}
			}
		}
		ok, miss := subset(ret, sigReg)
		r.table(p, "C09.sigalg-registry", "results of SignatureAlgorithmFor", p.Pos(saf.Pos()), ok && len(ret) >= 6, fmt.Sprintf("%d returned, unregistered: %v", len(ret), miss))
	}
	accepted := map[string]bool{}
	for _, fn := range p.Funcs {
		if funcPkgPath(fn) != modulePath {
			continue
		}
		res := fn.Signature.Results()
		if res.Len() == 3 && typeShort(res.At(0).Type()) == "fdo/protocol.KeyType" && fn.Signature.Params().Len() == 1 && typeShort(fn.Signature.Params().At(0).Type()) == "fdo/cose.SignatureAlgorithm" {
			for k := range switchConsts(fn, "fdo/cose.SignatureAlgorithm") {
				accepted[k] = true
			}
		}
	}
	ok, miss := subset(accepted, sigReg)
	r.table(p, "C09.sigalg-registry", "signature types accepted from the device", "-", ok && len(accepted) >= 6, fmt.Sprintf("%d accepted, unregistered: %v", len(accepted), miss))

	// (e) key types and encodings handled by the parser
	r.rule("C09.key-tables", "every protocol.KeyType constant is handled when parsing X509 / X5Chain keys and every wire KeyEncoding constant is handled by PublicKey parsing")
	r.floor("C09.key-tables", 2)
	keyTypes := map[string]bool{}
	for _, v := range p.constsOfType("fdo/protocol.KeyType") {
		keyTypes[v.ExactString()] = true
	}
	encs := map[string]bool{}
	for n, v := range p.constsOfType("fdo/protocol.KeyEncoding") {
		if n != "CryptoKeyEnc" { // Intel EPID only: not supported by this library (documented)
			encs[v.ExactString()] = true
		}
	}
	pub := p.ByName["fdo/protocol.PublicKey.Public"]
	if pub == nil {
		r.fail("anchor fdo/protocol.PublicKey.Public not found")
	} else {
		handledEnc := map[string]bool{}
		typeHandlers := 0
		allTypes := true
		for fn := range p.Reachable([]*ssa.Function{pub}, nil) {
			if funcPkgPath(fn) != modulePath+"/protocol" {
				continue
			}
			for k := range switchConsts(fn, "fdo/protocol.KeyEncoding") {
				handledEnc[k] = true
			}
			kt := switchConsts(fn, "fdo/protocol.KeyType")
			if len(kt) > 0 {
				typeHandlers++
				if ok, _ := subset(keyTypes, kt); !ok {
					allTypes = false
				}
			}
		}
		ok, miss := subset(encs, handledEnc)
		r.table(p, "C09.key-tables", "key encodings", p.Pos(pub.Pos()), ok, fmt.Sprintf("unhandled: %v", miss))
		r.table(p, "C09.key-tables", "key types", p.Pos(pub.Pos()), allTypes && typeHandlers >= 2, fmt.Sprintf("%d parser switches over KeyType, each covering all %d constants: %v", typeHandlers, len(keyTypes), allTypes))
	}

	// (f) gates before Suite.New on both sides
	r.rule("C09.suite-gate", "Suite.New is reached only after Suite.Valid and kex.Available are true (owner side); the device sends ProveDevice only after both (device side)")
	r.floor("C09.suite-gate", 2)
	if root := p.ByName["fdo.TO2Server.Respond"]; root != nil {
		f := NewFlow(p, c02Rules(p), []*ssa.Function{root}, nil)
		r.useFlow(f)
		// sites in package fdo construct a session from peer-chosen ids; the
		// state backends re-create sessions from ids they stored themselves
		r.requireAtSites(f, "C09.suite-gate", f.CallSites(func(cal Callee, call ssa.CallInstruction) bool {
			return cal.Name == "fdo/kex.Suite.New" && funcPkgPath(call.Parent()) == modulePath
		}), []Atom{"suite-valid", "kex-available"})
	} else {
		r.fail("anchor fdo.TO2Server.Respond not found")
	}
	if root := p.ByName["fdo.TO2"]; root != nil {
		f := NewFlow(p, c01Rules(p, r, "-"), []*ssa.Function{root}, nil)
		pd, _ := p.constOf("fdo/protocol", "TO2ProveDeviceMsgType")
		r.requireAtSites(f, "C09.suite-gate", f.CallSites(func(cal Callee, call ssa.CallInstruction) bool {
			return cal.Name == "fdo.Transport.Send" && isConstInt(allArgs(call)[2], pd)
		}), []Atom{"kex-valid"})
	} else {
		r.fail("anchor fdo.TO2 not found")
	}
}
