package main

import (
	"strings"

	"golang.org/x/tools/go/ssa"
)

// C01 — the device completes TO2 only with the owner its voucher chain
// designates.

func init() {
	checks["C01"] = checkC01
	explanations["C01"] = "Structural necessary condition (E1 must-pass over the call graph of fdo.TO2, goroutines and closures included): the three effect kinds — Transport.Send of ProveDevice (type 64), every DeviceModule.Transition/Receive/Yield invoke, every success return of TO2 — are reached only on paths that passed: VerifyHeader (device HMACs), VerifyManufacturerKey(credential key hash), VerifyEntries, equality of the key that verified ProveOVHdr with the chain's last key, Sign1.Verify true&&err==nil on the decoded ProveOVHdr, the fresh-nonce echo comparison, the HelloDevice hash comparison over the very request that was sent, (to1d==nil or Sign1.Verify of to1d under the chain-end key), Suite.Valid and kex.Available; GetOVNextEntry succeeds only after the entry-number echo; the verifiers' own success summaries carry their comparisons (shared table with C04). Type 64 has exactly one send site. Also: every function on the TO2 path that tests a hash for the optional Err() method (hardware HMACs report failure only there) reports success only where the hash is not fallible or Err() was nil after the last Sum. Not decided: that HMAC/hash/signature primitives bind the bytes the spec says; behaviour under transport faults beyond 'an error return skips all effects'."
}

// c01DiscoverKeyField finds the struct field into which the key that verified
// the decoded ProveOVHdr is stored (so that the later comparison can be tied to
// it without naming unexported identifiers).
func c01DiscoverKeyField(p *Prog, region map[*ssa.Function]bool) string {
	for fn := range region {
		m := p.matcher(fn)
		for _, b := range fn.Blocks {
			for _, in := range b.Instrs {
				call, ok := in.(*ssa.Call)
				if !ok || p.calleeOf(call.Common()).Name != "fdo/cose.Sign1.Verify" {
					continue
				}
				args := allArgs(call)
				if len(args) < 2 || !decoded(m, args[0]) || !m.Prov(args[1]).Has("decoded:") {
					continue
				}
				key := args[1]
				for _, b2 := range fn.Blocks {
					for _, in2 := range b2.Instrs {
						st, ok := in2.(*ssa.Store)
						if !ok || stripConv(st.Val) != stripConv(key) {
							continue
						}
						if fa, ok := st.Addr.(*ssa.FieldAddr); ok {
							if f := fieldName(fa.X.Type(), fa.Field); f != "" {
								return f
							}
						}
					}
				}
			}
		}
	}
	return ""
}

func c01Rules(p *Prog, r *Result, keyField string) *RuleSet {
	va, vd := voucherAtoms()
	chainEnd := func(m *Matcher, v ssa.Value) bool {
		s := m.Prov(v)
		return s.HasX("call:fdo/protocol.PublicKey.Public") && s.HasX("field:fdo.VoucherEntryPayload.PublicKey") && s.HasX("field:fdo.VoucherHeader.ManufacturerKey")
	}
	chainEndLocal := func(m *Matcher, v ssa.Value) bool {
		s := m.Prov(v)
		return s.HasLocal("call:fdo/protocol.PublicKey.Public") && s.HasLocal("field:fdo.VoucherEntryPayload.PublicKey") && s.HasLocal("field:fdo.VoucherHeader.ManufacturerKey")
	}
	to1dParam := func(m *Matcher, v ssa.Value) bool {
		pr, ok := v.(*ssa.Parameter)
		return ok && strings.Contains(shortTypeString(pr.Type()), "fdo/cose.Sign1[fdo/protocol.To1d")
	}
	ovhdrVerify := func(m *Matcher, _ ssa.CallInstruction, args []ssa.Value) bool {
		if len(args) < 2 {
			return false
		}
		k := m.Prov(args[1])
		return decoded(m, args[0]) && k.Has("decoded:") && k.Has("call:fdo/protocol.PublicKey.Public")
	}
	to1dVerify := func(m *Matcher, _ ssa.CallInstruction, args []ssa.Value) bool {
		if len(args) < 2 {
			return false
		}
		recv := args[0]
		if ld := loadOf(recv); ld != nil {
			recv = ld
		}
		return to1dParam(m, recv) && chainEnd(m, args[1])
	}
	own := []AtomDef{
		errNil("hdr-mac", "VerifyHeader under the device's HMAC secrets returned nil", named("fdo.Voucher.VerifyHeader"),
			func(m *Matcher, _ ssa.CallInstruction, args []ssa.Value) bool {
				return len(args) == 3 && m.Prov(args[1]).Has("field:fdo.TO2Config.HmacSha256") && m.Prov(args[2]).Has("field:fdo.TO2Config.HmacSha384")
			}),
		errNil("mfg-key", "VerifyManufacturerKey against the credential's public-key hash returned nil", named("fdo.Voucher.VerifyManufacturerKey"),
			func(m *Matcher, _ ssa.CallInstruction, args []ssa.Value) bool {
				return len(args) == 2 && m.Prov(args[1]).Has("field:fdo.DeviceCredential.PublicKeyHash")
			}),
		errNil("chain", "VerifyEntries returned nil", named("fdo.Voucher.VerifyEntries"), nil),
		equal("owner-is-chain-end", "the key that verified ProveOVHdr equals the public key of the chain's last entry (or the header key)",
			func(m *Matcher, v ssa.Value) bool {
				return keyField != "" && m.Prov(v).Has("field:"+keyField) && !chainEndLocal(m, v)
			}, chainEnd),
		boolTrue("ovhdr-sig-true", "Sign1.Verify of the decoded ProveOVHdr under the key from its unprotected header returned true", named("fdo/cose.Sign1.Verify"), 0, ovhdrVerify),
		errNil("ovhdr-sig-noerr", "that Verify returned no error", named("fdo/cose.Sign1.Verify"), ovhdrVerify),
		equal("nonce-echo", "the decoded ProveOVHdr nonce equals the fresh nonce generated for this HelloDevice",
			provAnd(decoded, lacksProv("fresh:")), provAnd(hasProv("fresh:"), lacksProv("decoded:"))),
		equal("hello-hash", "the decoded HelloDevice hash equals the hash recomputed by the device",
			provAnd(hasProvX("decoded:"), lacksProv("call:hash.Hash.Sum")),
			// the Sum of a hash into which, in the same function, the HelloDevice
			// message (the value carrying the fresh nonce) was encoded
			func(m *Matcher, v ssa.Value) bool {
				if !sumResult(m, v) {
					return false
				}
				for _, b := range m.Fn.Blocks {
					for _, in := range b.Instrs {
						if c, ok := in.(ssa.CallInstruction); ok && m.P.calleeOf(c.Common()).Name == "fdo/cbor.Encoder.Encode" {
							a := allArgs(c)
							if m.Prov(a[0]).HasPrefix("call:crypto.Hash.New") && m.Prov(a[1]).HasX("fresh:") && m.Prov(v).HasPrefix("call:crypto.Hash.New") {
								return true
							}
						}
					}
				}
				return false
			}),
		AtomDef{Name: "hello-hashed", Doc: "the request value that was sent as HelloDevice is what was encoded into that hash", Exec: func(m *Matcher, call ssa.CallInstruction) bool {
			if m.P.calleeOf(call.Common()).Name != "fdo/cbor.Encoder.Encode" {
				return false
			}
			args := allArgs(call)
			if !m.Prov(args[0]).HasPrefix("call:crypto.Hash.New") {
				return false
			}
			return sentAsHello(m.P, m.Fn, args[1], 0)
		}},
		isNil("to1d-nil", "no rendezvous blob was supplied (RV bypass)", to1dParam),
		boolTrue("to1d-sig-true", "Sign1.Verify of the to1d blob under the chain-end key returned true", named("fdo/cose.Sign1.Verify"), 0, to1dVerify),
		errNil("to1d-sig-noerr", "that Verify returned no error", named("fdo/cose.Sign1.Verify"), to1dVerify),
		equal("entry-index-eq", "the decoded entry number equals the requested one",
			decoded, func(m *Matcher, v ssa.Value) bool { _, ok := v.(*ssa.Parameter); return ok }),
		boolTrue("suite-valid", "Suite.Valid(device key, owner key) is true", named("fdo/kex.Suite.Valid"), 0, nil),
		boolTrue("kex-available", "kex.Available(suite, cipher) is true", named("fdo/kex.Available"), 0, nil),
	}
	der := []Derivation{
		{"ovhdr-sig", []Atom{"ovhdr-sig-true", "ovhdr-sig-noerr"}},
		{"to1d-authentic", []Atom{"to1d-nil"}},
		{"to1d-authentic", []Atom{"to1d-sig-true", "to1d-sig-noerr"}},
		{"kex-valid", []Atom{"suite-valid", "kex-available"}},
		{"owner-verified", []Atom{"hdr-mac", "mfg-key", "chain", "owner-is-chain-end", "ovhdr-sig", "nonce-echo", "hello-hash", "hello-hashed", "to1d-authentic", "kex-valid"}},
	}
	return &RuleSet{Atoms: append(own, va...), Derive: append(der, vd...)}
}

func loadOrSelf(v ssa.Value) ssa.Value {
	if ld := loadOf(v); ld != nil {
		return ld
	}
	return v
}

func checkC01(c *Ctx, p *Prog, r *Result) {
	root := p.ByName["fdo.TO2"]
	if root == nil {
		r.fail("anchor fdo.TO2 not found")
		return
	}
	region := p.Reachable([]*ssa.Function{root}, nil)
	keyField := c01DiscoverKeyField(p, region)
	if keyField == "" {
		r.fail("C01: could not find the field that carries the key which verified ProveOVHdr (no Sign1.Verify on a decoded value whose key is stored into a struct field)")
	}
	r.note("key that verified ProveOVHdr is carried in field %s", keyField)
	f := NewFlow(p, c01Rules(p, r, keyField), []*ssa.Function{root}, nil)
	r.useFlow(f)
	dumpFlow(f)

	pd, _ := p.constOf("fdo/protocol", "TO2ProveDeviceMsgType")
	ne, _ := p.constOf("fdo/protocol", "TO2GetOVNextEntryMsgType")
	sends := func(typ int64) []ssa.CallInstruction {
		return f.CallSites(func(cal Callee, call ssa.CallInstruction) bool {
			return cal.Name == "fdo.Transport.Send" && isConstInt(allArgs(call)[2], typ)
		})
	}

	r.rule("C01.prove-device-after-owner-verified", "Transport.Send(type 64) requires owner-verified = {hdr-mac, mfg-key, chain, owner-is-chain-end, ovhdr-sig, nonce-echo, hello-hash, hello-hashed, to1d-authentic, kex-valid}; there is exactly one such site")
	r.floor("C01.prove-device-after-owner-verified", 2)
	s64 := sends(pd)
	r.requireAtSites(f, "C01.prove-device-after-owner-verified", s64, []Atom{"owner-verified"})
	r.table(p, "C01.prove-device-after-owner-verified", "number of type-64 send sites", p.Pos(root.Pos()), len(s64) == 1, "found "+itoa(len(s64)))

	r.rule("C01.modules-after-owner-verified", "every DeviceModule.Transition/Receive/Yield invoke in the call graph of TO2 (including the devmod writer goroutine) requires owner-verified")
	r.floor("C01.modules-after-owner-verified", 5)
	mods := f.CallSites(func(cal Callee, _ ssa.CallInstruction) bool {
		return cal.Name == "fdo/serviceinfo.DeviceModule.Transition" || cal.Name == "fdo/serviceinfo.DeviceModule.Receive" || cal.Name == "fdo/serviceinfo.DeviceModule.Yield"
	})
	r.requireAtSites(f, "C01.modules-after-owner-verified", mods, []Atom{"owner-verified"})

	r.rule("C01.success-after-owner-verified", "every success return of TO2 (credential reuse and replacement) requires owner-verified")
	r.floor("C01.success-after-owner-verified", 2)
	r.requireAtReturns(f, "C01.success-after-owner-verified", root, 1, []Atom{"owner-verified"})

	r.rule("C01.entry-index-echo", "the function sending GetOVNextEntry (type 62) returns an entry only after the decoded entry number equals the requested one")
	r.floor("C01.entry-index-echo", 1)
	for _, call := range sends(ne) {
		fn := call.Parent()
		r.requireAtReturns(f, "C01.entry-index-echo", fn, fn.Signature.Results().Len()-1, []Atom{"entry-index-eq"})
	}

	fallibleHashRule(p, r, "C01.hmac-error-checked", []*ssa.Function{root}, 2)

	r.rule("C01.no-credential-with-error", "TO2 never returns a non-nil credential together with a non-nil error")
	r.floor("C01.no-credential-with-error", 5)
	for _, b := range root.Blocks {
		ret, ok := b.Instrs[len(b.Instrs)-1].(*ssa.Return)
		if !ok || b == root.Recover {
			continue
		}
		cred := returnValue(ret, 0)
		cn, isConst := cred.(*ssa.Const)
		credNil := isConst && cn.IsNil()
		st := f.StateAt(ret)
		errNonNil := provablyNonNil(p, returnValue(ret, 1), st, 0)
		en, ok2 := returnValue(ret, 1).(*ssa.Const)
		errNilConst := ok2 && en.IsNil()
		r.table(p, "C01.no-credential-with-error", "return at block "+itoa(b.Index)+" of fdo.TO2", p.instrPos(ret), credNil || errNilConst,
			"credential nil="+boolStr(credNil)+" error provably non-nil="+boolStr(errNonNil)+" error constant nil="+boolStr(errNilConst))
	}

	voucherVerifierObligations(f, r, "C01", []string{"fdo.Voucher.VerifyEntries", "fdo.Voucher.VerifyHeader", "fdo.Voucher.VerifyManufacturerKey"})
}

func boolStr(b bool) string {
	if b {
		return "true"
	}
	return "false"
}

// sentAsHello: v is the very value handed to Transport.Send together with the
// fresh nonce in fn (same local variable), or fn received it as a parameter and
// every in-module caller passes such a value.
func sentAsHello(p *Prog, fn *ssa.Function, v ssa.Value, depth int) bool {
	if depth > 3 {
		return false
	}
	m := p.matcher(fn)
	x := loadOrSelf(stripConv(v))
	if a := baseAlloc(x); a != nil {
		// a parameter spilled into a local (value parameters whose address is taken)
		var param *ssa.Parameter
		stores := 0
		for _, ref := range *a.Referrers() {
			if st, ok := ref.(*ssa.Store); ok && st.Addr == a {
				stores++
				if pr, ok := st.Val.(*ssa.Parameter); ok {
					param = pr
				}
			}
		}
		if param == nil || stores != 1 {
			for _, b := range fn.Blocks {
				for _, in := range b.Instrs {
					if c2, ok := in.(ssa.CallInstruction); ok && p.calleeOf(c2.Common()).Name == "fdo.Transport.Send" {
						sa := allArgs(c2)
						if baseAlloc(loadOrSelf(stripConv(sa[3]))) == a && m.Prov(sa[3]).Has("fresh:") {
							return true
						}
					}
				}
			}
			return false
		}
		x = param
	}
	pr, ok := x.(*ssa.Parameter)
	if !ok {
		return false
	}
	pi := -1
	for i, q := range fn.Params {
		if q == pr {
			pi = i
		}
	}
	n := 0
	for _, ed := range p.CallGraph().in[fn] {
		cs, ok := ed.Site.(ssa.CallInstruction)
		if !ok || ed.Kind != "static" || isHarnessPkg(funcPkgPath(ed.Caller)) {
			continue
		}
		ops := callOperands(cs.Common())
		if pi >= len(ops) || !sentAsHello(p, ed.Caller, ops[pi], depth+1) {
			return false
		}
		n++
	}
	return n > 0
}
