package main

// C09.suite-valid-table — the decision table of kex.Suite.Valid.
//
// No execution: the accepted set is read off the control-flow graph. Every
// acyclic path from the entry to a `return true` is enumerated (φ-nodes are
// resolved by the edge the path arrived on, constant conditions prune), and the
// branch conditions along it — each an equality over the inputs: a dynamic-type
// test, a curve comparison, an RSA size comparison, a signature-algorithm
// constant, a suite-name constant — form one conjunction. A (device, owner,
// suite) class is accepted iff it satisfies the conjunction of some path. The
// accepted set over the finite class domain is compared with the table of FDO
// 1.1 section 3.6.5 (reproduced in the function's doc comment):
//
//	owner RSA2048 -> DHKEXid14 | ASYMKEX2048      owner P-256 -> ECDH256
//	owner RSA3072 -> DHKEXid15 | ASYMKEX3072      owner P-384 -> ECDH384
//
// for an ECDSA P-256 / P-384 device (key or ES256 / ES384 algorithm id); any
// suite for an RSA device (the specification is silent); nothing otherwise.
// A condition of any other shape makes the rule undecided.

import (
	"fmt"
	"go/constant"
	"go/token"
	"sort"
	"strings"

	"golang.org/x/tools/go/ssa"
)

type tAtom struct{ kind, who, val string }

type tCond struct {
	a   tAtom
	pos bool
}

type tObj struct {
	typ   string // "*crypto/rsa.PublicKey" | "*crypto/ecdsa.PublicKey" | "fdo/cose.SignatureAlgorithm" | "other"
	curve string
	size  string
	alg   string
	name  string
}

func c09SuiteValidTable(p *Prog, r *Result) {
	rule := "C09.suite-valid-table"
	r.rule(rule, "the set of (device key class, owner key class, key-exchange suite) triples accepted by kex.Suite.Valid — read off the conjunctions of branch conditions along every CFG path to `return true` — equals the table of FDO 1.1 section 3.6.5 over the whole finite class domain")
	r.floor(rule, 60)
	fn := p.ByName["fdo/kex.Suite.Valid"]
	if fn == nil || len(fn.Params) != 3 {
		r.fail("anchor fdo/kex.Suite.Valid not found")
		return
	}
	r.Functions["fdo/kex.Suite.Valid"] = true
	who := map[ssa.Value]string{fn.Params[1]: "device", fn.Params[2]: "owner"}
	undecided := ""
	assertOf := func(v ssa.Value) (*ssa.TypeAssert, bool) {
		ex, ok := v.(*ssa.Extract)
		if !ok || ex.Index != 0 {
			return nil, false
		}
		ta, ok := ex.Tuple.(*ssa.TypeAssert)
		if !ok || who[ta.X] == "" {
			return nil, false
		}
		return ta, true
	}
	atomOf := func(v ssa.Value) (tAtom, bool, bool) { // atom, positive, ok
		if ex, ok := v.(*ssa.Extract); ok && ex.Index == 1 {
			if ta, ok := ex.Tuple.(*ssa.TypeAssert); ok && who[ta.X] != "" {
				return tAtom{"type", who[ta.X], shortTypeString(ta.AssertedType)}, true, true
			}
		}
		bo, ok := v.(*ssa.BinOp)
		if !ok || (bo.Op != token.EQL && bo.Op != token.NEQ) {
			return tAtom{}, false, false
		}
		pos := bo.Op == token.EQL
		for _, pr := range [][2]ssa.Value{{bo.X, bo.Y}, {bo.Y, bo.X}} {
			x, y := pr[0], pr[1]
			// curve comparison
			if ld, ok := x.(*ssa.UnOp); ok && ld.Op == token.MUL {
				if fa, ok := ld.X.(*ssa.FieldAddr); ok && strings.HasSuffix(fieldName(fa.X.Type(), fa.Field), ".Curve") {
					if ta, ok := assertOf(fa.X); ok {
						if c, ok := y.(*ssa.Call); ok {
							switch p.calleeOf(c.Common()).Name {
							case "crypto/elliptic.P256":
								return tAtom{"curve", who[ta.X], "P256"}, pos, true
							case "crypto/elliptic.P384":
								return tAtom{"curve", who[ta.X], "P384"}, pos, true
							case "crypto/elliptic.P521":
								return tAtom{"curve", who[ta.X], "P521"}, pos, true
							}
						}
					}
				}
			}
			// RSA size
			if c, ok := x.(*ssa.Call); ok && p.calleeOf(c.Common()).Name == "crypto/rsa.PublicKey.Size" {
				if ta, ok := assertOf(c.Common().Args[0]); ok {
					if k, ok := constInt(y); ok {
						return tAtom{"rsasize", who[ta.X], itoa(int(k))}, pos, true
					}
				}
			}
			// signature algorithm id
			if ta, ok := assertOf(x); ok && shortTypeString(ta.AssertedType) == "fdo/cose.SignatureAlgorithm" {
				if k, ok := constInt(y); ok {
					return tAtom{"alg", who[ta.X], itoa(int(k))}, pos, true
				}
			}
			// suite name
			if x == ssa.Value(fn.Params[0]) {
				if c, ok := y.(*ssa.Const); ok && c.Value != nil {
					if sv, err := unquote(c.Value.ExactString()); err == nil {
						return tAtom{"suite", "", sv}, pos, true
					}
				}
			}
		}
		return tAtom{}, false, false
	}

	var accept [][]tCond
	npaths := 0
	suiteVal := map[ssa.Value]bool{fn.Params[0]: true}
	// the suite-name atom needs to recognise the receiver (also when handed to a helper)
	atomOfX := func(v ssa.Value) (tAtom, bool, bool) {
		if a, pos, ok := atomOf(v); ok {
			return a, pos, ok
		}
		if bo, ok := v.(*ssa.BinOp); ok && (bo.Op == token.EQL || bo.Op == token.NEQ) {
			for _, pr := range [][2]ssa.Value{{bo.X, bo.Y}, {bo.Y, bo.X}} {
				if suiteVal[pr[0]] {
					if c, ok := pr[1].(*ssa.Const); ok && c.Value != nil {
						if sv, err := unquote(c.Value.ExactString()); err == nil {
							return tAtom{"suite", "", sv}, bo.Op == token.EQL, true
						}
					}
				}
			}
		}
		return tAtom{}, false, false
	}
	type envT map[ssa.Value]ssa.Value
	resolve := func(v ssa.Value, env envT) (ssa.Value, bool) { // value, negated
		neg := false
		for k := 0; k < 24; k++ {
			if nv, ok := env[v]; ok && nv != v {
				v = nv
				continue
			}
			if x, ok := v.(*ssa.UnOp); ok && x.Op == token.NOT {
				neg = !neg
				v = x.X
				continue
			}
			break
		}
		return v, neg
	}
	// walkFn enumerates the paths of g from block b, instruction index idx; on
	// every return it calls onRet with the (resolved) results.
	var walkFn func(g *ssa.Function, b, prev *ssa.BasicBlock, idx int, env envT, conds []tCond, depth int, onRet func(results []ssa.Value, env envT, conds []tCond))
	walkFn = func(g *ssa.Function, b, prev *ssa.BasicBlock, idx int, env envT, conds []tCond, depth int, onRet func([]ssa.Value, envT, []tCond)) {
		if undecided != "" || depth > 400 {
			return
		}
		if prev != nil && idx == 0 {
			pi := -1
			for i, pb := range b.Preds {
				if pb == prev {
					pi = i
				}
			}
			var nenv envT
			for _, in := range b.Instrs {
				phi, ok := in.(*ssa.Phi)
				if !ok {
					break
				}
				if nenv == nil {
					nenv = make(envT, len(env)+4)
					for k, v := range env {
						nenv[k] = v
					}
				}
				ev := phi.Edges[pi]
				if rv, ok := env[ev]; ok {
					ev = rv
				}
				nenv[phi] = ev
			}
			if nenv != nil {
				env = nenv
			}
		}
		for k := idx; k < len(b.Instrs); k++ {
			in := b.Instrs[k]
			if call, ok := in.(*ssa.Call); ok {
				callee := p.body(call.Common().StaticCallee())
				if callee != nil && funcPkgPath(callee) == funcPkgPath(fn) && callee != g && callee != fn && len(callee.Blocks) > 0 {
					// inline: bind the callee's parameters to what the arguments denote
					ops := callOperands(call.Common())
					for pi, prm := range callee.Params {
						if pi >= len(ops) {
							break
						}
						a, _ := resolve(ops[pi], env)
						if w := who[a]; w != "" {
							who[prm] = w
						}
						if suiteVal[a] {
							suiteVal[prm] = true
						}
					}
					walkFn(callee, callee.Blocks[0], nil, 0, env, conds, depth+1, func(results []ssa.Value, env2 envT, conds2 []tCond) {
						nenv := make(envT, len(env2)+4)
						for kk, vv := range env2 {
							nenv[kk] = vv
						}
						if len(results) == 1 {
							nenv[call] = results[0]
						}
						for _, ref := range *call.Referrers() {
							if ex, ok := ref.(*ssa.Extract); ok && ex.Index < len(results) {
								nenv[ex] = results[ex.Index]
							}
						}
						walkFn(g, b, prev, k+1, nenv, conds2, depth+1, onRet)
					})
					return
				}
			}
		}
		switch last := b.Instrs[len(b.Instrs)-1].(type) {
		case *ssa.Return:
			var res []ssa.Value
			for _, rv := range last.Results {
				v, neg := resolve(rv, env)
				if neg {
					if c, ok := v.(*ssa.Const); ok && c.Value != nil {
						v = ssa.NewConst(constantBool(c.Value.ExactString() != "true"), c.Type())
					} else {
						undecided = "negated non-constant result at " + p.instrPos(last)
						return
					}
				}
				res = append(res, v)
			}
			onRet(res, env, conds)
		case *ssa.Jump:
			walkFn(g, b.Succs[0], b, 0, env, conds, depth+1, onRet)
		case *ssa.If:
			cv, neg := resolve(last.Cond, env)
			if c, ok := cv.(*ssa.Const); ok && c.Value != nil {
				t := (c.Value.ExactString() == "true") != neg
				if t {
					walkFn(g, b.Succs[0], b, 0, env, conds, depth+1, onRet)
				} else {
					walkFn(g, b.Succs[1], b, 0, env, conds, depth+1, onRet)
				}
				return
			}
			a, pos, ok := atomOfX(cv)
			if !ok {
				undecided = "condition of unrecognised shape at " + p.instrPos(last) + ": " + cv.String()
				return
			}
			if neg {
				pos = !pos
			}
			for i, pol := range []bool{pos, !pos} {
				contra := false
				for _, c := range conds {
					if c.a == a && c.pos != pol {
						contra = true
					}
				}
				if contra {
					continue
				}
				walkFn(g, b.Succs[i], b, 0, env, append(conds[:len(conds):len(conds)], tCond{a, pol}), depth+1, onRet)
			}
		default:
			undecided = "unexpected block terminator at " + p.instrPos(last)
		}
	}
	walkFn(fn, fn.Blocks[0], nil, 0, envT{}, nil, 0, func(results []ssa.Value, _ envT, conds []tCond) {
		npaths++
		if len(results) != 1 {
			undecided = "unexpected result count"
			return
		}
		c, ok := results[0].(*ssa.Const)
		if !ok || c.Value == nil {
			undecided = "non-constant return value of Suite.Valid on some path"
			return
		}
		if c.Value.ExactString() == "true" {
			accept = append(accept, append([]tCond(nil), conds...))
		}
	})

	if undecided != "" {
		r.table(p, rule, "decision table of fdo/kex.Suite.Valid", p.Pos(fn.Pos()), false, "undecided: "+undecided)
		return
	}
	r.note("C09.suite-valid-table: %d paths enumerated, %d accepting", npaths, len(accept))

	// domain
	algConst := func(name string) string {
		v, ok := p.constOf("fdo/cose", name)
		if !ok {
			r.fail("constant fdo/cose.%s not found", name)
		}
		return itoa(int(v))
	}
	es256, es384 := algConst("ES256Alg"), algConst("ES384Alg")
	rsaAlgs := map[string]bool{algConst("RS256Alg"): true, algConst("RS384Alg"): true, algConst("PS256Alg"): true, algConst("PS384Alg"): true}
	ecd, rsa, alg := "*crypto/ecdsa.PublicKey", "*crypto/rsa.PublicKey", "fdo/cose.SignatureAlgorithm"
	devices := []tObj{
		{typ: ecd, curve: "P256", name: "ECDSA P-256 key"}, {typ: ecd, curve: "P384", name: "ECDSA P-384 key"}, {typ: ecd, curve: "P521", name: "ECDSA key on another curve"},
		{typ: rsa, size: "256", name: "RSA 2048 key"}, {typ: rsa, size: "384", name: "RSA 3072 key"},
		{typ: alg, alg: es256, name: "ES256"}, {typ: alg, alg: es384, name: "ES384"}, {typ: alg, alg: "0", name: "unknown algorithm id"},
		{typ: "other", name: "value of another type"},
	}
	for a := range rsaAlgs {
		devices = append(devices, tObj{typ: alg, alg: a, name: "RSA algorithm id " + a})
	}
	sort.SliceStable(devices, func(i, j int) bool { return devices[i].name < devices[j].name })
	owners := []tObj{
		{typ: ecd, curve: "P256", name: "ECDSA P-256 key"}, {typ: ecd, curve: "P384", name: "ECDSA P-384 key"}, {typ: ecd, curve: "P521", name: "ECDSA key on another curve"},
		{typ: rsa, size: "256", name: "RSA 2048 key"}, {typ: rsa, size: "384", name: "RSA 3072 key"}, {typ: rsa, size: "512", name: "RSA 4096 key"},
		{typ: "other", name: "value of another type"},
	}
	var suites []string
	for _, v := range p.constsOfType("fdo/kex.Suite") {
		if sv, err := unquote(v.ExactString()); err == nil {
			suites = append(suites, sv)
		}
	}
	sort.Strings(suites)
	suites = append(suites, "(any other name)")
	if len(suites) < 7 {
		r.fail("expected six kex.Suite constants, found %d", len(suites)-1)
	}

	holds := func(c tCond, d, o tObj, s string) bool {
		obj := d
		if c.a.who == "owner" {
			obj = o
		}
		v := false
		switch c.a.kind {
		case "type":
			v = obj.typ == c.a.val
		case "curve":
			v = obj.typ == ecd && obj.curve == c.a.val
		case "rsasize":
			v = obj.typ == rsa && obj.size == c.a.val
		case "alg":
			v = obj.typ == alg && obj.alg == c.a.val
		case "suite":
			v = s == c.a.val
		}
		return v == c.pos
	}
	accepted := func(d, o tObj, s string) bool {
		for _, path := range accept {
			ok := true
			for _, c := range path {
				if !holds(c, d, o, s) {
					ok = false
					break
				}
			}
			if ok {
				return true
			}
		}
		return false
	}
	expected := func(d, o tObj, s string) bool {
		devEC := (d.typ == ecd && (d.curve == "P256" || d.curve == "P384")) || (d.typ == alg && (d.alg == es256 || d.alg == es384))
		devRSA := d.typ == rsa || (d.typ == alg && rsaAlgs[d.alg])
		switch {
		case devRSA:
			return true
		case !devEC:
			return false
		}
		switch {
		case o.typ == rsa && o.size == "256":
			return s == "DHKEXid14" || s == "ASYMKEX2048"
		case o.typ == rsa && o.size == "384":
			return s == "DHKEXid15" || s == "ASYMKEX3072"
		case o.typ == ecd && o.curve == "P256":
			return s == "ECDH256"
		case o.typ == ecd && o.curve == "P384":
			return s == "ECDH384"
		}
		return false
	}
	for _, d := range devices {
		for _, o := range owners {
			var bad []string
			for _, s := range suites {
				if got, want := accepted(d, o, s), expected(d, o, s); got != want {
					bad = append(bad, fmt.Sprintf("%s: Valid=%v, FDO 1.1 table=%v", s, got, want))
				}
			}
			r.table(p, rule, fmt.Sprintf("device %s / owner %s", d.name, o.name), p.Pos(fn.Pos()), len(bad) == 0, strings.Join(bad, "; "))
		}
	}
}

func constantBool(b bool) constant.Value { return constant.MakeBool(b) }
