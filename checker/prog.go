package main

// Loading of /repo's current working tree into one type-checked SSA program.
//
// All analysed modules (root, ./sqlite, ./fsim) are loaded together through a
// throw-away go.work written to a temp dir, so that every module package is an
// "initial" package with syntax and function bodies and all engines see one
// program with one identity for every type and function.

import (
	"fmt"
	"go/token"
	"go/types"
	"os"
	"path/filepath"
	"sort"
	"strings"

	"golang.org/x/tools/go/packages"
	"golang.org/x/tools/go/ssa"
	"golang.org/x/tools/go/ssa/ssautil"
)

const modulePath = "github.com/fido-device-onboard/go-fdo"

// BuildConfig is one build configuration of the repository.
type BuildConfig struct {
	Name   string
	GOARCH string
	Tags   string
}

var (
	cfgDefault = BuildConfig{Name: "linux/amd64", GOARCH: "amd64"}
	cfg386     = BuildConfig{Name: "linux/386", GOARCH: "386"}
	cfgTinygo  = BuildConfig{Name: "linux/amd64+tinygo", GOARCH: "amd64", Tags: "tinygo"}
)

// Prog is the loaded program plus indexes used by every engine.
type Prog struct {
	Repo    string
	Config  BuildConfig
	Fset    *token.FileSet
	Pkgs    []*packages.Package
	SSA     *ssa.Program
	ModPkgs map[*ssa.Package]bool

	// Funcs are all source-level functions (with bodies) of module packages,
	// including anonymous functions, sorted by name. Generic functions appear
	// once (their origin).
	Funcs  []*ssa.Function
	ByName map[string]*ssa.Function

	nameCache map[*ssa.Function]string
	cg        *callGraph
	viaMemo   map[*ssa.Function]ProvSet
	viaBusy   map[*ssa.Function]bool
	ctxMemo   map[any]ProvSet
	ctxBusy   map[any]bool
	ctxCut    bool
}

// fdotest and its sub-packages are the repository's own test harness shipped
// in non-_test files. They are loaded (so that types resolve) but they are not
// part of any property's region unless a rule names them.
func isHarnessPkg(path string) bool {
	return strings.HasPrefix(path, modulePath+"/fdotest") || strings.HasPrefix(path, modulePath+"/examples")
}

func loadProg(repo string, cfg BuildConfig, modules []string) (*Prog, error) {
	tmp, err := os.MkdirTemp("", "fdocheck-work-")
	if err != nil {
		return nil, err
	}
	defer os.RemoveAll(tmp)

	var use strings.Builder
	var patterns []string
	for _, m := range modules {
		dir := filepath.Join(repo, m)
		if _, err := os.Stat(filepath.Join(dir, "go.mod")); err != nil {
			return nil, fmt.Errorf("module %s: %w", m, err)
		}
		fmt.Fprintf(&use, "\t%s\n", dir)
		patterns = append(patterns, dir+"/...")
	}
	work := filepath.Join(tmp, "go.work")
	if err := os.WriteFile(work, []byte("go 1.25.0\n\nuse (\n"+use.String()+")\n"), 0o644); err != nil {
		return nil, err
	}

	env := []string{}
	for _, kv := range os.Environ() {
		k, _, _ := strings.Cut(kv, "=")
		switch k {
		case "GOWORK", "GOFLAGS", "GOTOOLCHAIN", "GOSUMDB", "GOARCH", "GOOS", "GOPROXY", "CGO_ENABLED":
			continue
		}
		env = append(env, kv)
	}
	env = append(env, "GOWORK="+work, "GOPROXY=off", "GOFLAGS=-mod=readonly", "GOOS=linux", "GOARCH="+cfg.GOARCH, "CGO_ENABLED=0")

	pcfg := &packages.Config{
		Mode: packages.NeedName | packages.NeedFiles | packages.NeedCompiledGoFiles | packages.NeedImports |
			packages.NeedDeps | packages.NeedTypes | packages.NeedSyntax | packages.NeedTypesInfo |
			packages.NeedTypesSizes | packages.NeedModule,
		Dir:   repo,
		Env:   env,
		Tests: false,
	}
	if cfg.Tags != "" {
		pcfg.BuildFlags = []string{"-tags=" + cfg.Tags}
	}
	pkgs, err := packages.Load(pcfg, patterns...)
	if err != nil {
		return nil, fmt.Errorf("packages.Load: %w", err)
	}
	if len(pkgs) == 0 {
		return nil, fmt.Errorf("no packages loaded from %s", repo)
	}
	var errs []string
	packages.Visit(pkgs, nil, func(p *packages.Package) {
		for _, e := range p.Errors {
			errs = append(errs, e.Error())
		}
	})
	if len(errs) > 0 {
		sort.Strings(errs)
		if len(errs) > 10 {
			errs = errs[:10]
		}
		return nil, fmt.Errorf("type-check/load errors (the tree does not build):\n  %s", strings.Join(errs, "\n  "))
	}

	sprog, spkgs := ssautil.Packages(pkgs, ssa.BuilderMode(0))
	sprog.Build()

	p := &Prog{
		Repo: repo, Config: cfg, Fset: pkgs[0].Fset, Pkgs: pkgs, SSA: sprog,
		ModPkgs: map[*ssa.Package]bool{}, ByName: map[string]*ssa.Function{},
		nameCache: map[*ssa.Function]string{},
	}
	for i, sp := range spkgs {
		if sp == nil {
			return nil, fmt.Errorf("no SSA for package %s", pkgs[i].PkgPath)
		}
		if strings.HasPrefix(pkgs[i].PkgPath, modulePath) {
			p.ModPkgs[sp] = true
		}
	}
	all := ssautil.AllFunctions(sprog)
	// methods of generic named types are reachable through no method set, so
	// AllFunctions misses them unless module code instantiates the type: add the
	// declared (origin) methods of every named type of the module packages
	var addFn func(fn *ssa.Function)
	addFn = func(fn *ssa.Function) {
		if fn == nil || all[fn] {
			return
		}
		all[fn] = true
		for _, a := range fn.AnonFuncs {
			addFn(a)
		}
	}
	for sp := range p.ModPkgs {
		for _, mem := range sp.Members {
			tm, ok := mem.(*ssa.Type)
			if !ok {
				continue
			}
			named, ok := tm.Type().(*types.Named)
			if !ok || named.TypeParams().Len() == 0 {
				continue
			}
			for i := 0; i < named.NumMethods(); i++ {
				addFn(sprog.FuncValue(named.Method(i)))
			}
		}
	}
	for fn := range all {
		if fn.Blocks == nil || fn.Synthetic != "" {
			continue
		}
		if fn.Origin() != nil { // instantiation: body lives in the origin
			continue
		}
		pkg := fn.Pkg
		if pkg == nil && fn.Parent() != nil {
			for q := fn.Parent(); q != nil; q = q.Parent() {
				if q.Pkg != nil {
					pkg = q.Pkg
					break
				}
			}
		}
		if pkg == nil || !p.ModPkgs[pkg] {
			continue
		}
		p.Funcs = append(p.Funcs, fn)
	}
	sort.Slice(p.Funcs, func(i, j int) bool {
		a, b := p.FuncName(p.Funcs[i]), p.FuncName(p.Funcs[j])
		if a != b {
			return a < b
		}
		return p.Funcs[i].Pos() < p.Funcs[j].Pos()
	})
	for _, fn := range p.Funcs {
		n := p.FuncName(fn)
		if _, dup := p.ByName[n]; !dup {
			p.ByName[n] = fn
		}
	}
	if len(p.Funcs) < 500 {
		return nil, fmt.Errorf("only %d module functions loaded; expected well over 500", len(p.Funcs))
	}
	return p, nil
}

// pkgShort maps an import path to the short form used in rule tables: the root
// module package is "fdo", its sub-packages "fdo/<rel>", everything else keeps
// its import path.
func pkgShort(path string) string {
	if path == modulePath {
		return "fdo"
	}
	if rest, ok := strings.CutPrefix(path, modulePath+"/"); ok {
		return "fdo/" + rest
	}
	return path
}

func typeShort(t types.Type) string {
	for {
		if p, ok := t.(*types.Pointer); ok {
			t = p.Elem()
			continue
		}
		break
	}
	t = types.Unalias(t)
	switch t := t.(type) {
	case *types.Named:
		o := t.Obj()
		if o.Pkg() == nil {
			return o.Name()
		}
		return pkgShort(o.Pkg().Path()) + "." + o.Name()
	case *types.TypeParam:
		return "?" + t.Obj().Name()
	case *types.Interface:
		return "?"
	}
	return "?" + t.String()
}

// objName names a *types.Func: pkg.Func, pkg.Type.Method, or ?.Method for a
// method of an anonymous interface.
func objName(f *types.Func) string {
	f = f.Origin()
	sig := f.Type().(*types.Signature)
	if recv := sig.Recv(); recv != nil {
		ts := typeShort(recv.Type())
		return ts + "." + f.Name()
	}
	if f.Pkg() == nil {
		return f.Name()
	}
	return pkgShort(f.Pkg().Path()) + "." + f.Name()
}

// FuncName is the stable short name of an SSA function.
func (p *Prog) FuncName(fn *ssa.Function) string {
	if fn == nil {
		return "<nil>"
	}
	if n, ok := p.nameCache[fn]; ok {
		return n
	}
	var n string
	if o := fn.Origin(); o != nil {
		n = p.FuncName(o)
	} else if fn.Parent() != nil {
		idx := 0
		for i, a := range fn.Parent().AnonFuncs {
			if a == fn {
				idx = i + 1
			}
		}
		n = fmt.Sprintf("%s$%d", p.FuncName(fn.Parent()), idx)
	} else if obj, ok := fn.Object().(*types.Func); ok && obj != nil {
		n = objName(obj)
	} else if fn.Pkg != nil {
		n = pkgShort(fn.Pkg.Pkg.Path()) + "." + fn.Name()
	} else {
		n = fn.String()
	}
	p.nameCache[fn] = n
	return n
}

// body returns the function whose blocks represent fn (the origin of an
// instantiation), or nil when fn has no analysable body in the module.
func (p *Prog) body(fn *ssa.Function) *ssa.Function {
	if fn == nil {
		return nil
	}
	if o := fn.Origin(); o != nil {
		fn = o
	}
	if fn.Blocks == nil {
		return nil
	}
	pkg := fn.Pkg
	for q := fn; pkg == nil && q != nil; q = q.Parent() {
		pkg = q.Pkg
	}
	if pkg == nil || !p.ModPkgs[pkg] {
		return nil
	}
	return fn
}

// Pos renders a position relative to the repository root.
func (p *Prog) Pos(pos token.Pos) string {
	if !pos.IsValid() {
		return "-"
	}
	ps := p.Fset.Position(pos)
	rel, err := filepath.Rel(p.Repo, ps.Filename)
	if err != nil {
		rel = ps.Filename
	}
	return fmt.Sprintf("%s:%d", rel, ps.Line)
}

// instrPos finds a usable position for an instruction (falls back to
// operands and then to the enclosing function).
func (p *Prog) instrPos(in ssa.Instruction) string {
	if in.Pos().IsValid() {
		return p.Pos(in.Pos())
	}
	if c, ok := in.(ssa.CallInstruction); ok {
		if c.Common().Pos().IsValid() {
			return p.Pos(c.Common().Pos())
		}
	}
	for _, op := range in.Operands(nil) {
		if *op != nil && (*op).Pos().IsValid() {
			return p.Pos((*op).Pos())
		}
	}
	return p.Pos(in.Parent().Pos())
}

// Callee describes the target of a call instruction.
type Callee struct {
	Name   string        // short name; "" if unknown
	Fn     *ssa.Function // static callee (instance), nil for invoke/dynamic
	Invoke bool
	Field  string // for calls through a struct field holding a func: "pkg.Type.Field"
}

func (p *Prog) calleeOf(c *ssa.CallCommon) Callee {
	if c.IsInvoke() {
		return Callee{Name: objName(c.Method), Invoke: true}
	}
	if fn := c.StaticCallee(); fn != nil {
		return Callee{Name: p.FuncName(fn), Fn: fn}
	}
	if b, ok := c.Value.(*ssa.Builtin); ok {
		return Callee{Name: "builtin." + b.Name()}
	}
	// Call through a func-typed struct field: s.AcceptVoucher(...)
	if f := fieldOfLoad(c.Value); f != "" {
		return Callee{Name: "field:" + f, Field: f}
	}
	return Callee{}
}

// fieldOfLoad returns "pkg.Type.Field" when v is a load of (or a Field
// selection from) a named struct's field.
func fieldOfLoad(v ssa.Value) string {
	switch v := v.(type) {
	case *ssa.UnOp:
		if v.Op == token.MUL {
			if fa, ok := v.X.(*ssa.FieldAddr); ok {
				return fieldName(fa.X.Type(), fa.Field)
			}
		}
	case *ssa.Field:
		return fieldName(v.X.Type(), v.Field)
	}
	return ""
}

func fieldName(t types.Type, idx int) string {
	base := t
	if p, ok := types.Unalias(base).Underlying().(*types.Pointer); ok {
		base = p.Elem()
	}
	st, ok := types.Unalias(base).Underlying().(*types.Struct)
	if !ok || idx >= st.NumFields() {
		return ""
	}
	return typeShort(base) + "." + st.Field(idx).Name()
}
