package main

import (
	"fmt"
	"sort"
	"strings"

	"golang.org/x/tools/go/ssa"
)

// C08 — server effects happen only through in-order, session-bound message
// sequences.

func init() {
	checks["C08"] = checkC08
	explanations["C08"] = "Structural necessary conditions: (1) who-may-call with E1: AddVoucher only under msg=12 after both session reads of the DI step succeeded; SetRVBlob only under msg=22 after the session nonce read and comparison; ReplaceVoucher only under msg=70 after the Done nonce comparison and the session reads of replacement HMAC/GUID/rvinfo; owner-module HandleInfo/ProduceInfo only under msg=68, ProduceInfo only after the session MTU (stored by message 66) was read; (2) dispatch tables: each Respond switches over exactly its protocol's request constants, answers request+1, and protocol.Of classifies every constant of message_types.go; (3) handler token life cycle: NewToken only for the four start messages, every failure response in the request path is followed on all paths by token invalidation, the success response is written only if the response type is not final/error or the token was invalidated, a client error message (255) invalidates a presented token, and every invalidation uses a token-bearing context; (4) sqlite: sessionID reports ok only after hmac.Equal and InvalidateToken deletes the session row (cascades are C18's). (5) every Set* method of the session-state interfaces is called only under its message arm (what a handler stores is the evidence that its message arrived). Not decided: interleavings across sessions (only as far as all state is keyed by the token, C18), bounded histories as executions."
}

func c08Rules(p *Prog) *RuleSet {
	arms, _ := msgArmAtoms(p, requestMsgNames)
	finals := []int64{}
	for _, n := range []string{"DIDoneMsgType", "TO0AcceptOwnerMsgType", "TO1RVRedirectMsgType", "TO2Done2MsgType"} {
		v, _ := p.constOf("fdo/protocol", n)
		finals = append(finals, v)
	}
	errT, _ := p.constOf("fdo/protocol", "ErrorMsgType")
	respType := resultOfCall(named("fdo/protocol.Responder.Respond"), 0)
	doneNonce := "call:fdo.TO2SessionState.ProveDeviceNonce"
	rs := &RuleSet{
		Atoms: []AtomDef{
			errNil("di-header-read", "Session.IncompleteVoucherHeader returned no error", named("fdo.DISessionState.IncompleteVoucherHeader"), nil),
			errNil("di-chain-read", "Session.DeviceCertChain returned no error", named("fdo.DISessionState.DeviceCertChain"), nil),
			errNil("to0-nonce-read", "Session.TO0SignNonce returned no error", named("fdo.TO0SessionState.TO0SignNonce"), nil),
			equal("to0-nonce-eq", "decoded TO0 nonce equals the session's", provAnd(decodedX, lacksProv("call:fdo.TO0SessionState.TO0SignNonce")), hasProvX("call:fdo.TO0SessionState.TO0SignNonce")),
			errNil("done-nonce-read", "Session.ProveDeviceNonce returned no error", named("fdo.TO2SessionState.ProveDeviceNonce"), nil),
			errNil("setup-nonce-read", "Session.SetupDeviceNonce returned no error", named("fdo.TO2SessionState.SetupDeviceNonce"), nil),
			equal("done-nonce-eq", "decoded Done nonce equals the session's ProveDevice nonce", provAnd(decodedX, lacksProv(doneNonce)), provAnd(hasProvX(doneNonce), lacksProv("decoded:"))),
			errNil("repl-hmac-read", "Session.ReplacementHmac returned no error (not the credential-reuse case)", named("fdo.TO2SessionState.ReplacementHmac"), nil),
			errNil("repl-guid-read", "Session.ReplacementGUID returned no error", named("fdo.TO2SessionState.ReplacementGUID"), nil),
			errNil("rvinfo-read", "Session.RvInfo returned no error", named("fdo.TO2SessionState.RvInfo"), nil),
			errNil("guid-read", "Session.GUID returned no error", named("fdo.TO2SessionState.GUID"), nil),
			errNil("mtu-read", "Session.MTU (stored by DeviceServiceInfoReady) returned no error", named("fdo.TO2SessionState.MTU"), nil),
			// handler
			AtomDef{Name: "is-start", Doc: "the request is one of the four protocol start messages", Edge: func(m *Matcher, pd Pred, holds bool) bool {
				if pd.Kind != "bool" || !holds {
					return false
				}
				return isStartPhi(m, pd.X)
			}},
			// the same fact per value: `x == <start constant>` established for a
			// uint8 x (carried through classification helpers by the
			// parametric summaries)
			AtomDef{Name: "start-value", EdgeDyn: func(m *Matcher, pd Pred, holds bool) []Atom {
				if pd.Kind != "eq" || !holds {
					return nil
				}
				starts := map[int64]bool{}
				for _, n := range []string{"DIAppStartMsgType", "TO0HelloMsgType", "TO1HelloRVMsgType", "TO2HelloDeviceMsgType"} {
					if c, ok := m.P.constOf("fdo/protocol", n); ok {
						starts[c] = true
					}
				}
				for _, pr := range [][2]ssa.Value{{pd.X, pd.Y}, {pd.Y, pd.X}} {
					if c, ok := constInt(pr[1]); ok && starts[c] && pr[0].Type().Underlying().String() == "uint8" {
						if _, isConst := pr[0].(*ssa.Const); !isConst {
							return []Atom{Atom("v:start:" + canon(pr[0]))}
						}
					}
					// compared with the result of an in-module table function that
					// only ever returns start constants (or 0, which is no message type)
					if ex, ok := pr[1].(*ssa.Extract); ok && pr[0].Type().Underlying().String() == "uint8" {
						if call, ok := ex.Tuple.(*ssa.Call); ok {
							if g := m.P.body(call.Call.StaticCallee()); g != nil {
								all, n := true, 0
								for _, b := range g.Blocks {
									if ret, ok := b.Instrs[len(b.Instrs)-1].(*ssa.Return); ok && ex.Index < len(ret.Results) {
										c, isC := constInt(ret.Results[ex.Index])
										if !isC || !(starts[c] || c == 0) {
											all = false
										}
										n++
									}
								}
								if _, isConst := pr[0].(*ssa.Const); all && n > 0 && !isConst {
									return []Atom{Atom("v:start:" + canon(pr[0]))}
								}
							}
						}
					}
				}
				return nil
			}},
			AtomDef{Name: "invalidated", Doc: "the token was invalidated", Exec: func(m *Matcher, call ssa.CallInstruction) bool {
				return invalidates(m.P, call)
			}},
			AtomDef{Name: "resp-not-final", Doc: "the response type is none of the final message types", Edge: func(m *Matcher, pd Pred, holds bool) bool { return false }},
			AtomDef{Name: "resp-is-error", Doc: "the response type is the error type", Edge: func(m *Matcher, pd Pred, holds bool) bool {
				if pd.Kind != "eq" || !holds {
					return false
				}
				return (isConstInt(pd.Y, errT) && respType(m, pd.X)) || (isConstInt(pd.X, errT) && respType(m, pd.Y))
			}},
			notEqualConst("resp-not-error", "the response type is not the error type", errT, respType),
			AtomDef{Name: "token-empty", Doc: "no token was presented", Edge: func(m *Matcher, pd Pred, holds bool) bool {
				if pd.Kind != "eq" || !holds {
					return false
				}
				c, ok := pd.Y.(*ssa.Const)
				return ok && c.Value != nil && c.Value.ExactString() == `""` && pd.X.Type().Underlying().String() == "string"
			}},
			// sqlite
			equal("token-mac-eq", "hmac.Equal(token MAC, MAC recomputed over the session id under the store's secret) is true",
				provAnd(hasProvX("call:encoding/base64.Encoding.DecodeString"), func(m *Matcher, v ssa.Value) bool { return !filledBySum(m, v) }), filledBySum),
			boolTrue("session-ok", "sessionID reported a valid token", func(n string) bool { return n == "fdo/sqlite.DB.sessionID" }, 1, nil),
		},
		Derive: []Derivation{
			{"final-handled", []Atom{"invalidated"}},
			{"error-handled", []Atom{"invalidated"}},
			{"error-handled", []Atom{"resp-not-error"}},
			{"client-error-handled", []Atom{"invalidated"}},
			{"client-error-handled", []Atom{"token-empty"}},
		},
	}
	var body []Atom
	for _, k := range finals {
		name := fmt.Sprintf("resp!=%d", k)
		rs.Atoms = append(rs.Atoms, notEqualConst(name, "the response type is not "+itoa(int(k)), k, respType))
		body = append(body, name)
	}
	rs.Derive = append(rs.Derive, Derivation{"final-handled", body})
	rs.Atoms = append(rs.Atoms, arms...)
	return rs
}

// invalidates: the call is TokenService.InvalidateToken or a static callee
// whose body invokes it.
func invalidates(p *Prog, call ssa.CallInstruction) bool {
	if _, isDefer := call.(*ssa.Defer); isDefer {
		return false
	}
	cal := p.calleeOf(call.Common())
	if cal.Name == "fdo/protocol.TokenService.InvalidateToken" {
		return true
	}
	body := p.body(cal.Fn)
	if body == nil {
		return false
	}
	for _, b := range body.Blocks {
		for _, in := range b.Instrs {
			if c2, ok := in.(ssa.CallInstruction); ok && p.calleeOf(c2.Common()).Name == "fdo/protocol.TokenService.InvalidateToken" {
				return true
			}
		}
	}
	return false
}

// isStartPhi: v is a phi whose incoming values are false or `x == <start
// constant>` for the four protocol start messages.
func isStartPhi(m *Matcher, v ssa.Value) bool {
	phi, ok := v.(*ssa.Phi)
	if !ok {
		return false
	}
	starts := map[int64]bool{}
	for _, n := range []string{"DIAppStartMsgType", "TO0HelloMsgType", "TO1HelloRVMsgType", "TO2HelloDeviceMsgType"} {
		if c, ok := m.P.constOf("fdo/protocol", n); ok {
			starts[c] = true
		}
	}
	seen := 0
	for _, e := range phi.Edges {
		if provablyFalse(e) {
			continue
		}
		b, ok := e.(*ssa.BinOp)
		if !ok || b.Op.String() != "==" {
			return false
		}
		c, ok := constInt(b.Y)
		if !ok || !starts[c] {
			return false
		}
		if b.X.Type().Underlying().String() != "uint8" {
			return false
		}
		if _, isConst := b.X.(*ssa.Const); isConst {
			return false
		}
		seen++
	}
	return seen > 0
}

// setterArms: the message arm(s) in which each session setter is called on the
// reviewed tree, with the later check that relies on it. A setter that is not
// listed must be called under exactly one arm.
var setterArms = map[string]struct {
	arms []string
	why  string
}{
	"fdo.DISessionState.SetDeviceCertChain":         {[]string{"msg=10"}, "read back by SetHMAC (12) to build the voucher"},
	"fdo.DISessionState.SetIncompleteVoucherHeader": {[]string{"msg=10"}, "read back by SetHMAC (12) to build the voucher"},
	"fdo.TO0SessionState.SetTO0SignNonce":           {[]string{"msg=20"}, "compared with the nonce signed in OwnerSign (22)"},
	"fdo.TO1SessionState.SetTO1ProofNonce":          {[]string{"msg=30"}, "compared with the nonce signed in ProveToRV (32)"},
	"fdo.TO2SessionState.SetGUID":                   {[]string{"msg=60"}, "selects the voucher in every later message"},
	"fdo.TO2SessionState.SetProveDeviceNonce":       {[]string{"msg=60"}, "compared with the nonce signed in ProveDevice (64) and sent in Done (70)"},
	"fdo.TO2SessionState.SetXSession":               {[]string{"msg=60", "msg=64"}, "created with the owner's parameter in 60 and completed with the device's parameter in 64"},
	"fdo.TO2SessionState.SetSetupDeviceNonce":       {[]string{"msg=64"}, "returned in Done2 (71)"},
	"fdo.TO2SessionState.SetReplacementGUID":        {[]string{"msg=64"}, "read back by Done (70) to build the replacement voucher"},
	"fdo.TO2SessionState.SetRvInfo":                 {[]string{"msg=64"}, "read back by Done (70) to build the replacement voucher"},
	"fdo.TO2SessionState.SetMTU":                    {[]string{"msg=66"}, "its presence is what lets DeviceServiceInfo (68) run the owner modules"},
	"fdo.TO2SessionState.SetReplacementHmac":        {[]string{"msg=66"}, "its presence selects voucher replacement over credential reuse in Done (70)"},
	"fdo.TO2SessionState.SetDevmod":                 {[]string{"msg=68"}, "devmod is received in DeviceServiceInfo"},
}

func checkC08(c *Ctx, p *Prog, r *Result) {
	rs := c08Rules(p)
	get := func(n string) *ssa.Function {
		fn := p.ByName[n]
		if fn == nil {
			r.fail("anchor %s not found", n)
		}
		return fn
	}

	// (1) effects and their prerequisites, per responder
	type eff struct {
		root, callee string
		req          []Atom
	}
	effects := []eff{
		{"fdo.DIServer.Respond", "fdo.VoucherPersistentState.AddVoucher", []Atom{"msg=12", "di-header-read", "di-chain-read"}},
		{"fdo.TO0Server.Respond", "fdo.RendezvousBlobPersistentState.SetRVBlob", []Atom{"msg=22", "to0-nonce-read", "to0-nonce-eq"}},
		{"fdo.TO2Server.Respond", "fdo.OwnerVoucherPersistentState.ReplaceVoucher", []Atom{"msg=70", "done-nonce-read", "setup-nonce-read", "done-nonce-eq", "repl-hmac-read", "guid-read", "rvinfo-read", "repl-guid-read"}},
		{"fdo.TO2Server.Respond", "fdo/serviceinfo.OwnerModule.HandleInfo", []Atom{"msg=68"}},
		{"fdo.TO2Server.Respond", "fdo/serviceinfo.OwnerModule.ProduceInfo", []Atom{"msg=68", "mtu-read"}},
		{"fdo.TO2Server.Respond", "fdo/serviceinfo.ModuleStateMachine.Module", []Atom{"msg=68"}},
		{"fdo.TO2Server.Respond", "fdo/serviceinfo.ModuleStateMachine.NextModule", []Atom{"msg=68", "mtu-read"}},
	}
	flows := map[string]*Flow{}
	for _, e := range effects {
		root := get(e.root)
		if root == nil {
			continue
		}
		f := flows[e.root]
		if f == nil {
			f = NewFlow(p, rs, []*ssa.Function{root}, nil)
			flows[e.root] = f
			r.useFlow(f)
			dumpFlow(f)
		}
		rule := "C08.effect " + strings.TrimPrefix(e.callee[strings.LastIndex(e.callee, ".")+1:], ".")
		r.rule(rule, fmt.Sprintf("every %s call reachable from %s requires %v", e.callee, e.root, e.req))
		r.floor(rule, 1)
		callee := e.callee
		sites := f.CallSites(func(cal Callee, call ssa.CallInstruction) bool {
			return cal.Name == callee && strings.HasPrefix(p.FuncName(call.Parent()), "fdo.")
		})
		r.requireAtSites(f, rule, sites, e.req)
	}
	// session setters are sequencing evidence: a later message is accepted
	// because an earlier handler stored something. Every setter of the session
	// state interfaces is therefore called under exactly one message arm, the
	// same at all of its call sites.
	r.rule("C08.session-setter-arm", "every Set* method of the per-protocol session state interfaces is called, in the region of its protocol's Respond, under exactly one message arm (msg=N), the same at all of its call sites: what a handler stores is the evidence that its message arrived (e.g. the MTU is stored by message 66 only, so that 68 cannot be accepted without it)")
	r.floor("C08.session-setter-arm", 8)
	{
		if root := get("fdo.TO1Server.Respond"); root != nil && flows["fdo.TO1Server.Respond"] == nil {
			flows["fdo.TO1Server.Respond"] = NewFlow(p, rs, []*ssa.Function{root}, nil)
		}
		var roots []string
		for rn := range flows {
			roots = append(roots, rn)
		}
		sort.Strings(roots)
		for _, rn := range roots {
			f := flows[rn]
			arms := map[string]map[string]bool{}
			pos := map[string]string{}
			sites := f.CallSites(func(cal Callee, call ssa.CallInstruction) bool {
				i := strings.LastIndex(cal.Name, ".")
				if i <= 0 || !strings.HasSuffix(cal.Name[:i], "SessionState") || !strings.HasPrefix(cal.Name, "fdo.") || !strings.HasPrefix(cal.Name[i+1:], "Set") || !strings.HasPrefix(p.FuncName(call.Parent()), "fdo.") {
					return false
				}
				// a setter returns only an error (SetupDeviceNonce is a getter)
				sig := call.Common().Signature()
				return sig != nil && sig.Results().Len() == 1 && isErrorType(sig.Results().At(0).Type())
			})
			for _, call := range sites {
				name := p.calleeOf(call.Common()).Name
				if arms[name] == nil {
					arms[name] = map[string]bool{}
					pos[name] = p.instrPos(call)
				}
				st := f.StateAt(call)
				n := 0
				if !st.top {
					for a := range st.m {
						if strings.HasPrefix(a, "msg=") {
							arms[name][a] = true
							n++
						}
					}
				}
				if n != 1 {
					arms[name][fmt.Sprintf("?%d arms at %s", n, p.instrPos(call))] = true
				}
			}
			var names []string
			for n := range arms {
				names = append(names, n)
			}
			sort.Strings(names)
			for _, n := range names {
				var as []string
				for a := range arms[n] {
					as = append(as, a)
				}
				sort.Strings(as)
				want, pinned := setterArms[n]
				okv := len(as) == 1 && strings.HasPrefix(as[0], "msg=")
				detail := fmt.Sprintf("called under %v", as)
				if pinned {
					okv = strings.Join(as, " ") == strings.Join(want.arms, " ")
					detail += fmt.Sprintf("; expected %v: %s", want.arms, want.why)
				}
				r.table(p, "C08.session-setter-arm", n+" in "+rn, pos[n], okv, detail)
			}
		}
	}

	// the effects have no other wire-reachable call site
	r.rule("C08.effect-sites", "the four effects have exactly the expected number of call sites reachable from the four Respond methods and the HTTP handler")
	r.floor("C08.effect-sites", 4)
	var roots []*ssa.Function
	for _, n := range []string{"fdo.DIServer.Respond", "fdo.TO0Server.Respond", "fdo.TO1Server.Respond", "fdo.TO2Server.Respond", "fdo/http.Handler.ServeHTTP"} {
		if fn := get(n); fn != nil {
			roots = append(roots, fn)
		}
	}
	fall := NewFlow(p, &RuleSet{}, roots, nil)
	for callee, want := range map[string]int{"fdo.VoucherPersistentState.AddVoucher": 1, "fdo.RendezvousBlobPersistentState.SetRVBlob": 1, "fdo.OwnerVoucherPersistentState.ReplaceVoucher": 1, "fdo/serviceinfo.OwnerModule.ProduceInfo": 1} {
		cs := fall.CallSites(func(cal Callee, call ssa.CallInstruction) bool {
			return cal.Name == callee && strings.HasPrefix(p.FuncName(call.Parent()), "fdo.")
		})
		var where []string
		for _, s := range cs {
			where = append(where, p.FuncName(s.Parent()))
		}
		r.table(p, "C08.effect-sites", callee, "-", len(cs) == want, fmt.Sprintf("want %d, found %d in %v", want, len(cs), where))
	}

	// (2) dispatch tables
	c08Dispatch(p, r, flows, rs)

	// (3) handler token life cycle
	if h := get("fdo/http.Handler.ServeHTTP"); h != nil {
		f := NewFlow(p, rs, []*ssa.Function{h}, nil)
		r.useFlow(f)
		dumpFlow(f)
		r.rule("C08.new-token-on-start-only", "TokenService.NewToken is called only for the four protocol start messages")
		r.floor("C08.new-token-on-start-only", 1)
		for _, call := range f.CallSites(func(cal Callee, call ssa.CallInstruction) bool {
			return cal.Name == "fdo/protocol.TokenService.NewToken" && strings.HasPrefix(p.FuncName(call.Parent()), "fdo/http.")
		}) {
			st := f.StateAt(call)
			okv := st.Has("is-start")
			if !okv && !st.top {
				for a := range st.m {
					if strings.HasPrefix(a, "v:start:") {
						okv = true
					}
				}
			}
			o := Obl{Rule: "C08.new-token-on-start-only", Construct: "C08.new-token-on-start-only | " + siteKey(p, call), Pos: p.instrPos(call), Config: p.Config.Name,
				Required: []string{"is-start"}, Found: st.list(), OK: okv}
			if !okv {
				o.Missing = []string{"is-start"}
				o.Detail = "NewToken is reachable without the message type having been found equal to one of the four start types (directly, through a boolean flag, or through a classification helper). " + r.explain(f, call.Parent(), call.Block(), []string{"is-start"})
			}
			r.add(o)
		}

		r.rule("C08.success-response-after-invalidation", "the 200 response is written only if (the response type is none of 13/23/33/71 or the token was invalidated) and (it is not 255 or the token was invalidated)")
		r.floor("C08.success-response-after-invalidation", 1)
		writes := f.CallSites(func(cal Callee, call ssa.CallInstruction) bool {
			if cal.Name != "net/http.ResponseWriter.WriteHeader" {
				return false
			}
			return isConstInt(allArgs(call)[1], 200) && strings.HasPrefix(p.FuncName(call.Parent()), "fdo/http.Handler")
		})
		r.requireAtSites(f, "C08.success-response-after-invalidation", writes, []Atom{"final-handled", "error-handled"})

		r.rule("C08.failure-response-then-invalidate", "in the request path (functions holding the Responder), every writeErr call is followed on every path to the function's exit by a token invalidation")
		r.floor("C08.failure-response-then-invalidate", 8)
		for _, fn := range f.Order {
			hasResp := false
			for _, prm := range fn.Params {
				if typeShort(prm.Type()) == "fdo/protocol.Responder" {
					hasResp = true
				}
			}
			if !hasResp {
				continue
			}
			for _, b := range fn.Blocks {
				for i, in := range b.Instrs {
					call, ok := in.(ssa.CallInstruction)
					if !ok {
						continue
					}
					if n := p.calleeOf(call.Common()).Name; n != "fdo/http.writeErr" && !writesErrorResponse(p, call) {
						continue
					}
					ok2, path := allPathsHit(b, i+1, func(x ssa.Instruction) bool {
						c2, ok := x.(ssa.CallInstruction)
						return ok && invalidates(p, c2)
					})
					r.table(p, "C08.failure-response-then-invalidate", siteKey(p, call), p.instrPos(in), ok2, "exit reached without invalidation via "+path)
				}
			}
		}

		r.rule("C08.client-error-invalidates", "the handler of a client error message (255) reaches its exit only with no token presented or after invalidating it")
		r.floor("C08.client-error-invalidates", 1)
		for _, fn := range f.Order {
			// the closure that decodes an ErrorMessage from the request body
			decodesErr := false
			for _, b := range fn.Blocks {
				for _, in := range b.Instrs {
					if call, ok := in.(ssa.CallInstruction); ok && p.calleeOf(call.Common()).Name == "fdo/cbor.Decoder.Decode" {
						if strings.Contains(shortTypeString(allArgs(call)[1].Type()), "any") {
							if mi, ok := allArgs(call)[1].(*ssa.MakeInterface); ok && strings.Contains(shortTypeString(mi.X.Type()), "protocol.ErrorMessage") {
								decodesErr = true
							}
						}
					}
				}
			}
			if !decodesErr || !strings.HasPrefix(p.FuncName(fn), "fdo/http.Handler") {
				continue
			}
			for i, b := range fn.Blocks {
				if ret, ok := b.Instrs[len(b.Instrs)-1].(*ssa.Return); ok && b != fn.Recover {
					st := f.StateAt(ret)
					o := Obl{Rule: "C08.client-error-invalidates", Construct: fmt.Sprintf("C08.client-error-invalidates | exit #%d of %s", i, p.FuncName(fn)), Pos: p.instrPos(ret), Config: p.Config.Name,
						Required: []string{"client-error-handled"}, Found: st.list(), OK: st.Has("client-error-handled")}
					if !o.OK {
						o.Missing = []string{"client-error-handled"}
						o.Detail = r.explain(f, fn, b, []string{"invalidated"})
					}
					r.add(o)
				}
			}
		}

		r.rule("C08.invalidate-context", "every token invalidation is given a context that carries the token (the ctx parameter / captured ctx or a TokenContext result), never the bare request context")
		r.floor("C08.invalidate-context", 4)
		for _, call := range f.CallSites(func(cal Callee, call ssa.CallInstruction) bool {
			return invalidates(p, call) && strings.HasPrefix(p.FuncName(call.Parent()), "fdo/http.")
		}) {
			m := f.matcherFor(call.Parent())
			var ctxArg ssa.Value
			for _, a := range allArgs(call) {
				if typeShort(a.Type()) == "context.Context" {
					ctxArg = a
				}
			}
			ok := ctxArg != nil
			detail := "no context argument"
			if ctxArg != nil {
				pv := m.Prov(ctxArg)
				bare := pv.Has("call:net/http.Request.Context") && !pv.Has("call:fdo/protocol.TokenService.TokenContext")
				ok = !bare && (pv.Has("call:fdo/protocol.TokenService.TokenContext") || pv.HasPrefix("param:") || pv.HasPrefix("freevar:"))
				detail = "context provenance: " + joinMax(pv.List(), 6)
			}
			r.table(p, "C08.invalidate-context", siteKey(p, call), p.instrPos(call), ok, detail)
		}
	}

	// (4) sqlite token authenticity
	if sid := get("fdo/sqlite.DB.sessionID"); sid != nil {
		f := NewFlow(p, rs, []*ssa.Function{sid}, nil)
		r.useFlow(f)
		r.rule("C08.sqlite-token-mac", "(*sqlite.DB).sessionID reports ok only after hmac.Equal(token MAC, recomputed MAC) is true")
		r.floor("C08.sqlite-token-mac", 1)
		for i, b := range sid.Blocks {
			ret, ok := b.Instrs[len(b.Instrs)-1].(*ssa.Return)
			if !ok || provablyFalse(returnValue(ret, 1)) {
				continue
			}
			st := f.StateAt(ret)
			o := Obl{Rule: "C08.sqlite-token-mac", Construct: fmt.Sprintf("C08.sqlite-token-mac | ok-return #%d of fdo/sqlite.DB.sessionID", i), Pos: p.instrPos(ret), Config: p.Config.Name,
				Required: []string{"token-mac-eq"}, Found: st.list(), OK: st.Has("token-mac-eq")}
			if !o.OK {
				o.Missing = []string{"token-mac-eq"}
				o.Detail = r.explain(f, sid, b, o.Missing)
			}
			r.add(o)
		}
	}
	if inv := get("fdo/sqlite.DB.InvalidateToken"); inv != nil {
		f := NewFlow(p, rs, []*ssa.Function{inv}, nil)
		r.rule("C08.sqlite-invalidate", "(*sqlite.DB).InvalidateToken executes DELETE FROM sessions WHERE id = <authenticated session id>")
		r.floor("C08.sqlite-invalidate", 1)
		sites := f.CallSites(func(cal Callee, call ssa.CallInstruction) bool {
			if cal.Name != "database/sql.DB.ExecContext" || call.Parent() != inv {
				return false
			}
			return true
		})
		r.requireAtSites(f, "C08.sqlite-invalidate", sites, []Atom{"session-ok"})
		for _, call := range sites {
			m := f.matcherFor(inv)
			args := allArgs(call)
			q := ""
			if cst, ok := args[2].(*ssa.Const); ok && cst.Value != nil {
				q = strings.ToUpper(strings.Join(strings.Fields(cst.Value.ExactString()), " "))
			}
			ok := strings.Contains(q, "DELETE FROM SESSIONS WHERE ID = ?") && len(args) >= 4 && m.Prov(args[3]).Has("call:fdo/sqlite.DB.sessionID")
			r.table(p, "C08.sqlite-invalidate", "statement of "+siteKey(p, call), p.instrPos(call), ok, "query="+q)
		}
	}
}

// writesErrorResponse: a static callee that writes an HTTP 500 response.
func writesErrorResponse(p *Prog, call ssa.CallInstruction) bool {
	body := p.body(p.calleeOf(call.Common()).Fn)
	if body == nil || !strings.HasPrefix(p.FuncName(body), "fdo/http.") || body.Signature.Recv() != nil {
		return false
	}
	for _, b := range body.Blocks {
		for _, in := range b.Instrs {
			if c2, ok := in.(ssa.CallInstruction); ok && p.calleeOf(c2.Common()).Name == "net/http.ResponseWriter.WriteHeader" {
				if isConstInt(allArgs(c2)[1], 500) {
					return true
				}
			}
		}
	}
	return false
}

// allPathsHit: starting after instruction index from in block b, every path to
// a function exit passes an instruction satisfying hit. Returns a witness path
// otherwise.
func allPathsHit(b *ssa.BasicBlock, from int, hit func(ssa.Instruction) bool) (bool, string) {
	type item struct {
		b    *ssa.BasicBlock
		from int
		path string
	}
	seen := map[*ssa.BasicBlock]bool{}
	stack := []item{{b, from, fmt.Sprintf("b%d", b.Index)}}
	for len(stack) > 0 {
		it := stack[len(stack)-1]
		stack = stack[:len(stack)-1]
		found := false
		for i := it.from; i < len(it.b.Instrs); i++ {
			if hit(it.b.Instrs[i]) {
				found = true
				break
			}
		}
		if found {
			continue
		}
		last := it.b.Instrs[len(it.b.Instrs)-1]
		if _, isRet := last.(*ssa.Return); isRet {
			return false, it.path
		}
		if _, isPanic := last.(*ssa.Panic); isPanic {
			continue
		}
		for _, s := range it.b.Succs {
			if !seen[s] {
				seen[s] = true
				stack = append(stack, item{s, 0, it.path + fmt.Sprintf(">b%d", s.Index)})
			}
		}
	}
	return true, ""
}

// c08Dispatch checks the responders' switch tables against message_types.go.
func c08Dispatch(p *Prog, r *Result, flows map[string]*Flow, rs *RuleSet) {
	r.rule("C08.dispatch", "each Respond method switches over exactly the request constants of its protocol and answers request+1; protocol.Of maps every message constant to its protocol")
	r.floor("C08.dispatch", 5)
	expect := map[string][]string{
		"fdo.DIServer.Respond":  {"DIAppStartMsgType", "DISetHmacMsgType"},
		"fdo.TO0Server.Respond": {"TO0HelloMsgType", "TO0OwnerSignMsgType"},
		"fdo.TO1Server.Respond": {"TO1HelloRVMsgType", "TO1ProveToRVMsgType"},
		"fdo.TO2Server.Respond": {"TO2HelloDeviceMsgType", "TO2GetOVNextEntryMsgType", "TO2ProveDeviceMsgType", "TO2DeviceServiceInfoReadyMsgType", "TO2DeviceServiceInfoMsgType", "TO2DoneMsgType"},
	}
	var names []string
	for n := range expect {
		names = append(names, n)
	}
	sort.Strings(names)
	for _, n := range names {
		fn := p.ByName[n]
		if fn == nil {
			r.fail("anchor %s not found", n)
			continue
		}
		f := flows[n]
		if f == nil {
			f = NewFlow(p, rs, []*ssa.Function{fn}, nil)
		}
		want := map[int64]bool{}
		for _, cn := range expect[n] {
			v, ok := p.constOf("fdo/protocol", cn)
			if !ok {
				r.fail("constant protocol.%s not found", cn)
			}
			want[v] = true
		}
		// request constants tested against the msgType parameter
		got := map[int64]bool{}
		for _, b := range fn.Blocks {
			if ifi, ok := b.Instrs[len(b.Instrs)-1].(*ssa.If); ok {
				if bo, ok := ifi.Cond.(*ssa.BinOp); ok && bo.Op.String() == "==" {
					if _, isParam := bo.X.(*ssa.Parameter); isParam {
						if c, ok := constInt(bo.Y); ok {
							got[c] = true
						}
					}
				}
			}
		}
		// response constants: the success return's type operand is a phi of constants
		respOK := true
		detail := ""
		for _, sr := range f.successReturns(fn, -1) {
			phi, ok := returnValue(sr.Ret, 0).(*ssa.Phi)
			if !ok {
				continue
			}
			for i, e := range phi.Edges {
				c, ok := constInt(e)
				if !ok {
					respOK = false
					detail += " non-constant response type;"
					continue
				}
				if c == 0 {
					continue // unknown request type: zero value
				}
				pred := phi.Block().Preds[i]
				st := f.in[pred]
				if !st.Has(fmt.Sprintf("msg=%d", c-1)) {
					respOK = false
					detail += fmt.Sprintf(" response %d is not produced under msg=%d;", c, c-1)
				}
				if !want[c-1] {
					respOK = false
					detail += fmt.Sprintf(" response %d has no request %d in this protocol;", c, c-1)
				}
			}
		}
		r.table(p, "C08.dispatch", n, p.Pos(fn.Pos()), sameInt64Set(got, want) && respOK, fmt.Sprintf("cases=%v expected=%v%s", keysOf(got), keysOf(want), detail))
	}
	// protocol.Of
	of := p.ByName["fdo/protocol.Of"]
	if of == nil {
		r.fail("anchor fdo/protocol.Of not found")
		return
	}
	mapping := map[int64]int64{}
	for _, b := range of.Blocks {
		ifi, ok := b.Instrs[len(b.Instrs)-1].(*ssa.If)
		if !ok {
			continue
		}
		bo, ok := ifi.Cond.(*ssa.BinOp)
		if !ok || bo.Op.String() != "==" {
			continue
		}
		c, ok := constInt(bo.Y)
		if !ok {
			continue
		}
		t := b.Succs[0]
		for k := 0; k < 4 && len(t.Instrs) == 1; k++ {
			if _, isJump := t.Instrs[0].(*ssa.Jump); isJump {
				t = t.Succs[0]
			}
		}
		if ret, ok := t.Instrs[len(t.Instrs)-1].(*ssa.Return); ok {
			if pc, ok := constInt(ret.Results[0]); ok {
				mapping[c] = pc
			}
		}
	}
	protoOf := map[string]string{"DI": "DIProtocol", "TO0": "TO0Protocol", "TO1": "TO1Protocol", "TO2": "TO2Protocol", "Err": "AnyProtocol"}
	bad := ""
	n := 0
	for _, pk := range p.Pkgs {
		if pkgShort(pk.PkgPath) != "fdo/protocol" {
			continue
		}
		for _, name := range pk.Types.Scope().Names() {
			if !strings.HasSuffix(name, "MsgType") {
				continue
			}
			v, ok := p.constOf("fdo/protocol", name)
			if !ok {
				continue
			}
			pfx := name[:3]
			if strings.HasPrefix(name, "DI") {
				pfx = "DI"
			}
			want, ok := p.constOf("fdo/protocol", protoOf[pfx])
			if !ok {
				bad += " no protocol for " + name + ";"
				continue
			}
			n++
			if got, ok := mapping[v]; !ok || got != want {
				bad += fmt.Sprintf(" %s=%d maps to %d, expected %d;", name, v, got, want)
			}
		}
	}
	r.table(p, "C08.dispatch", "fdo/protocol.Of", p.Pos(of.Pos()), bad == "" && n >= 25, fmt.Sprintf("%d message constants classified;%s", n, bad))
}

func sameInt64Set(a, b map[int64]bool) bool {
	if len(a) != len(b) {
		return false
	}
	for k := range a {
		if !b[k] {
			return false
		}
	}
	return true
}

func keysOf(m map[int64]bool) []int64 {
	var l []int64
	for k := range m {
		l = append(l, k)
	}
	sort.Slice(l, func(i, j int) bool { return l[i] < l[j] })
	return l
}

// filledBySum: v is the result of hash.Hash.Sum, or a buffer made here and
// handed (sliced) to hash.Hash.Sum as its destination.
func filledBySum(m *Matcher, v ssa.Value) bool {
	if m.Prov(v).HasX("call:hash.Hash.Sum") {
		return true // computed here or by a helper that returns the Sum
	}
	ms, ok := v.(*ssa.MakeSlice)
	if !ok {
		return false
	}
	for _, ref := range *ms.Referrers() {
		sl, ok := ref.(*ssa.Slice)
		if !ok {
			continue
		}
		for _, r2 := range *sl.Referrers() {
			if call, ok := r2.(ssa.CallInstruction); ok && m.P.calleeOf(call.Common()).Name == "hash.Hash.Sum" {
				return true
			}
		}
	}
	return false
}
