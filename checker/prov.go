package main

// Provenance classes: an over-approximate backward slice over SSA def-use
// chains inside one function. A class is attached to a value if SOME flow from
// a source of that class exists.

import (
	"go/token"
	"sort"
	"strings"

	"golang.org/x/tools/go/ssa"
)

// ProvSet is a set of provenance items, written "kind:name":
//
//	decoded:            filled by a CBOR decode sink
//	fresh:              filled by crypto/rand
//	call:<callee>       result of a call to <callee>
//	out:<callee>        memory passed by address to <callee>
//	param:<i>           i-th parameter of the enclosing function (receiver = 0)
//	field:<T.f>         passes through field f of named struct T
//	const:<v>           constant
//	global:<pkg.name>   package-level variable
//	freevar:<name>      captured variable of a closure
//	make:               fresh container
type ProvSet map[string]bool

// Has reports whether the item was established inside the function itself.
func (s ProvSet) Has(item string) bool { return s[item] }

// HasX additionally accepts items imported across a call boundary ("~" items:
// what the in-module callers pass for a parameter, what a callee's result
// derives from). Matchers that describe the CLASS of an operand ("decoded
// data", "the fresh nonce", "a field of the decoded payload") opt into HasX so
// that a check moved into a helper, or a value computed by a helper, keeps its
// class; matchers that identify a particular object or exclude a class stay
// with Has.
func (s ProvSet) HasX(item string) bool { return s[item] || s["~"+item] }

// HasLocal is Has (kept for readability at call sites that exclude a class).
func (s ProvSet) HasLocal(item string) bool { return s[item] }

// HasPrefix reports whether a local item starts with prefix.
func (s ProvSet) HasPrefix(prefix string) bool {
	for k := range s {
		if strings.HasPrefix(k, prefix) {
			return true
		}
	}
	return false
}

// HasPrefixX: a local or imported item starts with prefix.
func (s ProvSet) HasPrefixX(prefix string) bool {
	for k := range s {
		if strings.HasPrefix(k, prefix) || (strings.HasPrefix(k, "~") && strings.HasPrefix(k[1:], prefix)) {
			return true
		}
	}
	return false
}

// HasPrefixLocal is HasPrefix.
func (s ProvSet) HasPrefixLocal(prefix string) bool { return s.HasPrefix(prefix) }

func (s ProvSet) List() []string {
	var l []string
	for k := range s {
		l = append(l, k)
	}
	sort.Strings(l)
	return l
}

func (s ProvSet) addAll(o ProvSet) {
	for k := range o {
		s[k] = true
	}
}

type provCache struct {
	p        *Prog
	fn       *ssa.Function
	memo     map[ssa.Value]ProvSet
	busy     map[ssa.Value]bool
	hitCycle bool
	allocUse map[*ssa.Alloc][]ssa.Instruction
	// escapes[a] lists allocs (typically a varargs array) into which the
	// address of a was stored; a call taking those also takes a.
	escapes map[*ssa.Alloc][]*ssa.Alloc
}

func newProvCache(p *Prog, fn *ssa.Function) *provCache {
	return &provCache{p: p, fn: fn, memo: map[ssa.Value]ProvSet{}, busy: map[ssa.Value]bool{}}
}

var decodeSinks = map[string]bool{
	"fdo/cbor.Decoder.Decode":      true,
	"fdo/cbor.Unmarshal":           true,
	"fdo/cose.HeaderMap.Parse":     true,
	"fdo/cose.HeaderParser.Parse":  true,
	"encoding/json.Unmarshal":      true,
	"encoding/json.Decoder.Decode": true,
}

var freshSinks = map[string]bool{
	"crypto/rand.Read": true,
	"io.ReadFull":      false, // only fresh when the reader is a rand source; decided at the site
}

// baseAlloc strips address arithmetic and conversions down to an Alloc.
func baseAlloc(v ssa.Value) *ssa.Alloc {
	for i := 0; i < 64; i++ {
		switch x := v.(type) {
		case *ssa.Alloc:
			return x
		case *ssa.FieldAddr:
			v = x.X
		case *ssa.IndexAddr:
			v = x.X
		case *ssa.Slice:
			v = x.X
		case *ssa.Convert:
			v = x.X
		case *ssa.ChangeType:
			v = x.X
		case *ssa.MakeInterface:
			v = x.X
		case *ssa.ChangeInterface:
			v = x.X
		case *ssa.SliceToArrayPointer:
			v = x.X
		default:
			return nil
		}
	}
	return nil
}

func (pc *provCache) indexAllocs() {
	if pc.allocUse != nil {
		return
	}
	pc.allocUse = map[*ssa.Alloc][]ssa.Instruction{}
	pc.escapes = map[*ssa.Alloc][]*ssa.Alloc{}
	var visit func(fn *ssa.Function)
	visit = func(fn *ssa.Function) {
		for _, b := range fn.Blocks {
			for _, in := range b.Instrs {
				switch x := in.(type) {
				case *ssa.Store:
					if a := baseAlloc(x.Addr); a != nil {
						pc.allocUse[a] = append(pc.allocUse[a], in)
						if src := baseAlloc(x.Val); src != nil && src != a && isPointerLike(x.Val) {
							pc.escapes[src] = append(pc.escapes[src], a)
						}
					}
				case ssa.CallInstruction:
					seen := map[*ssa.Alloc]bool{}
					for _, arg := range callOperands(x.Common()) {
						if a := baseAlloc(arg); a != nil && !seen[a] {
							seen[a] = true
							pc.allocUse[a] = append(pc.allocUse[a], in)
						}
					}
				}
			}
		}
	}
	visit(pc.fn)
}

// callOperands returns receiver (for invoke and method calls) followed by args.
func callOperands(c *ssa.CallCommon) []ssa.Value {
	if c.IsInvoke() {
		return append([]ssa.Value{c.Value}, c.Args...)
	}
	return c.Args
}

func (m *Matcher) Prov(v ssa.Value) ProvSet { return m.pv.prov(v) }

func (pc *provCache) prov(v ssa.Value) ProvSet {
	if v == nil {
		return ProvSet{}
	}
	if s, ok := pc.memo[v]; ok {
		return s
	}
	if pc.busy[v] {
		pc.hitCycle = true
		return ProvSet{}
	}
	pc.busy[v] = true
	s := pc.compute(v)
	delete(pc.busy, v)
	// A result computed while a cycle was cut may be incomplete for every
	// value but the outermost one; memoise only what is known complete.
	if len(pc.busy) == 0 {
		pc.hitCycle = false
		pc.memo[v] = s
	} else if !pc.hitCycle {
		pc.memo[v] = s
	}
	return s
}

func (pc *provCache) compute(v ssa.Value) ProvSet {
	s := ProvSet{}
	switch x := v.(type) {
	case *ssa.Const:
		if x.Value == nil {
			s["const:nil"] = true
		} else {
			s["const:"+x.Value.ExactString()] = true
		}
	case *ssa.Parameter:
		for i, p := range x.Parent().Params {
			if p == x {
				s["param:"+itoa(i)] = true
				// what the in-module callers pass (so that a check extracted
				// into a helper still sees the class of its operands)
				s.addAll(pc.p.paramCtx(x.Parent(), i))
			}
		}
	case *ssa.FreeVar:
		s["freevar:"+x.Name()] = true
		for i, fv := range x.Parent().FreeVars {
			if fv == x {
				s.addAll(pc.p.freeVarCtx(x.Parent(), i))
			}
		}
	case *ssa.Global:
		s["global:"+pkgShort(x.Pkg.Pkg.Path())+"."+x.Name()] = true
	case *ssa.Function:
		s["func:"+pc.p.FuncName(x)] = true
	case *ssa.Builtin:
	case *ssa.Alloc:
		s.addAll(pc.allocContents(x))
	case *ssa.FieldAddr:
		if al, path, ok := addrPath(x); ok {
			s.addAll(pc.allocContentsPath(al, path))
			// field items of the enclosing path
			for q := ssa.Value(x); ; {
				fa, isFA := q.(*ssa.FieldAddr)
				if !isFA {
					break
				}
				if f := fieldName(fa.X.Type(), fa.Field); f != "" {
					s["field:"+f] = true
				}
				q = fa.X
			}
			break
		}
		s.addAll(pc.prov(x.X))
		if f := fieldName(x.X.Type(), x.Field); f != "" {
			s["field:"+f] = true
		}
	case *ssa.Field:
		s.addAll(pc.prov(x.X))
		if f := fieldName(x.X.Type(), x.Field); f != "" {
			s["field:"+f] = true
		}
	case *ssa.IndexAddr:
		s.addAll(pc.prov(x.X))
	case *ssa.Index:
		s.addAll(pc.prov(x.X))
	case *ssa.Lookup:
		s.addAll(pc.prov(x.X))
		s.addAll(prefixed("key:", pc.prov(x.Index)))
	case *ssa.Slice:
		s.addAll(pc.prov(x.X))
	case *ssa.UnOp:
		s.addAll(pc.prov(x.X))
	case *ssa.BinOp:
		s.addAll(pc.prov(x.X))
		s.addAll(pc.prov(x.Y))
	case *ssa.Convert:
		s.addAll(pc.prov(x.X))
	case *ssa.ChangeType:
		s.addAll(pc.prov(x.X))
	case *ssa.ChangeInterface:
		s.addAll(pc.prov(x.X))
	case *ssa.MakeInterface:
		s.addAll(pc.prov(x.X))
	case *ssa.SliceToArrayPointer:
		s.addAll(pc.prov(x.X))
	case *ssa.TypeAssert:
		s.addAll(pc.prov(x.X))
	case *ssa.Extract:
		if c, ok := x.Tuple.(*ssa.Call); ok {
			s.addAll(pc.callResult(c))
		} else {
			s.addAll(pc.prov(x.Tuple))
		}
	case *ssa.Call:
		s.addAll(pc.callResult(x))
	case *ssa.Phi:
		for _, e := range x.Edges {
			s.addAll(pc.prov(e))
		}
	case *ssa.MakeClosure:
		s["make:closure"] = true
	case *ssa.MakeMap, *ssa.MakeSlice, *ssa.MakeChan:
		s["make:"] = true
	case *ssa.Next:
		s.addAll(pc.prov(x.Iter))
	case *ssa.Range:
		s.addAll(pc.prov(x.X))
	case *ssa.Select:
	}
	return s
}

func prefixed(pre string, in ProvSet) ProvSet {
	out := ProvSet{}
	for k := range in {
		if strings.HasPrefix(k, "const:") {
			out[pre+k] = true
		}
	}
	return out
}

func (pc *provCache) callResult(c *ssa.Call) ProvSet {
	s := ProvSet{}
	cal := pc.p.calleeOf(c.Common())
	if cal.Name != "" {
		s["call:"+cal.Name] = true
	} else {
		s["call:?"] = true
	}
	if body := pc.p.body(c.Common().StaticCallee()); body != nil {
		for k := range pc.p.retVia(body) {
			s[k] = true
		}
	}
	for _, a := range callOperands(c.Common()) {
		s.addAll(pc.prov(a))
	}
	if !c.Common().IsInvoke() {
		if _, ok := c.Common().Value.(*ssa.Function); !ok {
			s.addAll(pc.prov(c.Common().Value))
		}
	}
	return s
}

// isPointerLike: v denotes the address of (part of) an alloc rather than a
// loaded value.
func isPointerLike(v ssa.Value) bool {
	switch x := v.(type) {
	case *ssa.Alloc, *ssa.FieldAddr, *ssa.IndexAddr:
		return true
	case *ssa.MakeInterface:
		return isPointerLike(x.X)
	case *ssa.Slice:
		return true
	case *ssa.Convert:
		return isPointerLike(x.X)
	case *ssa.ChangeType:
		return isPointerLike(x.X)
	}
	return false
}

// addrPath resolves a chain of FieldAddr on a local alloc to the alloc and the
// field index path.
func addrPath(v ssa.Value) (*ssa.Alloc, []int, bool) {
	var rev []int
	for i := 0; i < 16; i++ {
		switch x := v.(type) {
		case *ssa.FieldAddr:
			rev = append(rev, x.Field)
			v = x.X
		case *ssa.Alloc:
			path := make([]int, len(rev))
			for j := range rev {
				path[j] = rev[len(rev)-1-j]
			}
			return x, path, true
		default:
			return nil, nil, false
		}
	}
	return nil, nil, false
}

func pathCompatible(a, b []int) bool {
	n := len(a)
	if len(b) < n {
		n = len(b)
	}
	for i := 0; i < n; i++ {
		if a[i] != b[i] {
			return false
		}
	}
	return true
}

func (pc *provCache) allocContents(a *ssa.Alloc) ProvSet { return pc.allocContentsPath(a, nil) }

// allocContentsPath is allocContents restricted to what may be stored at the
// given field path (stores to sibling fields are excluded).
func (pc *provCache) allocContentsPath(a *ssa.Alloc, path []int) ProvSet {
	pc.indexAllocs()
	s := ProvSet{}
	for _, d := range pc.escapes[a] {
		for _, in := range pc.allocUse[d] {
			if c, ok := in.(ssa.CallInstruction); ok {
				name := pc.p.calleeOf(c.Common()).Name
				if name == "" {
					name = "?"
				}
				if !strings.HasPrefix(name, "builtin.") {
					s["out:"+name] = true
				}
			}
		}
	}
	for _, in := range pc.allocUse[a] {
		switch x := in.(type) {
		case *ssa.Store:
			if len(path) > 0 {
				if _, sp, ok := addrPath(x.Addr); ok && !pathCompatible(sp, path) {
					continue
				}
			}
			s.addAll(pc.prov(x.Val))
		case ssa.CallInstruction:
			c := x.Common()
			cal := pc.p.calleeOf(c)
			switch {
			case decodeSinks[cal.Name]:
				// the decoded object is the last argument; a receiver or data
				// argument that merely derives from the alloc does not count
				last := c.Args[len(c.Args)-1]
				if baseAlloc(last) == a {
					s["decoded:"] = true
					if cal.Name == "fdo/cose.HeaderMap.Parse" || cal.Name == "fdo/cose.HeaderParser.Parse" {
						s["out:"+cal.Name] = true
						for _, o := range callOperands(c) {
							if baseAlloc(o) != a {
								s.addAll(pc.prov(o))
							}
						}
					}
				}
			case cal.Name == "crypto/rand.Read":
				s["fresh:"] = true
			case cal.Name == "io.ReadFull" && len(c.Args) == 2 && pc.prov(c.Args[0]).Has("global:crypto/rand.Reader") && baseAlloc(c.Args[1]) == a:
				s["fresh:"] = true
			case cal.Name == "builtin.copy":
				if len(c.Args) == 2 && baseAlloc(c.Args[0]) == a {
					s.addAll(pc.prov(c.Args[1]))
				}
			case cal.Name == "builtin.append":
				// append(dst, ...) does not write through dst's alloc
			default:
				name := cal.Name
				if name == "" {
					name = "?"
				}
				// Unknown callee handed the address: recorded as a marker only.
				// Flows from the other arguments into the memory are assumed
				// for the enumerated writer sinks above, not in general (most
				// callees here only read: Equal, Write, Encode, Errorf ...).
				s["out:"+name] = true
			}
		}
	}
	return s
}

// CallResult traces v back to the call that produced it and the result index.
func (m *Matcher) CallResult(v ssa.Value) (ssa.CallInstruction, int) {
	for i := 0; i < 8; i++ {
		switch x := v.(type) {
		case *ssa.Call:
			return x, 0
		case *ssa.Extract:
			if c, ok := x.Tuple.(*ssa.Call); ok {
				return c, x.Index
			}
			return nil, 0
		case *ssa.ChangeInterface:
			v = x.X
		case *ssa.UnOp:
			if x.Op != token.MUL {
				return nil, 0
			}
			al, ok := x.X.(*ssa.Alloc)
			if !ok {
				return nil, 0
			}
			// spilled variable: unique reaching store in the same block
			var last ssa.Value
			for _, in := range x.Block().Instrs {
				if in == ssa.Instruction(x) {
					break
				}
				if st, ok := in.(*ssa.Store); ok && st.Addr == al {
					last = st.Val
				}
			}
			if last == nil {
				// single store in the whole function
				m.pv.indexAllocs()
				n := 0
				for _, in := range m.pv.allocUse[al] {
					if st, ok := in.(*ssa.Store); ok && st.Addr == al {
						last = st.Val
						n++
					}
				}
				if n != 1 {
					return nil, 0
				}
			}
			v = last
		default:
			return nil, 0
		}
	}
	return nil, 0
}

// CalleeName of the call producing v ("" if v is not a call result).
func (m *Matcher) ResultOf(v ssa.Value) (string, int, ssa.CallInstruction) {
	call, idx := m.CallResult(v)
	if call == nil {
		return "", 0, nil
	}
	return m.P.calleeOf(call.Common()).Name, idx, call
}

func itoa(i int) string {
	if i == 0 {
		return "0"
	}
	neg := i < 0
	if neg {
		i = -i
	}
	var b []byte
	for i > 0 {
		b = append([]byte{byte('0' + i%10)}, b...)
		i /= 10
	}
	if neg {
		b = append([]byte{'-'}, b...)
	}
	return string(b)
}

// retVia summarises what an in-module function's results derive from, as
// "via:<callee>" items (one per call whose result flows into a returned value,
// transitively through in-module callees).
func (p *Prog) retVia(fn *ssa.Function) ProvSet {
	if p.viaMemo == nil {
		p.viaMemo = map[*ssa.Function]ProvSet{}
		p.viaBusy = map[*ssa.Function]bool{}
	}
	if s, ok := p.viaMemo[fn]; ok {
		return s
	}
	if p.viaBusy[fn] {
		return ProvSet{}
	}
	p.viaBusy[fn] = true
	out := ProvSet{}
	pc := newProvCache(p, fn)
	for _, b := range fn.Blocks {
		ret, ok := b.Instrs[len(b.Instrs)-1].(*ssa.Return)
		if !ok {
			continue
		}
		for i := range ret.Results {
			for k := range pc.prov(returnValue(ret, i)) {
				switch {
				case strings.HasPrefix(k, "call:"):
					out["via:"+strings.TrimPrefix(k, "call:")] = true
					out["~"+k] = true // a value computed in a helper still derives from that call
				case strings.HasPrefix(k, "via:"), strings.HasPrefix(k, "~"):
					out[k] = true
				case strings.HasPrefix(k, "field:"), strings.HasPrefix(k, "decoded:"), strings.HasPrefix(k, "fresh:"), strings.HasPrefix(k, "global:"), strings.HasPrefix(k, "out:"), strings.HasPrefix(k, "key:"):
					out["~"+k] = true
				}
			}
		}
	}
	delete(p.viaBusy, fn)
	p.viaMemo[fn] = out
	return out
}

// importable: provenance items that keep their meaning across a call boundary.
func importable(k string) bool {
	k = strings.TrimPrefix(k, "~")
	for _, pre := range []string{"param:", "freevar:", "make:", "func:"} {
		if strings.HasPrefix(k, pre) {
			return false
		}
	}
	return true
}

// paramCtx: union of the provenance of the arguments the in-module call sites
// pass for parameter i of fn (context-insensitive; function-local items dropped).
func (p *Prog) paramCtx(fn *ssa.Function, i int) ProvSet {
	type key struct {
		fn *ssa.Function
		i  int
	}
	if p.ctxMemo == nil {
		p.ctxMemo = map[any]ProvSet{}
		p.ctxBusy = map[any]bool{}
	}
	k := key{fn, i}
	if s, ok := p.ctxMemo[k]; ok {
		return s
	}
	if p.ctxBusy[k] || len(p.ctxBusy) > 12 {
		p.ctxCut = true
		return ProvSet{}
	}
	p.ctxBusy[k] = true
	outer := len(p.ctxBusy) == 1
	if outer {
		p.ctxCut = false
	}
	out := ProvSet{}
	for _, ed := range p.CallGraph().in[fn] {
		call, ok := ed.Site.(ssa.CallInstruction)
		if !ok || ed.Kind == "closure" || ed.Kind == "funcvalue" || ed.Kind == "codec" || isHarnessPkg(funcPkgPath(ed.Caller)) {
			continue
		}
		ops := callOperands(call.Common())
		if i >= len(ops) {
			continue
		}
		for it := range p.matcher(ed.Caller).Prov(ops[i]) {
			if importable(it) {
				out["~"+strings.TrimPrefix(it, "~")] = true
			}
		}
	}
	delete(p.ctxBusy, k)
	if !p.ctxCut || outer {
		p.ctxMemo[k] = out
	}
	return out
}

// freeVarCtx: provenance of what the creating MakeClosure binds to free variable i.
func (p *Prog) freeVarCtx(fn *ssa.Function, i int) ProvSet {
	type key struct {
		fn *ssa.Function
		i  int
		fv bool
	}
	if p.ctxMemo == nil {
		p.ctxMemo = map[any]ProvSet{}
		p.ctxBusy = map[any]bool{}
	}
	k := key{fn, i, true}
	if s, ok := p.ctxMemo[k]; ok {
		return s
	}
	if p.ctxBusy[k] || len(p.ctxBusy) > 12 {
		p.ctxCut = true
		return ProvSet{}
	}
	p.ctxBusy[k] = true
	out := ProvSet{}
	for _, ed := range p.CallGraph().in[fn] {
		mc, ok := ed.Site.(*ssa.MakeClosure)
		if !ok || i >= len(mc.Bindings) || isHarnessPkg(funcPkgPath(ed.Caller)) {
			continue
		}
		for it := range p.matcher(ed.Caller).Prov(mc.Bindings[i]) {
			if importable(it) {
				out["~"+strings.TrimPrefix(it, "~")] = true
			}
		}
	}
	delete(p.ctxBusy, k)
	if !p.ctxCut {
		p.ctxMemo[k] = out
	}
	return out
}
