package main

// E3 — guard analysis for peer-controlled values: explicit panics (G1),
// allocations (G2), index/slice bounds (G3, with the compiler's bounds-check
// elimination as discharge oracle), stdlib preconditions (G4) and unchecked
// type assertions (G5).

import (
	"bufio"
	"fmt"
	"go/constant"
	"go/token"
	"os"
	"os/exec"
	"path/filepath"
	"regexp"
	"sort"
	"strconv"
	"strings"

	"golang.org/x/tools/go/ssa"
)

var wireRoots = []string{
	"fdo/http.Handler.ServeHTTP",
	"fdo.DIServer.Respond", "fdo.TO0Server.Respond", "fdo.TO1Server.Respond", "fdo.TO2Server.Respond",
	"fdo.DIServer.HandleError", "fdo.TO0Server.HandleError", "fdo.TO1Server.HandleError", "fdo.TO2Server.HandleError",
	"fdo.TO2Server.CryptSession",
	"fdo.DI", "fdo.TO1", "fdo.TO2", "fdo.TO0Client.RegisterBlob",
	"fdo/http.Transport.Send",
	"fdo/protocol.ParseDeviceRvInfo", "fdo/protocol.ParseOwnerRvInfo",
}

// E3 is the shared result of the taint analysis over a set of roots.
type E3 struct {
	p      *Prog
	roots  []*ssa.Function
	region map[*ssa.Function]bool
	order  []*ssa.Function
	t      *Taint
}

func newE3(p *Prog, r *Result, rootNames []string, extra []*ssa.Function) *E3 {
	e := &E3{p: p}
	for _, n := range rootNames {
		fn := p.ByName[n]
		if fn == nil {
			r.fail("E3: wire entry point %s not found", n)
			continue
		}
		e.roots = append(e.roots, fn)
	}
	e.roots = append(e.roots, extra...)
	e.region = p.Reachable(e.roots, func(fn *ssa.Function) bool { return isHarnessPkg(funcPkgPath(fn)) })
	for fn := range e.region {
		e.order = append(e.order, fn)
	}
	sort.Slice(e.order, func(i, j int) bool { return p.FuncName(e.order[i]) < p.FuncName(e.order[j]) })
	e.t = newTaint(p, e.region)
	for _, fn := range e.order {
		r.Functions[p.FuncName(fn)] = true
		r.Packages[funcPkgPath(fn)] = true
	}
	return e
}

// condTainted: some branch condition on the dominator chain of b is tainted.
func (e *E3) condTainted(b *ssa.BasicBlock) (bool, string) {
	for d := b.Idom(); d != nil; d = d.Idom() {
		if ifi, ok := d.Instrs[len(d.Instrs)-1].(*ssa.If); ok {
			if e.t.Is(ifi.Cond) || condOperandTainted(e.t, ifi.Cond) {
				return true, e.p.instrPos(ifi)
			}
		}
	}
	return false, ""
}

func condOperandTainted(t *Taint, v ssa.Value) bool {
	switch x := v.(type) {
	case *ssa.BinOp:
		return t.Is(x.X) || t.Is(x.Y)
	case *ssa.UnOp:
		return t.Is(x.X) || condOperandTainted(t, x.X)
	case *ssa.Phi:
		for _, e := range x.Edges {
			if t.Is(e) || condOperandTainted(t, e) {
				return true
			}
		}
	}
	return false
}

func panicMessage(pn *ssa.Panic) string {
	v := pn.X
	if mi, ok := v.(*ssa.MakeInterface); ok {
		v = mi.X
	}
	if c, ok := v.(*ssa.Const); ok && c.Value != nil && c.Value.Kind() == constant.String {
		return constant.StringVal(c.Value)
	}
	if bo, ok := v.(*ssa.BinOp); ok {
		if c, ok := bo.X.(*ssa.Const); ok && c.Value != nil && c.Value.Kind() == constant.String {
			return constant.StringVal(c.Value) + "…"
		}
	}
	return "<dynamic>"
}

// ---- BCE oracle ----------------------------------------------------------------

type bceSite struct {
	file string
	line int
	col  int
	kind string
}

var reBCE = regexp.MustCompile(`^(.*?):(\d+):(\d+): Found (IsInBounds|IsSliceInBounds)`)

// unprovenBounds runs the Go compiler's prove pass over the three modules and
// returns the bounds checks it could NOT eliminate (everything else was proved
// in range by the compiler).
func unprovenBounds(repo string, cfg BuildConfig) ([]bceSite, error) {
	var out []bceSite
	for _, m := range []string{".", "sqlite", "fsim"} {
		dir := filepath.Join(repo, m)
		cmd := exec.Command("go", "build", "-gcflags=-d=ssa/check_bce/debug=1", "./...")
		if cfg.Tags != "" {
			cmd.Args = append(cmd.Args[:2], append([]string{"-tags=" + cfg.Tags}, cmd.Args[2:]...)...)
		}
		cmd.Dir = dir
		env := []string{}
		for _, kv := range os.Environ() {
			k, _, _ := strings.Cut(kv, "=")
			switch k {
			case "GOWORK", "GOFLAGS", "GOTOOLCHAIN", "GOSUMDB", "GOARCH", "GOOS", "GOPROXY":
				continue
			}
			env = append(env, kv)
		}
		cmd.Env = append(env, "GOFLAGS=-mod=mod", "GOPROXY=off", "GOOS=linux", "GOARCH="+cfg.GOARCH, "GOWORK=off")
		b, err := cmd.CombinedOutput()
		sc := bufio.NewScanner(strings.NewReader(string(b)))
		n := 0
		for sc.Scan() {
			mm := reBCE.FindStringSubmatch(sc.Text())
			if mm == nil {
				continue
			}
			f := mm[1]
			if !filepath.IsAbs(f) {
				f = filepath.Join(dir, f)
			}
			f = filepath.Clean(f)
			ln, _ := strconv.Atoi(mm[2])
			cl, _ := strconv.Atoi(mm[3])
			out = append(out, bceSite{f, ln, cl, mm[4]})
			n++
		}
		if err != nil && n == 0 {
			return nil, fmt.Errorf("go build (bce) in %s: %v\n%s", dir, err, string(b))
		}
	}
	return out, nil
}

// ---- survey (debugging aid) ------------------------------------------------------

func (e *E3) survey() {
	p := e.p
	for _, fn := range e.order {
		for _, b := range fn.Blocks {
			for _, in := range b.Instrs {
				switch x := in.(type) {
				case *ssa.Panic:
					ct, where := e.condTainted(b)
					fmt.Printf("PANIC %-60s %s tainted-cond=%v %s msg=%q\n", p.FuncName(fn), p.instrPos(in), ct, where, panicMessage(x))
				case *ssa.MakeSlice:
					if _, ok := x.Len.(*ssa.Const); !ok {
						fmt.Printf("MAKE  %-60s %s tainted-len=%v\n", p.FuncName(fn), p.instrPos(in), e.t.Is(x.Len))
					}
				case *ssa.TypeAssert:
					if !x.CommaOk {
						fmt.Printf("TYPEA %-60s %s tainted=%v to %s\n", p.FuncName(fn), p.instrPos(in), e.t.Is(x.X), shortTypeString(x.AssertedType))
					}
				}
			}
		}
	}
}

var _ = token.ADD


// ---- G1: explicit panics -----------------------------------------------------------

// reviewedPanics: explicit panics whose guarding condition involves a value
// that the (over-approximate) taint reaches, confirmed by reading NOT to be
// peer-triggerable. Key: function|message. Any tainted panic not listed here is
// a violation; entries that no longer match anything are reported as notes.
var reviewedPanics = map[string]string{
	"fdo.hmacHash|HMAC-SHA256 support is required":                                             "config: the HMAC objects are device configuration (DIConfig/TO2Config); the dead nil test follows a method call on the same value",
	"fdo.hmacVerify|HMAC-SHA256 support is required":                                           "config: HmacSha256 is mandatory device configuration",
	"fdo.sendReadyServiceInfo|only SHA256 and SHA384 are supported in FDO":                     "the algorithm is the device's own credential hash type or the result of hashAlgFor (constants only)",
	"fdo/cbor.Decoder.decodeStructField|<dynamic>":                                             "type-shape: depends on struct tags of the decode target, not on wire values",
	"fdo/cbor.Encoder.encodeStruct|<dynamic>":                                                  "type-shape: depends on struct tags of the encoded type",
	"fdo/cbor.flatN|invalid cbor struct tag 'flatNNN' option: …":                               "type-shape: struct tag syntax",
	"fdo/cbor.fieldOrder$1|programming error - indices to sort cannot be a parent embedded field of another": "type-shape",
	"fdo/cose.emptyOrSerializedMap.MarshalCBORStream|emptyOrSerializedMap does not support flattening":   "type-shape: `flattened` comes from struct tags",
	"fdo/cose.emptyOrSerializedMap.UnmarshalCBORStream|emptyOrSerializedMap does not support flattening": "type-shape: `flattened` comes from struct tags",
	"fdo/cbor.Encoder.encodeArray|negative array lengths are invalid":                          "impossible: the length is a reflect Len() result",
	"fdo/cbor.Encoder.encodeMap|negative map lengths are invalid":                              "impossible: the length is a reflect Len() result",
	"fdo/cbor.Encoder.encodeTextOrBinary|array contents were not fully copied into a slice for encoding": "impossible: reflect.Copy into a slice made with the array's length",
	"fdo/cbor.additionalInfo|additionalInfo was not 1, 2, 4, or 8 bytes":                       "by construction: every caller passes the result of the head-size helper (1, 2, 4 or 8 bytes); checked by rule head-bytes",
	"fdo/cbor.toU64|too many bytes to decode into a uint64 without overflowing":                "by construction: callers pass the additional-bytes buffer made with constant size 1/2/4/8 or a 1-byte literal; checked by rule head-bytes",
	"fdo/cbor.overflows|programming error - invalid kind for overflow check":                   "validated by caller: the kind switch in decodePositive precedes the call",
	"fdo/cbor.overflowsInt|programming error - invalid kind for overflow check":                "validated by caller: the kind switch in decodeNegative precedes the call",
	"fdo/cbor.BytewiseLexicalSort$1|unreachable for valid CBOR map keys":                       "keys were marshalled by this encoder immediately before sorting",
	"fdo/cbor/cdn.sortMap|<dynamic>":                                                           "debug notation only: keys were produced by this decoder and are re-encodable",
	"fdo/internal/nistkdf.KDF|unsupported hash size":                                           "registry data: the PRF hash comes from a registered cipher suite (C09.cipher-registry pins it to SHA-256/384)",
	"fdo/internal/nistkdf.KDF|n too large":                                                     "registry data: key sizes come from registered algorithms",
	"fdo/kex.ecdhParam.MarshalBinary|invalid public key - too large":                           "own key: the encoded point is this side's freshly generated key",
	"fdo/plugin.command.ParseParam|programming error - invalid pluginCommand":                  "local plugin protocol (child process), enumeration of own constants",
	"fdo/plugin.command.ValidParamType|programming error - invalid pluginCommand":              "local plugin protocol (child process), enumeration of own constants",
	"fdo/plugin.protocol.EncodeValue|<dynamic>":                                                "local plugin protocol (child process)",
	"fdo/serviceinfo.ArraySizeCBOR|service info cannot contain > 65535 KVs":                    "local producer: counts service info produced by local modules within one MTU",
	"fdo/serviceinfo.cborEncodedLen|KV cannot have length > max uint16":                        "local producer: sizes of locally produced chunks, bounded by the uint16 MTU",
	"fdo/fsim.Command.receive|command should always be started":                                "invariant cmd!=nil => started, restored by fix 7f4b2aa and checked by rule cmd-started",
	"fdo/fsim.Command.reset|command should always be started":                                  "invariant cmd!=nil => started, restored by fix 7f4b2aa and checked by rule cmd-started",
	"fdo/sqlite.query|programming error - query must have the same number of columns and values": "call sites pass literal column lists and matching destinations (C18 extracts them)",
}

var ssaArtifactPanics = map[string]bool{
	"blocking select matched no case":           true,
	"iterator call did not preserve panic":      true,
	"yield function called after range loop exit": true,
	"range function continued iteration after function for loop body returned false": true,
}

// partialLookups: functions that panic on a value outside their table; every
// call with a peer-controlled receiver needs a validator on all paths.
var partialLookups = map[string]string{
	"fdo/protocol.HashAlg.HashFunc":           "hashalg-safe",
	"fdo/cose.SignatureAlgorithm.HashFunc":    "sigalg-safe",
	"fdo/kex.CipherSuiteID.Suite":             "cipher-safe",
	"fdo/cose.EncryptAlgorithm.NewCrypter":    "encalg-safe",
	"fdo/cose.EncryptAlgorithm.SupportsAD":    "encalg-safe",
	"fdo/cose.EncryptAlgorithm.KeySize":       "encalg-safe",
	"fdo/cose.MacAlgorithm.NewMac":            "macalg-safe",
	"fdo/cose.MacAlgorithm.KeySize":           "macalg-safe",
}

func e3Rules(p *Prog) *RuleSet {
	typed := func(t string) func(m *Matcher, v ssa.Value) bool {
		return func(m *Matcher, v ssa.Value) bool { return typeShort(v.Type()) == t }
	}
	constCase := func(name Atom, typ string) AtomDef {
		return AtomDef{Name: name, Doc: "the value was matched against a constant of its enumeration", Edge: func(m *Matcher, pd Pred, holds bool) bool {
			if pd.Kind != "eq" || !holds {
				return false
			}
			_, cy := pd.Y.(*ssa.Const)
			_, cx := pd.X.(*ssa.Const)
			return (cy && typed(typ)(m, pd.X)) || (cx && typed(typ)(m, pd.Y))
		}}
	}
	commaOkLookup := func(name Atom, global string) AtomDef {
		return AtomDef{Name: name, Doc: "found in registry " + global, Edge: func(m *Matcher, pd Pred, holds bool) bool {
			if pd.Kind != "bool" || !holds {
				return false
			}
			ex, ok := pd.X.(*ssa.Extract)
			if !ok || ex.Index != 1 {
				return false
			}
			lk, ok := ex.Tuple.(*ssa.Lookup)
			return ok && lk.CommaOk && m.Prov(lk.X).Has("global:"+global)
		}}
	}
	return &RuleSet{
		Atoms: []AtomDef{
			boolTrue("hashalg-valid", "HashAlg.Valid() is true", named("fdo/protocol.HashAlg.Valid"), 0, nil),
			constCase("hashalg-case", "fdo/protocol.HashAlg"),
			commaOkLookup("sigalg-registered", "fdo/cose.sigAlgorithms"),
			constCase("sigalg-case", "fdo/cose.SignatureAlgorithm"),
			errNil("sigalg-accepted", "the device signature type was accepted by the key-type mapping (whose cases are all registered, C09.sigalg-registry)",
				func(n string) bool { return strings.HasPrefix(n, "fdo.") }, func(m *Matcher, call ssa.CallInstruction, args []ssa.Value) bool {
					return len(args) == 1 && typeShort(args[0].Type()) == "fdo/cose.SignatureAlgorithm"
				}),
			boolTrue("kex-available", "kex.Available is true", named("fdo/kex.Available"), 0, nil),
			commaOkLookup("cipher-registered", "fdo/kex.ciphers"),
			commaOkLookup("encalg-registered", "fdo/cose.encryptAlgorithms"),
			commaOkLookup("encalg-info", "fdo/cose.encryptAlgorithmInfo"),
			commaOkLookup("macalg-registered", "fdo/cose.macAlgorithms"),
			commaOkLookup("macalg-size", "fdo/cose.macAlgorithmKeySizes"),
			// G2/G3 value facts
			{Name: "bounds", EdgeDyn: boundFacts},
		},
		Derive: []Derivation{
			{"hashalg-safe", []Atom{"hashalg-valid"}}, {"hashalg-safe", []Atom{"hashalg-case"}},
			{"sigalg-safe", []Atom{"sigalg-registered"}}, {"sigalg-safe", []Atom{"sigalg-case"}}, {"sigalg-safe", []Atom{"sigalg-accepted"}},
			{"cipher-safe", []Atom{"kex-available"}}, {"cipher-safe", []Atom{"cipher-registered"}},
			{"encalg-safe", []Atom{"encalg-registered"}}, {"encalg-safe", []Atom{"encalg-info"}},
			{"macalg-safe", []Atom{"macalg-registered"}}, {"macalg-safe", []Atom{"macalg-size"}},
		},
	}
}

// intRoot strips conversions of an integer value.
func intRoot(v ssa.Value) ssa.Value {
	for {
		switch x := v.(type) {
		case *ssa.Convert:
			v = x.X
		case *ssa.ChangeType:
			v = x.X
		default:
			return v
		}
	}
}

// boundFacts emits facts about integer SSA values established on an edge:
//
//	v:ub:<x>        x is bounded above by a constant or by len()/cap() of something
//	v:lb0:<x>       x >= 0
//	v:lt:<x>:<y>    x < len(y)        v:le:<x>:<y>   x <= len(y)
//	v:lenge:<y>:<c> len(y) >= c (constant c)
func boundFacts(m *Matcher, p Pred, holds bool) []Atom {
	var out []Atom
	name := func(v ssa.Value) string { return intRoot(v).Name() }
	isConst := func(v ssa.Value) (int64, bool) { return constInt(intRoot(v)) }
	// normalise to a strict/non-strict "a < b" / "a <= b" that is TRUE on this edge
	var a, b ssa.Value
	strict := false
	switch p.Kind {
	case "lt":
		if holds {
			a, b, strict = p.X, p.Y, true
		} else {
			a, b, strict = p.Y, p.X, false // !(x<y) => y<=x
		}
	case "le":
		if holds {
			a, b, strict = p.X, p.Y, false
		} else {
			a, b, strict = p.Y, p.X, true // !(x<=y) => y<x
		}
	case "eq":
		if !holds {
			return nil
		}
		// x == y: both directions non-strict
		out = append(out, boundFactsLE(m, p.X, p.Y, false, name, isConst)...)
		out = append(out, boundFactsLE(m, p.Y, p.X, false, name, isConst)...)
		return out
	default:
		return nil
	}
	return boundFactsLE(m, a, b, strict, name, isConst)
}

func boundFactsLE(m *Matcher, a, b ssa.Value, strict bool, name func(ssa.Value) string, isConst func(ssa.Value) (int64, bool)) []Atom {
	var out []Atom
	if _, ok := intRoot(a).Type().Underlying().(interface{ Kind() int }); ok {
	}
	// a (<|<=) b
	if cb, ok := isConst(b); ok {
		if _, aConst := isConst(a); !aConst {
			out = append(out, "v:ub:"+name(a))
			if la := lenOf(m, intRoot(a)); la != nil {
				_ = la
			}
		}
		_ = cb
	}
	if lb := lenOf(m, intRoot(b)); lb != nil {
		if _, aConst := isConst(a); !aConst {
			out = append(out, "v:ub:"+name(a))
			if strict {
				out = append(out, "v:lt:"+name(a)+":"+lb.Name())
			}
			out = append(out, "v:le:"+name(a)+":"+lb.Name())
		} else if ca, _ := isConst(a); true {
			// c (<|<=) len(y)  => len(y) >= c (+1 if strict)
			c := ca
			if strict {
				c++
			}
			for k := int64(0); k <= c && k <= 64; k++ {
				out = append(out, "v:lenge:"+lb.Name()+":"+itoa(int(k)))
			}
		}
	}
	if ca, ok := isConst(a); ok {
		if _, bConst := isConst(b); !bConst && (ca >= 0 || (ca == -1 && strict)) {
			out = append(out, "v:lb0:"+name(b))
		}
	}
	// x (<|<=) y with y itself bounded is not tracked (no transitivity)
	return out
}

// panicObligations adds the G1 obligations for the region reachable from roots.
func panicObligations(c *Ctx, p *Prog, r *Result, prefix string, roots []*ssa.Function, skip func(*ssa.Function) bool) {
	e := &E3{p: p, roots: roots}
	e.region = p.Reachable(roots, func(fn *ssa.Function) bool { return isHarnessPkg(funcPkgPath(fn)) || (skip != nil && skip(fn)) })
	for fn := range e.region {
		e.order = append(e.order, fn)
	}
	sort.Slice(e.order, func(i, j int) bool { return p.FuncName(e.order[i]) < p.FuncName(e.order[j]) })
	e.t = newTaint(p, e.region)
	e.g1(r, prefix)
}

func (e *E3) g1(r *Result, prefix string) {
	p := e.p
	rule := prefix + ".panics"
	r.rule(rule, "G1: every explicit panic reachable from the entry points is an SSA artifact, is guarded only by conditions no peer-controlled value reaches, or is in the reviewed table (function|message -> reason); any other panic is a violation")
	seen := map[string]bool{}
	for _, fn := range e.order {
		k := 0
		for _, b := range fn.Blocks {
			pn, ok := b.Instrs[len(b.Instrs)-1].(*ssa.Panic)
			if !ok {
				continue
			}
			k++
			msg := panicMessage(pn)
			key := p.FuncName(fn) + "|" + msg
			construct := fmt.Sprintf("panic #%d in %s (%s)", k, p.FuncName(fn), msg)
			switch {
			case ssaArtifactPanics[msg]:
				r.table(p, rule, construct, p.instrPos(pn), true, "SSA artifact (select/range-over-func lowering), unreachable")
			default:
				ct, where := e.condTainted(b)
				if !ct {
					r.table(p, rule, construct, p.instrPos(pn), true, "no peer-controlled value reaches a guarding condition (programmer/configuration error)")
					continue
				}
				seen[key] = true
				if msg == "unreachable" && exhaustive3bit(fn) {
					r.table(p, rule, construct, p.instrPos(pn), true, "exhaustive: follows a switch whose cases cover all eight values of the 3-bit major type")
				} else if reason, ok := reviewedPanics[key]; ok {
					r.table(p, rule, construct, p.instrPos(pn), true, "reviewed: "+reason+" [tainted condition at "+where+"]")
				} else if _, isLookup := partialLookups[p.FuncName(fn)]; isLookup {
					r.table(p, rule, construct, p.instrPos(pn), true, "partial lookup: discharged per call site by rule "+prefix+".partial-lookups")
				} else {
					r.table(p, rule, construct, p.instrPos(pn), false, "explicit panic guarded by a peer-controlled condition at "+where+" and not in the reviewed table")
				}
			}
		}
	}

	// the fsim command module's invariant "cmd != nil => process started"
	e.cmdStarted(r, prefix)

	// partial lookups, per call site
	rule2 := prefix + ".partial-lookups"
	r.rule(rule2, "G1c: every call of a registry/enumeration accessor that panics on unknown values (HashAlg.HashFunc, SignatureAlgorithm.HashFunc, CipherSuiteID.Suite, Encrypt/MacAlgorithm accessors) whose receiver is peer-controlled is dominated by a validator (Valid(), registry lookup ok, kex.Available, accepted signature type, or a constant case)")
	f := NewFlow(p, e3Rules(p), e.roots, nil)
	for _, fn := range e.order {
		if !f.Region[fn] {
			continue
		}
		for _, b := range fn.Blocks {
			for _, in := range b.Instrs {
				call, ok := in.(ssa.CallInstruction)
				if !ok {
					continue
				}
				atom, isLookup := partialLookups[p.calleeOf(call.Common()).Name]
				if !isLookup {
					continue
				}
				recv := allArgs(call)[0]
				if !e.t.Is(recv) {
					r.table(p, rule2, siteKey(p, call), p.instrPos(call), true, "receiver is not peer-controlled")
					continue
				}
				if pv := f.matcherFor(fn).Prov(recv); pv.Has("field:fdo/kex.CipherSuite.EncryptAlg") || pv.Has("field:fdo/kex.CipherSuite.MacAlg") {
					r.table(p, rule2, siteKey(p, call), p.instrPos(call), cipherSuiteLiteralsOnlyInInit(p), "registry data: the algorithm is a field of a kex.CipherSuite, and CipherSuite values are built only in init (RegisterCipherSuite) — checked; their algorithms are registered (C09.cipher-registry)")
					continue
				}
				// inside the accessor family itself (e.g. NewCrypter calling KeySize on its own receiver) the caller's obligation covers it
				if _, self := partialLookups[p.FuncName(fn)]; self {
					r.table(p, rule2, siteKey(p, call), p.instrPos(call), true, "accessor calling a sibling accessor on its own receiver")
					continue
				}
				r.requireAtSites(f, rule2, []ssa.CallInstruction{call}, []Atom{atom})
			}
		}
	}
}

// exhaustive3bit: fn compares one uint8 value against all of 0..7.
func exhaustive3bit(fn *ssa.Function) bool {
	byVal := map[ssa.Value]map[int64]bool{}
	for _, b := range fn.Blocks {
		for _, in := range b.Instrs {
			bo, ok := in.(*ssa.BinOp)
			if !ok || bo.Op != token.EQL {
				continue
			}
			c, ok := constInt(bo.Y)
			if !ok || c < 0 || c > 7 {
				continue
			}
			if byVal[bo.X] == nil {
				byVal[bo.X] = map[int64]bool{}
			}
			byVal[bo.X][c] = true
		}
	}
	for v, cs := range byVal {
		if len(cs) == 8 && v.Type().Underlying().String() == "byte" || len(cs) == 8 && v.Type().Underlying().String() == "uint8" {
			return true
		}
	}
	return false
}

// cipherSuiteLiteralsOnlyInInit: composite literals of kex.CipherSuite occur
// only in package init functions.
func cipherSuiteLiteralsOnlyInInit(p *Prog) bool {
	for _, fn := range p.Funcs {
		if isHarnessPkg(funcPkgPath(fn)) {
			continue
		}
		for _, b := range fn.Blocks {
			for _, in := range b.Instrs {
				if al, ok := in.(*ssa.Alloc); ok && typeShort(al.Type()) == "fdo/kex.CipherSuite" && len(litFields(al)) > 0 {
					if !strings.HasPrefix(fn.Name(), "init") {
						return false
					}
				}
			}
		}
	}
	return true
}

// cmdStarted: wherever exec.Cmd.Start fails, the struct field holding the
// command is cleared before the function returns (so that later code testing
// that field never sees a command without a process).
func (e *E3) cmdStarted(r *Result, prefix string) {
	p := e.p
	rule := prefix + ".cmd-started"
	for _, fn := range e.order {
		var starts []ssa.CallInstruction
		for _, b := range fn.Blocks {
			for _, in := range b.Instrs {
				if call, ok := in.(ssa.CallInstruction); ok && p.calleeOf(call.Common()).Name == "os/exec.Cmd.Start" {
					starts = append(starts, call)
				}
			}
		}
		if len(starts) == 0 {
			continue
		}
		r.rule(rule, "where exec.Cmd.Start returns an error, the field holding the command is set to nil before the function returns (invariant behind the reviewed 'command should always be started' panics)")
		rs := &RuleSet{Atoms: []AtomDef{
			{Name: "start-failed", Edge: func(m *Matcher, pd Pred, holds bool) bool {
				if pd.Kind != "nil" || holds {
					return false
				}
				n, _, call := m.ResultOf(pd.X)
				return call != nil && n == "os/exec.Cmd.Start"
			}},
			{Name: "cmd-cleared", ExecAny: func(m *Matcher, in ssa.Instruction) bool {
				st, ok := in.(*ssa.Store)
				if !ok {
					return false
				}
				c, isConst := st.Val.(*ssa.Const)
				_, isField := st.Addr.(*ssa.FieldAddr)
				return isConst && c.IsNil() && isField && strings.Contains(st.Val.Type().String(), "exec.Cmd")
			}},
		}}
		f := NewFlow(p, rs, []*ssa.Function{fn}, func(g *ssa.Function) bool { return g != fn })
		for i, b := range fn.Blocks {
			ret, ok := b.Instrs[len(b.Instrs)-1].(*ssa.Return)
			if !ok {
				continue
			}
			st := f.StateAt(ret)
			if st.top || !st.Has("start-failed") {
				continue
			}
			r.table(p, rule, fmt.Sprintf("failure return #%d of %s", i, p.FuncName(fn)), p.instrPos(ret), st.Has("cmd-cleared"), "command field cleared before returning the Start error")
		}
	}
}
