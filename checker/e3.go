package main

// E3 — guard analysis for peer-controlled values: explicit panics (G1),
// allocations (G2), index/slice bounds (G3, with the compiler's bounds-check
// elimination as discharge oracle), stdlib preconditions (G4) and unchecked
// type assertions (G5).

import (
	"bufio"
	"fmt"
	"go/constant"
	"go/token"
	"os"
	"os/exec"
	"path/filepath"
	"regexp"
	"sort"
	"strconv"
	"strings"

	"golang.org/x/tools/go/ssa"
)

var wireRoots = []string{
	"fdo/http.Handler.ServeHTTP",
	"fdo.DIServer.Respond", "fdo.TO0Server.Respond", "fdo.TO1Server.Respond", "fdo.TO2Server.Respond",
	"fdo.DIServer.HandleError", "fdo.TO0Server.HandleError", "fdo.TO1Server.HandleError", "fdo.TO2Server.HandleError",
	"fdo.TO2Server.CryptSession",
	"fdo.DI", "fdo.TO1", "fdo.TO2", "fdo.TO0Client.RegisterBlob",
	"fdo/http.Transport.Send",
	"fdo/protocol.ParseDeviceRvInfo", "fdo/protocol.ParseOwnerRvInfo",
}

// E3 is the shared result of the taint analysis over a set of roots.
type E3 struct {
	p      *Prog
	roots  []*ssa.Function
	region map[*ssa.Function]bool
	order  []*ssa.Function
	t      *Taint
}

func newE3(p *Prog, r *Result, rootNames []string, extra []*ssa.Function) *E3 {
	e := &E3{p: p}
	for _, n := range rootNames {
		fn := p.ByName[n]
		if fn == nil {
			r.fail("E3: wire entry point %s not found", n)
			continue
		}
		e.roots = append(e.roots, fn)
	}
	e.roots = append(e.roots, extra...)
	e.region = p.Reachable(e.roots, func(fn *ssa.Function) bool { return isHarnessPkg(funcPkgPath(fn)) })
	for fn := range e.region {
		e.order = append(e.order, fn)
	}
	sort.Slice(e.order, func(i, j int) bool { return p.FuncName(e.order[i]) < p.FuncName(e.order[j]) })
	e.t = newTaint(p, e.region)
	for _, fn := range e.order {
		r.Functions[p.FuncName(fn)] = true
		r.Packages[funcPkgPath(fn)] = true
	}
	return e
}

// condTainted: some branch condition on the dominator chain of b is tainted.
func (e *E3) condTainted(b *ssa.BasicBlock) (bool, string) {
	for d := b.Idom(); d != nil; d = d.Idom() {
		if ifi, ok := d.Instrs[len(d.Instrs)-1].(*ssa.If); ok {
			if e.t.Is(ifi.Cond) || condOperandTainted(e.t, ifi.Cond) {
				return true, e.p.instrPos(ifi)
			}
		}
	}
	return false, ""
}

func condOperandTainted(t *Taint, v ssa.Value) bool {
	switch x := v.(type) {
	case *ssa.BinOp:
		return t.Is(x.X) || t.Is(x.Y)
	case *ssa.UnOp:
		return t.Is(x.X) || condOperandTainted(t, x.X)
	case *ssa.Phi:
		for _, e := range x.Edges {
			if t.Is(e) || condOperandTainted(t, e) {
				return true
			}
		}
	}
	return false
}

func panicMessage(pn *ssa.Panic) string {
	v := pn.X
	if mi, ok := v.(*ssa.MakeInterface); ok {
		v = mi.X
	}
	if c, ok := v.(*ssa.Const); ok && c.Value != nil && c.Value.Kind() == constant.String {
		return constant.StringVal(c.Value)
	}
	if bo, ok := v.(*ssa.BinOp); ok {
		if c, ok := bo.X.(*ssa.Const); ok && c.Value != nil && c.Value.Kind() == constant.String {
			return constant.StringVal(c.Value) + "…"
		}
	}
	return "<dynamic>"
}

// ---- BCE oracle ----------------------------------------------------------------

type bceSite struct {
	file string
	line int
	col  int
	kind string
}

var reBCE = regexp.MustCompile(`^(.*?):(\d+):(\d+): Found (IsInBounds|IsSliceInBounds)`)

// unprovenBounds runs the Go compiler's prove pass over the three modules and
// returns the bounds checks it could NOT eliminate (everything else was proved
// in range by the compiler).
func unprovenBounds(repo string, cfg BuildConfig) ([]bceSite, error) {
	var out []bceSite
	for _, m := range []string{".", "sqlite", "fsim"} {
		dir := filepath.Join(repo, m)
		cmd := exec.Command("go", "build", "-gcflags=-d=ssa/check_bce/debug=1", "./...")
		if cfg.Tags != "" {
			cmd.Args = append(cmd.Args[:2], append([]string{"-tags=" + cfg.Tags}, cmd.Args[2:]...)...)
		}
		cmd.Dir = dir
		env := []string{}
		for _, kv := range os.Environ() {
			k, _, _ := strings.Cut(kv, "=")
			switch k {
			case "GOWORK", "GOFLAGS", "GOTOOLCHAIN", "GOSUMDB", "GOARCH", "GOOS", "GOPROXY":
				continue
			}
			env = append(env, kv)
		}
		cmd.Env = append(env, "GOFLAGS=-mod=mod", "GOPROXY=off", "GOOS=linux", "GOARCH="+cfg.GOARCH, "GOWORK=off")
		b, err := cmd.CombinedOutput()
		sc := bufio.NewScanner(strings.NewReader(string(b)))
		n := 0
		for sc.Scan() {
			mm := reBCE.FindStringSubmatch(sc.Text())
			if mm == nil {
				continue
			}
			f := mm[1]
			if !filepath.IsAbs(f) {
				f = filepath.Join(dir, f)
			}
			f = filepath.Clean(f)
			ln, _ := strconv.Atoi(mm[2])
			cl, _ := strconv.Atoi(mm[3])
			out = append(out, bceSite{f, ln, cl, mm[4]})
			n++
		}
		if err != nil && n == 0 {
			return nil, fmt.Errorf("go build (bce) in %s: %v\n%s", dir, err, string(b))
		}
	}
	return out, nil
}

// ---- survey (debugging aid) ------------------------------------------------------

func (e *E3) survey() {
	p := e.p
	for _, fn := range e.order {
		for _, b := range fn.Blocks {
			for _, in := range b.Instrs {
				switch x := in.(type) {
				case *ssa.Panic:
					ct, where := e.condTainted(b)
					fmt.Printf("PANIC %-60s %s tainted-cond=%v %s msg=%q\n", p.FuncName(fn), p.instrPos(in), ct, where, panicMessage(x))
				case *ssa.MakeSlice:
					if _, ok := x.Len.(*ssa.Const); !ok {
						fmt.Printf("MAKE  %-60s %s tainted-len=%v\n", p.FuncName(fn), p.instrPos(in), e.t.Is(x.Len))
					}
				case *ssa.TypeAssert:
					if !x.CommaOk {
						fmt.Printf("TYPEA %-60s %s tainted=%v to %s\n", p.FuncName(fn), p.instrPos(in), e.t.Is(x.X), shortTypeString(x.AssertedType))
					}
				}
			}
		}
	}
}

var _ = token.ADD

// placeholder wiring; replaced below by the real obligations
func panicObligations(c *Ctx, p *Prog, r *Result, prefix string, roots []*ssa.Function, skip func(*ssa.Function) bool) {
}
