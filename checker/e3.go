package main

// E3 — guard analysis for peer-controlled values: explicit panics (G1),
// allocations (G2), index/slice bounds (G3, with the compiler's bounds-check
// elimination as discharge oracle), stdlib preconditions (G4) and unchecked
// type assertions (G5).

import (
	"bufio"
	"fmt"
	"go/constant"
	"go/token"
	"go/types"
	"os"
	"os/exec"
	"path/filepath"
	"regexp"
	"sort"
	"strconv"
	"strings"

	"golang.org/x/tools/go/ssa"
)

var wireRoots = []string{
	"fdo/http.Handler.ServeHTTP",
	"fdo.DIServer.Respond", "fdo.TO0Server.Respond", "fdo.TO1Server.Respond", "fdo.TO2Server.Respond",
	"fdo.DIServer.HandleError", "fdo.TO0Server.HandleError", "fdo.TO1Server.HandleError", "fdo.TO2Server.HandleError",
	"fdo.TO2Server.CryptSession",
	"fdo.DI", "fdo.TO1", "fdo.TO2", "fdo.TO0Client.RegisterBlob",
	"fdo/http.Transport.Send",
	"fdo/protocol.ParseDeviceRvInfo", "fdo/protocol.ParseOwnerRvInfo",
}

// E3 is the shared result of the taint analysis over a set of roots.
type E3 struct {
	cipherDepth int
	p           *Prog
	roots       []*ssa.Function
	region      map[*ssa.Function]bool
	order       []*ssa.Function
	t           *Taint
}

func newE3(p *Prog, r *Result, rootNames []string, extra []*ssa.Function) *E3 {
	e := &E3{p: p}
	for _, n := range rootNames {
		fn := p.ByName[n]
		if fn == nil {
			r.fail("E3: wire entry point %s not found", n)
			continue
		}
		e.roots = append(e.roots, fn)
	}
	e.roots = append(e.roots, extra...)
	e.region = p.Reachable(e.roots, func(fn *ssa.Function) bool { return isHarnessPkg(funcPkgPath(fn)) })
	for fn := range e.region {
		e.order = append(e.order, fn)
	}
	sort.Slice(e.order, func(i, j int) bool { return p.FuncName(e.order[i]) < p.FuncName(e.order[j]) })
	var api []*ssa.Function
	for _, fn := range e.roots {
		switch n := p.FuncName(fn); {
		case strings.HasPrefix(n, "fdo/protocol.Parse"), strings.HasPrefix(n, "fdo/cbor."), strings.HasPrefix(n, "fdo/cose."), strings.HasPrefix(n, "fdo.Voucher."):
			api = append(api, fn)
		}
	}
	e.t = newTaint(p, e.region, api...)
	for _, fn := range e.order {
		r.Functions[p.FuncName(fn)] = true
		r.Packages[funcPkgPath(fn)] = true
	}
	return e
}

// condTainted: some branch condition on the dominator chain of b is tainted.
func (e *E3) condTainted(b *ssa.BasicBlock) (bool, string) {
	for d := b.Idom(); d != nil; d = d.Idom() {
		if ifi, ok := d.Instrs[len(d.Instrs)-1].(*ssa.If); ok {
			if e.t.Is(ifi.Cond) || condOperandTainted(e.t, ifi.Cond) {
				return true, e.p.instrPos(ifi)
			}
		}
	}
	return false, ""
}

func condOperandTainted(t *Taint, v ssa.Value) bool {
	switch x := v.(type) {
	case *ssa.BinOp:
		return t.Is(x.X) || t.Is(x.Y)
	case *ssa.UnOp:
		return t.Is(x.X) || condOperandTainted(t, x.X)
	case *ssa.Phi:
		for _, e := range x.Edges {
			if t.Is(e) || condOperandTainted(t, e) {
				return true
			}
		}
	}
	return false
}

func panicMessage(pn *ssa.Panic) string {
	v := pn.X
	if mi, ok := v.(*ssa.MakeInterface); ok {
		v = mi.X
	}
	if c, ok := v.(*ssa.Const); ok && c.Value != nil && c.Value.Kind() == constant.String {
		return constant.StringVal(c.Value)
	}
	if bo, ok := v.(*ssa.BinOp); ok {
		if c, ok := bo.X.(*ssa.Const); ok && c.Value != nil && c.Value.Kind() == constant.String {
			return constant.StringVal(c.Value) + "…"
		}
	}
	return "<dynamic>"
}

// ---- BCE oracle ----------------------------------------------------------------

type bceSite struct {
	file string
	line int
	col  int
	kind string
}

var reBCE = regexp.MustCompile(`^(.*?):(\d+):(\d+): Found (IsInBounds|IsSliceInBounds)`)

// unprovenBounds runs the Go compiler's prove pass over the three modules and
// returns the bounds checks it could NOT eliminate (everything else was proved
// in range by the compiler).
func unprovenBounds(repo string, cfg BuildConfig) ([]bceSite, error) {
	var out []bceSite
	for _, m := range []string{".", "sqlite", "fsim"} {
		dir := filepath.Join(repo, m)
		cmd := exec.Command("go", "build", "-gcflags=-d=ssa/check_bce/debug=1", "./...")
		if cfg.Tags != "" {
			cmd.Args = append(cmd.Args[:2], append([]string{"-tags=" + cfg.Tags}, cmd.Args[2:]...)...)
		}
		cmd.Dir = dir
		env := []string{}
		for _, kv := range os.Environ() {
			k, _, _ := strings.Cut(kv, "=")
			switch k {
			case "GOWORK", "GOFLAGS", "GOTOOLCHAIN", "GOSUMDB", "GOARCH", "GOOS", "GOPROXY":
				continue
			}
			env = append(env, kv)
		}
		cmd.Env = append(env, "GOFLAGS=-mod=mod", "GOPROXY=off", "GOOS=linux", "GOARCH="+cfg.GOARCH, "GOWORK=off")
		b, err := cmd.CombinedOutput()
		sc := bufio.NewScanner(strings.NewReader(string(b)))
		n := 0
		for sc.Scan() {
			mm := reBCE.FindStringSubmatch(sc.Text())
			if mm == nil {
				continue
			}
			f := mm[1]
			if !filepath.IsAbs(f) {
				f = filepath.Join(dir, f)
			}
			f = filepath.Clean(f)
			ln, _ := strconv.Atoi(mm[2])
			cl, _ := strconv.Atoi(mm[3])
			out = append(out, bceSite{f, ln, cl, mm[4]})
			n++
		}
		if err != nil && n == 0 {
			return nil, fmt.Errorf("go build (bce) in %s: %v\n%s", dir, err, string(b))
		}
	}
	return out, nil
}

// ---- survey (debugging aid) ------------------------------------------------------

func (e *E3) survey() {
	p := e.p
	for _, fn := range e.order {
		for _, b := range fn.Blocks {
			for _, in := range b.Instrs {
				switch x := in.(type) {
				case *ssa.Panic:
					ct, where := e.condTainted(b)
					fmt.Printf("PANIC %-60s %s tainted-cond=%v %s msg=%q\n", p.FuncName(fn), p.instrPos(in), ct, where, panicMessage(x))
				case *ssa.MakeSlice:
					if _, ok := x.Len.(*ssa.Const); !ok {
						fmt.Printf("MAKE  %-60s %s tainted-len=%v\n", p.FuncName(fn), p.instrPos(in), e.t.Is(x.Len))
					}
				case *ssa.TypeAssert:
					if !x.CommaOk {
						fmt.Printf("TYPEA %-60s %s tainted=%v to %s\n", p.FuncName(fn), p.instrPos(in), e.t.Is(x.X), shortTypeString(x.AssertedType))
					}
				}
			}
		}
	}
}

var _ = token.ADD

// ---- G1: explicit panics -----------------------------------------------------------

// reviewedPanics: explicit panics whose guarding condition involves a value
// that the (over-approximate) taint reaches, confirmed by reading NOT to be
// peer-triggerable. Key: function|message. Any tainted panic not listed here is
// a violation; entries that no longer match anything are reported as notes.
var reviewedPanics = map[string]string{
	"fdo.hmacHash|HMAC-SHA256 support is required":                                                           "config: the HMAC objects are device configuration (DIConfig/TO2Config); the dead nil test follows a method call on the same value",
	"fdo.hmacVerify|HMAC-SHA256 support is required":                                                         "config: HmacSha256 is mandatory device configuration",
	"fdo.sendReadyServiceInfo|only SHA256 and SHA384 are supported in FDO":                                   "the algorithm is the device's own credential hash type or the result of hashAlgFor (constants only)",
	"fdo/cbor.Decoder.decodeStructField|<dynamic>":                                                           "type-shape: depends on struct tags of the decode target, not on wire values",
	"fdo/cbor.Encoder.encodeStruct|<dynamic>":                                                                "type-shape: depends on struct tags of the encoded type",
	"fdo/cbor.flatN|invalid cbor struct tag 'flatNNN' option: …":                                             "type-shape: struct tag syntax",
	"fdo/cbor.fieldOrder$1|programming error - indices to sort cannot be a parent embedded field of another": "type-shape",
	"fdo/cose.emptyOrSerializedMap.MarshalCBORStream|emptyOrSerializedMap does not support flattening":       "type-shape: `flattened` comes from struct tags",
	"fdo/cose.emptyOrSerializedMap.UnmarshalCBORStream|emptyOrSerializedMap does not support flattening":     "type-shape: `flattened` comes from struct tags",
	"fdo/cbor.Encoder.encodeArray|negative array lengths are invalid":                                        "impossible: the length is a reflect Len() result",
	"fdo/cbor.Encoder.encodeMap|negative map lengths are invalid":                                            "impossible: the length is a reflect Len() result",
	"fdo/cbor.Encoder.encodeTextOrBinary|array contents were not fully copied into a slice for encoding":     "impossible: reflect.Copy into a slice made with the array's length",
	"fdo/cbor.additionalInfo|additionalInfo was not 1, 2, 4, or 8 bytes":                                     "by construction: every caller passes the result of the head-size helper (1, 2, 4 or 8 bytes); checked by rule head-bytes",
	"fdo/cbor.toU64|too many bytes to decode into a uint64 without overflowing":                              "by construction: callers pass the additional-bytes buffer made with constant size 1/2/4/8 or a 1-byte literal; checked by rule head-bytes",
	"fdo/cbor.overflows|programming error - invalid kind for overflow check":                                 "validated by caller: the kind switch in decodePositive precedes the call",
	"fdo/cbor.overflowsInt|programming error - invalid kind for overflow check":                              "validated by caller: the kind switch in decodeNegative precedes the call",
	"fdo/cbor.BytewiseLexicalSort$1|unreachable for valid CBOR map keys":                                     "keys were marshalled by this encoder immediately before sorting",
	"fdo/cbor/cdn.sortMap|<dynamic>":                                                                         "debug notation only: keys were produced by this decoder and are re-encodable",
	"fdo/internal/nistkdf.KDF|unsupported hash size":                                                         "registry data: the PRF hash comes from a registered cipher suite (C09.cipher-registry pins it to SHA-256/384)",
	"fdo/internal/nistkdf.KDF|n too large":                                                                   "registry data: key sizes come from registered algorithms",
	"fdo/kex.ecdhParam.MarshalBinary|invalid public key - too large":                                         "own key: the encoded point is this side's freshly generated key",
	"fdo/plugin.command.ParseParam|programming error - invalid pluginCommand":                                "local plugin protocol (child process), enumeration of own constants",
	"fdo/plugin.command.ValidParamType|programming error - invalid pluginCommand":                            "local plugin protocol (child process), enumeration of own constants",
	"fdo/plugin.protocol.EncodeValue|<dynamic>":                                                              "local plugin protocol (child process)",
	"fdo/serviceinfo.ArraySizeCBOR|service info cannot contain > 65535 KVs":                                  "local producer: counts service info produced by local modules within one MTU",
	"fdo/serviceinfo.cborEncodedLen|KV cannot have length > max uint16":                                      "local producer: sizes of locally produced chunks, bounded by the uint16 MTU",
	"fdo/fsim.Command.receive|command should always be started":                                              "invariant cmd!=nil => started, restored by fix 7f4b2aa and checked by rule cmd-started",
	"fdo/fsim.Command.reset|command should always be started":                                                "invariant cmd!=nil => started, restored by fix 7f4b2aa and checked by rule cmd-started",
	"fdo/sqlite.query|programming error - query must have the same number of columns and values":             "call sites pass literal column lists and matching destinations (C18 extracts them)",
}

func init() {
	reviewedPanics["fdo/cose.ccmAEAD.Open|unimplemented"] = "AES-CCM is registered as an encrypt algorithm but no registered cipher suite names it (C09.cipher-registry enumerates the suites), so no session can select it"
	reviewedPanics["fdo/cose.ccmAEAD.Seal|unimplemented"] = reviewedPanics["fdo/cose.ccmAEAD.Open|unimplemented"]
	reviewedPanics["fdo/cose.ccmAEAD.tag|unimplemented"] = reviewedPanics["fdo/cose.ccmAEAD.Open|unimplemented"]
	reviewedPanics["fdo/http/internal/httputil.ResponseRecorder.Result$1|unreachable"] = "tinygo build only: strconv.ParseUint with bitSize 63 cannot return a value above MaxInt64"
	reviewedPanics["fdo/cose.pad|pad size miscalculated"] = "padSize = blockSize - len%blockSize lies in 1..blockSize"
}

var ssaArtifactPanics = map[string]bool{
	"blocking select matched no case":                                                true,
	"iterator call did not preserve panic":                                           true,
	"yield function called after range loop exit":                                    true,
	"range function continued iteration after function for loop body returned false": true,
}

// partialLookups: functions that panic on a value outside their table; every
// call with a peer-controlled receiver needs a validator on all paths.
var partialLookups = map[string]string{
	"fdo/protocol.HashAlg.HashFunc":        "hashalg-safe",
	"fdo/cose.SignatureAlgorithm.HashFunc": "sigalg-safe",
	"fdo/kex.CipherSuiteID.Suite":          "cipher-safe",
	"fdo/cose.EncryptAlgorithm.NewCrypter": "encalg-safe",
	"fdo/cose.EncryptAlgorithm.SupportsAD": "encalg-safe",
	"fdo/cose.EncryptAlgorithm.KeySize":    "encalg-safe",
	"fdo/cose.MacAlgorithm.NewMac":         "macalg-safe",
	"fdo/cose.MacAlgorithm.KeySize":        "macalg-safe",
}

func e3Rules(p *Prog) *RuleSet {
	typed := func(t string) func(m *Matcher, v ssa.Value) bool {
		return func(m *Matcher, v ssa.Value) bool { return typeShort(v.Type()) == t }
	}
	constCase := func(name Atom, typ string) AtomDef {
		return AtomDef{Name: name, Doc: "the value was matched against a constant of its enumeration", Edge: func(m *Matcher, pd Pred, holds bool) bool {
			if pd.Kind != "eq" || !holds {
				return false
			}
			_, cy := pd.Y.(*ssa.Const)
			_, cx := pd.X.(*ssa.Const)
			return (cy && typed(typ)(m, pd.X)) || (cx && typed(typ)(m, pd.Y))
		}}
	}
	commaOkLookup := func(name Atom, global string) AtomDef {
		return AtomDef{Name: name, Doc: "found in registry " + global, Edge: func(m *Matcher, pd Pred, holds bool) bool {
			if pd.Kind != "bool" || !holds {
				return false
			}
			ex, ok := pd.X.(*ssa.Extract)
			if !ok || ex.Index != 1 {
				return false
			}
			lk, ok := ex.Tuple.(*ssa.Lookup)
			return ok && lk.CommaOk && m.Prov(lk.X).Has("global:"+global)
		}}
	}
	return &RuleSet{
		Atoms: []AtomDef{
			boolTrue("hashalg-valid", "HashAlg.Valid() is true", named("fdo/protocol.HashAlg.Valid"), 0, nil),
			constCase("hashalg-case", "fdo/protocol.HashAlg"),
			commaOkLookup("sigalg-registered", "fdo/cose.sigAlgorithms"),
			constCase("sigalg-case", "fdo/cose.SignatureAlgorithm"),
			errNil("sigalg-accepted", "the device signature type was accepted by the key-type mapping (whose cases are all registered, C09.sigalg-registry)",
				func(n string) bool { return strings.HasPrefix(n, "fdo.") }, func(m *Matcher, call ssa.CallInstruction, args []ssa.Value) bool {
					return len(args) == 1 && typeShort(args[0].Type()) == "fdo/cose.SignatureAlgorithm"
				}),
			boolTrue("kex-available", "kex.Available is true", named("fdo/kex.Available"), 0, nil),
			boolTrue("key-comparable", "reflect.Type.Comparable() is true", named("reflect.Type.Comparable"), 0, nil),
			commaOkLookup("cipher-registered", "fdo/kex.ciphers"),
			commaOkLookup("encalg-registered", "fdo/cose.encryptAlgorithms"),
			commaOkLookup("encalg-info", "fdo/cose.encryptAlgorithmInfo"),
			commaOkLookup("macalg-registered", "fdo/cose.macAlgorithms"),
			commaOkLookup("macalg-size", "fdo/cose.macAlgorithmKeySizes"),
			// G2/G3 value facts
			{Name: "bounds", EdgeDyn: boundFacts},
			// a store overwrites the location nil-facts were keyed by
			{Name: "ptr-store", AnyDyn: func(m *Matcher, in ssa.Instruction) (gen, kill []Atom) {
				st, ok := in.(*ssa.Store)
				if !ok || !isPtrLike(st.Val.Type()) {
					return nil, nil
				}
				loc := "*" + canonAddr(st.Addr)
				kill = []Atom{Atom("~" + loc)}
				if nonNilValue(m.P, st.Val, 0) {
					gen = []Atom{Atom("v:nn:" + loc)}
				}
				return gen, kill
			}},
			// assigning a call result or parameter to an optional (interface /
			// function typed) location counts as setting it
			{Name: "opt-store", AnyDyn: func(m *Matcher, in ssa.Instruction) (gen, kill []Atom) {
				st, ok := in.(*ssa.Store)
				if !ok || !optionalKind(st.Val.Type()) {
					return nil, nil
				}
				loc := "*" + canonAddr(st.Addr)
				kill = []Atom{Atom("~" + loc)}
				switch v := st.Val.(type) {
				case *ssa.Call, *ssa.Extract, *ssa.Parameter, *ssa.MakeInterface, *ssa.MakeClosure, *ssa.Function:
					_ = v
					gen = []Atom{Atom("v:nn:" + loc)}
				}
				return gen, kill
			}},
		},
		DynComplement: true,
		DeriveDyn:     boundDerive,
		Derive: []Derivation{
			{"hashalg-safe", []Atom{"hashalg-valid"}}, {"hashalg-safe", []Atom{"hashalg-case"}},
			{"sigalg-safe", []Atom{"sigalg-registered"}}, {"sigalg-safe", []Atom{"sigalg-case"}}, {"sigalg-safe", []Atom{"sigalg-accepted"}},
			{"cipher-safe", []Atom{"kex-available"}}, {"cipher-safe", []Atom{"cipher-registered"}},
			{"encalg-safe", []Atom{"encalg-registered"}}, {"encalg-safe", []Atom{"encalg-info"}},
			{"macalg-safe", []Atom{"macalg-registered"}}, {"macalg-safe", []Atom{"macalg-size"}},
		},
	}
}

// intRoot strips conversions of an integer value.
func intRoot(v ssa.Value) ssa.Value {
	for {
		switch x := v.(type) {
		case *ssa.Convert:
			v = x.X
		case *ssa.ChangeType:
			v = x.X
		case *ssa.UnOp:
			// loads of a local variable denote the variable (facts are keyed
			// by the variable; stores between check and use are not modelled)
			if x.Op == token.MUL {
				if al, ok := x.X.(*ssa.Alloc); ok {
					return al
				}
			}
			return v
		default:
			return v
		}
	}
}

// canon names a value by the memory location it was loaded from, so that two
// loads of the same variable / field of the same object share their facts.
func canon(v ssa.Value) string {
	if v == nil {
		return ""
	}
	switch x := v.(type) {
	case *ssa.Convert:
		return canon(x.X)
	case *ssa.ChangeType:
		return canon(x.X)
	case *ssa.UnOp:
		if x.Op == token.MUL {
			return "*" + canonAddr(x.X)
		}
	case *ssa.Slice:
		if x.Low == nil && x.High == nil && x.Max == nil {
			return canon(x.X)
		}
		lo, hi := "", ""
		if x.Low != nil {
			lo = canon(x.Low)
		}
		if x.High != nil {
			hi = canon(x.High)
		}
		return canon(x.X) + "[" + lo + ":" + hi + "]"
	case *ssa.Const:
		if c, ok := constInt(x); ok {
			return itoa(int(c))
		}
	case *ssa.Field:
		return canon(x.X) + ".f" + itoa(x.Field)
	}
	return v.Name()
}

func canonAddr(v ssa.Value) string {
	switch x := v.(type) {
	case *ssa.FieldAddr:
		return canonAddr(x.X) + ".f" + itoa(x.Field)
	case *ssa.IndexAddr:
		if c, ok := constInt(x.Index); ok {
			return canonAddr(x.X) + "[" + itoa(int(c)) + "]"
		}
		return canonAddr(x.X) + "[" + canon(x.Index) + "]"
	case *ssa.UnOp:
		if x.Op == token.MUL {
			return "(*" + canonAddr(x.X) + ")"
		}
	}
	return v.Name()
}

// maxSaneBound: a constant upper bound counts as a memory bound only up to
// this value (comparisons with MaxInt64 and the like bound nothing).
const maxSaneBound = 1 << 24

// boundFacts emits facts about integer SSA values established on an edge:
//
//	v:ub:<x>        x is bounded above by a constant or by len()/cap() of something
//	v:lb0:<x>       x >= 0
//	v:lt:<x>:<y>    x < len(y)        v:le:<x>:<y>   x <= len(y)
//	v:lenge:<y>:<c> len(y) >= c (constant c)
func boundFacts(m *Matcher, p Pred, holds bool) []Atom {
	var out []Atom
	name := func(v ssa.Value) string { return canon(v) }
	isConst := func(v ssa.Value) (int64, bool) { return constInt(intRootNoVar(v)) }
	// normalise to a strict/non-strict "a < b" / "a <= b" that is TRUE on this edge
	var a, b ssa.Value
	strict := false
	switch p.Kind {
	case "nil":
		if !isPtrLike(p.X.Type()) && !optionalKind(p.X.Type()) {
			return nil
		}
		if !holds {
			return []Atom{Atom("v:nn:" + canon(p.X))}
		}
		return []Atom{Atom("v:nil:" + canon(p.X))}
	case "lt":
		if holds {
			a, b, strict = p.X, p.Y, true
		} else {
			a, b, strict = p.Y, p.X, false // !(x<y) => y<=x
		}
	case "le":
		if holds {
			a, b, strict = p.X, p.Y, false
		} else {
			a, b, strict = p.Y, p.X, true // !(x<=y) => y<x
		}
	case "eq":
		if !holds {
			for _, pr := range [][2]ssa.Value{{p.X, p.Y}, {p.Y, p.X}} {
				if isConstInt(intRootNoVar(pr[1]), 0) && isUnsigned(pr[0]) {
					out = append(out, Atom("v:lbc:"+canon(pr[0])+":1"))
				}
			}
			// len(y) != 0  =>  len(y) >= 1
			for _, pr := range [][2]ssa.Value{{p.X, p.Y}, {p.Y, p.X}} {
				if l := lenOf(m, intRootNoVar(pr[0])); l != nil && isConstInt(intRootNoVar(pr[1]), 0) {
					out = append(out, "v:lenge:"+canon(l)+":0", "v:lenge:"+canon(l)+":1")
				}
			}
			return out
		}
		// x == y: both directions non-strict
		out = append(out, boundFactsLE(m, p.X, p.Y, false, name, isConst)...)
		out = append(out, boundFactsLE(m, p.Y, p.X, false, name, isConst)...)
		// len(y) == <BlockSize()/NonceSize()/const>  and  len(y) % bs == 0
		for _, pr := range [][2]ssa.Value{{p.X, p.Y}, {p.Y, p.X}} {
			if l := lenOf(m, intRootNoVar(pr[0])); l != nil {
				out = append(out, "v:leneq:"+canon(l))
			}
			if bo, ok := intRootNoVar(pr[0]).(*ssa.BinOp); ok && bo.Op == token.REM && isConstInt(intRootNoVar(pr[1]), 0) {
				if l := lenOf(m, intRootNoVar(bo.X)); l != nil {
					out = append(out, "v:lenmod:"+canon(l))
				}
			}
		}
		// len(y) == 2*n  =>  n <= len(y)
		for _, pr := range [][2]ssa.Value{{p.X, p.Y}, {p.Y, p.X}} {
			if l := lenOf(m, intRootNoVar(pr[0])); l != nil {
				if bo, ok := intRootNoVar(pr[1]).(*ssa.BinOp); ok && bo.Op == token.MUL {
					for _, q := range [][2]ssa.Value{{bo.X, bo.Y}, {bo.Y, bo.X}} {
						if c, ok := constInt(intRootNoVar(q[1])); ok && c >= 1 {
							out = append(out, "v:le:"+canon(q[0])+":"+canon(l))
						}
					}
				}
			}
		}
		return out
	default:
		return nil
	}
	return boundFactsLE(m, a, b, strict, name, isConst)
}

func boundFactsLE(m *Matcher, a, b ssa.Value, strict bool, name func(ssa.Value) string, isConst func(ssa.Value) (int64, bool)) []Atom {
	var out []Atom
	if _, ok := intRoot(a).Type().Underlying().(interface{ Kind() int }); ok {
	}
	// a (<|<=) b
	if cb, ok := isConst(b); ok {
		if _, aConst := isConst(a); !aConst && cb <= maxSaneBound {
			out = append(out, "v:ub:"+name(a))
			if isUnsigned(a) {
				// bounded in the unsigned domain: converting to int keeps it non-negative
				out = append(out, "v:lb0:"+name(a))
			}
			if la := lenOf(m, intRoot(a)); la != nil {
				_ = la
			}
		}
		_ = cb
	}
	if lb := lenOf(m, intRoot(b)); lb != nil {
		if _, aConst := isConst(a); !aConst {
			out = append(out, "v:ub:"+name(a))
			if strict {
				out = append(out, "v:lt:"+name(a)+":"+canon(lb))
			}
			out = append(out, "v:le:"+name(a)+":"+canon(lb))
		} else if ca, _ := isConst(a); true {
			// c (<|<=) len(y)  => len(y) >= c (+1 if strict)
			c := ca
			if strict {
				c++
			}
			for k := int64(0); k <= c && k <= 64; k++ {
				out = append(out, "v:lenge:"+canon(lb)+":"+itoa(int(k)))
			}
		}
	}
	if bo, ok := intRootNoVar(b).(*ssa.BinOp); ok && bo.Op == token.SUB {
		if l := lenOf(m, intRootNoVar(bo.X)); l != nil {
			out = append(out, "v:sumle:"+name(a)+":"+canon(bo.Y)+":"+canon(l))
		}
	}
	if ca, ok := isConst(a); ok {
		if _, bConst := isConst(b); !bConst && (ca >= 0 || (ca == -1 && strict)) {
			out = append(out, "v:lb0:"+name(b))
		}
		// c (<|<=) x  =>  x >= c (+1 if strict): constant lower bounds
		if _, bConst := isConst(b); !bConst && ca >= 0 {
			lb := ca
			if strict {
				lb++
			}
			for k := int64(1); k <= lb && k <= 64; k++ {
				out = append(out, Atom("v:lbc:"+name(b)+":"+itoa(int(k))))
			}
		}
	}
	// exact constant bounds and relational facts (renamed across helper calls)
	if cb, ok := isConst(b); ok {
		if _, aConst := isConst(a); !aConst {
			ub := cb
			if strict {
				ub--
			}
			out = append(out, Atom("v:ubc:"+name(a)+":"+strconv.FormatInt(ub, 10)))
		}
	}
	if ca, ok := isConst(a); ok {
		if _, bConst := isConst(b); !bConst {
			lb := ca
			if strict {
				lb++
			}
			out = append(out, Atom("v:lbx:"+name(b)+":"+strconv.FormatInt(lb, 10)))
		}
	}
	if _, aConst := isConst(a); !aConst {
		if _, bConst := isConst(b); !bConst {
			rel := "v:le-val:"
			if strict {
				rel = "v:lt-val:"
			}
			out = append(out, Atom(rel+name(a)+":"+name(b)))
			if isUnsigned(a) {
				out = append(out, Atom("v:lb0:"+name(a)))
			}
		}
	}
	return out
}

// boundDerive turns facts whose right-hand side became a number (by renaming a
// helper's parameter to a constant argument) into the bound facts the rules use.
func boundDerive(has func(Atom) bool, each func(func(Atom))) []Atom {
	var out []Atom
	each(func(a Atom) {
		for _, pre := range []string{"v:lt-val:", "v:le-val:"} {
			if !strings.HasPrefix(a, pre) {
				continue
			}
			rest := a[len(pre):]
			i := strings.LastIndex(rest, ":")
			if i <= 0 {
				continue
			}
			x, rhs := rest[:i], rest[i+1:]
			if k, err := strconv.ParseInt(rhs, 10, 64); err == nil {
				if pre == "v:lt-val:" {
					k--
				}
				out = append(out, Atom("v:ubc:"+x+":"+strconv.FormatInt(k, 10)))
			}
			if k, err := strconv.ParseInt(x, 10, 64); err == nil {
				// number (<|<=) y
				if pre == "v:lt-val:" {
					k++
				}
				out = append(out, Atom("v:lbx:"+rhs+":"+strconv.FormatInt(k, 10)))
			}
		}
		if strings.HasPrefix(a, "v:ubc:") {
			rest := a[len("v:ubc:"):]
			if i := strings.LastIndex(rest, ":"); i > 0 {
				if k, err := strconv.ParseInt(rest[i+1:], 10, 64); err == nil && k <= maxSaneBound {
					out = append(out, Atom("v:ub:"+rest[:i]))
				}
			}
		}
		if strings.HasPrefix(a, "v:lbx:") {
			rest := a[len("v:lbx:"):]
			if i := strings.LastIndex(rest, ":"); i > 0 {
				if k, err := strconv.ParseInt(rest[i+1:], 10, 64); err == nil {
					if k >= 0 {
						out = append(out, Atom("v:lb0:"+rest[:i]))
					}
					for j := int64(1); j <= k && j <= 64; j++ {
						out = append(out, Atom("v:lbc:"+rest[:i]+":"+strconv.FormatInt(j, 10)))
					}
				}
			}
		}
	})
	return out
}

// panicObligations adds the G1 obligations for the region reachable from roots.
func panicObligations(c *Ctx, p *Prog, r *Result, prefix string, roots []*ssa.Function, skip func(*ssa.Function) bool) {
	e := &E3{p: p, roots: roots}
	e.region = p.Reachable(roots, func(fn *ssa.Function) bool { return isHarnessPkg(funcPkgPath(fn)) || (skip != nil && skip(fn)) })
	for fn := range e.region {
		e.order = append(e.order, fn)
	}
	sort.Slice(e.order, func(i, j int) bool { return p.FuncName(e.order[i]) < p.FuncName(e.order[j]) })
	e.t = newTaint(p, e.region, roots...)
	e.g1(r, prefix)
}

func (e *E3) g1(r *Result, prefix string) {
	p := e.p
	rule := prefix + ".panics"
	r.rule(rule, "G1: every explicit panic reachable from the entry points is an SSA artifact, is guarded only by conditions no peer-controlled value reaches, or is in the reviewed table (function|message -> reason); any other panic is a violation")
	seen := map[string]bool{}
	for _, fn := range e.order {
		k := 0
		for _, b := range fn.Blocks {
			pn, ok := b.Instrs[len(b.Instrs)-1].(*ssa.Panic)
			if !ok {
				continue
			}
			k++
			msg := panicMessage(pn)
			key := p.FuncName(fn) + "|" + msg
			construct := fmt.Sprintf("panic #%d in %s (%s)", k, p.FuncName(fn), msg)
			switch {
			case ssaArtifactPanics[msg]:
				r.table(p, rule, construct, p.instrPos(pn), true, "SSA artifact (select/range-over-func lowering), unreachable")
			default:
				ct, where := e.condTainted(b)
				if !ct {
					r.table(p, rule, construct, p.instrPos(pn), true, "no peer-controlled value reaches a guarding condition (programmer/configuration error)")
					continue
				}
				seen[key] = true
				if msg == "unreachable" && exhaustive3bit(fn) {
					r.table(p, rule, construct, p.instrPos(pn), true, "exhaustive: follows a switch whose cases cover all eight values of the 3-bit major type")
				} else if reason, ok := reviewedPanics[key]; ok {
					r.table(p, rule, construct, p.instrPos(pn), true, "reviewed: "+reason+" [tainted condition at "+where+"]")
				} else if reason, ok := reviewedPanicByMessage(funcPkgPath(fn), msg); ok {
					// the enclosing function was renamed or the panic moved into a
					// helper of the same package: the reviewed entry is identified
					// by its (package, message), which is unique in the table
					r.table(p, rule, construct, p.instrPos(pn), true, "reviewed (matched by package and message): "+reason+" [tainted condition at "+where+"]")
				} else if _, isLookup := partialLookups[p.FuncName(fn)]; isLookup {
					r.table(p, rule, construct, p.instrPos(pn), true, "partial lookup: discharged per call site by rule "+prefix+".partial-lookups")
				} else {
					r.table(p, rule, construct, p.instrPos(pn), false, "explicit panic guarded by a peer-controlled condition at "+where+" and not in the reviewed table")
				}
			}
		}
	}

	// the fsim command module's invariant "cmd != nil => process started"
	e.cmdStarted(r, prefix)

	// partial lookups, per call site
	rule2 := prefix + ".partial-lookups"
	r.rule(rule2, "G1c: every call of a registry/enumeration accessor that panics on unknown values (HashAlg.HashFunc, SignatureAlgorithm.HashFunc, CipherSuiteID.Suite, Encrypt/MacAlgorithm accessors) whose receiver is peer-controlled is dominated by a validator (Valid(), registry lookup ok, kex.Available, accepted signature type, or a constant case)")
	f := NewFlow(p, e3Rules(p), e.roots, nil)
	for _, fn := range e.order {
		if !f.Region[fn] {
			continue
		}
		for _, b := range fn.Blocks {
			for _, in := range b.Instrs {
				call, ok := in.(ssa.CallInstruction)
				if !ok {
					continue
				}
				atom, isLookup := partialLookups[p.calleeOf(call.Common()).Name]
				if !isLookup {
					continue
				}
				recv := allArgs(call)[0]
				if !e.t.Is(recv) {
					r.table(p, rule2, siteKey(p, call), p.instrPos(call), true, "receiver is not peer-controlled")
					continue
				}
				if pv := f.matcherFor(fn).Prov(recv); pv.Has("field:fdo/kex.CipherSuite.EncryptAlg") || pv.Has("field:fdo/kex.CipherSuite.MacAlg") {
					r.table(p, rule2, siteKey(p, call), p.instrPos(call), cipherSuiteLiteralsOnlyInInit(p), "registry data: the algorithm is a field of a kex.CipherSuite, and CipherSuite values are built only in init (RegisterCipherSuite) — checked; their algorithms are registered (C09.cipher-registry)")
					continue
				}
				if pr, isParam := recv.(*ssa.Parameter); isParam && e.paramFromCipherSuite(f, fn, pr) {
					r.table(p, rule2, siteKey(p, call), p.instrPos(call), cipherSuiteLiteralsOnlyInInit(p), "registry data: every caller passes a field of a registered kex.CipherSuite for this parameter")
					continue
				}
				// inside the accessor family itself (e.g. NewCrypter calling KeySize on its own receiver) the caller's obligation covers it
				if _, self := partialLookups[p.FuncName(fn)]; self {
					r.table(p, rule2, siteKey(p, call), p.instrPos(call), true, "accessor calling a sibling accessor on its own receiver")
					continue
				}
				r.requireAtSites(f, rule2, []ssa.CallInstruction{call}, []Atom{atom})
			}
		}
	}
}

// exhaustive3bit: fn compares one uint8 value against all of 0..7.
func exhaustive3bit(fn *ssa.Function) bool {
	byVal := map[ssa.Value]map[int64]bool{}
	for _, b := range fn.Blocks {
		for _, in := range b.Instrs {
			bo, ok := in.(*ssa.BinOp)
			if !ok || bo.Op != token.EQL {
				continue
			}
			c, ok := constInt(bo.Y)
			if !ok || c < 0 || c > 7 {
				continue
			}
			if byVal[bo.X] == nil {
				byVal[bo.X] = map[int64]bool{}
			}
			byVal[bo.X][c] = true
		}
	}
	for v, cs := range byVal {
		if len(cs) == 8 && v.Type().Underlying().String() == "byte" || len(cs) == 8 && v.Type().Underlying().String() == "uint8" {
			return true
		}
	}
	return false
}

// cipherSuiteLiteralsOnlyInInit: composite literals of kex.CipherSuite occur
// only in package init functions.
func cipherSuiteLiteralsOnlyInInit(p *Prog) bool {
	for _, fn := range p.Funcs {
		if isHarnessPkg(funcPkgPath(fn)) {
			continue
		}
		for _, b := range fn.Blocks {
			for _, in := range b.Instrs {
				if al, ok := in.(*ssa.Alloc); ok && typeShort(al.Type()) == "fdo/kex.CipherSuite" && len(litFields(al)) > 0 {
					if !strings.HasPrefix(fn.Name(), "init") {
						return false
					}
				}
			}
		}
	}
	return true
}

// cmdStarted: wherever exec.Cmd.Start fails, the struct field holding the
// command is cleared before the function returns (so that later code testing
// that field never sees a command without a process).
func (e *E3) cmdStarted(r *Result, prefix string) {
	p := e.p
	rule := prefix + ".cmd-started"
	for _, fn := range e.order {
		// the invariant is needed only where a reviewed "command should always
		// be started" panic relies on it (the fsim command module); other users
		// of exec.Cmd (the plugin host) test cmd / cmd.Process for nil instead
		if funcPkgPath(fn) != modulePath+"/fsim" {
			continue
		}
		var starts []ssa.CallInstruction
		for _, b := range fn.Blocks {
			for _, in := range b.Instrs {
				if call, ok := in.(ssa.CallInstruction); ok && p.calleeOf(call.Common()).Name == "os/exec.Cmd.Start" {
					starts = append(starts, call)
				}
			}
		}
		if len(starts) == 0 {
			continue
		}
		r.rule(rule, "where exec.Cmd.Start returns an error, the field holding the command is set to nil before the function returns (invariant behind the reviewed 'command should always be started' panics)")
		rs := &RuleSet{Atoms: []AtomDef{
			{Name: "start-failed", Edge: func(m *Matcher, pd Pred, holds bool) bool {
				if pd.Kind != "nil" || holds {
					return false
				}
				n, _, call := m.ResultOf(pd.X)
				return call != nil && n == "os/exec.Cmd.Start"
			}},
			{Name: "cmd-cleared", ExecAny: func(m *Matcher, in ssa.Instruction) bool {
				st, ok := in.(*ssa.Store)
				if !ok {
					return false
				}
				c, isConst := st.Val.(*ssa.Const)
				_, isField := st.Addr.(*ssa.FieldAddr)
				return isConst && c.IsNil() && isField && strings.Contains(st.Val.Type().String(), "exec.Cmd")
			}},
		}}
		f := NewFlow(p, rs, []*ssa.Function{fn}, func(g *ssa.Function) bool { return g != fn })
		for i, b := range fn.Blocks {
			ret, ok := b.Instrs[len(b.Instrs)-1].(*ssa.Return)
			if !ok {
				continue
			}
			st := f.StateAt(ret)
			if st.top || !st.Has("start-failed") {
				continue
			}
			r.table(p, rule, fmt.Sprintf("failure return #%d of %s", i, p.FuncName(fn)), p.instrPos(ret), st.Has("cmd-cleared"), "command field cleared before returning the Start error")
		}
	}
}

// ---- G2: allocations sized by the peer ----------------------------------------------

// lenDerived: v is computed only from len()/cap() of existing data and constants.
func lenDerived(m *Matcher, v ssa.Value, depth int) bool {
	if depth > 8 {
		return false
	}
	v = intRoot(v)
	if _, ok := v.(*ssa.Const); ok {
		return true
	}
	if lenOf(m, v) != nil {
		return true
	}
	if c, ok := v.(*ssa.Call); ok {
		if b, ok := c.Call.Value.(*ssa.Builtin); ok && (b.Name() == "cap" || b.Name() == "min" || b.Name() == "max") {
			for _, a := range c.Call.Args {
				if b.Name() == "cap" {
					return true
				}
				if !lenDerived(m, a, depth+1) {
					return false
				}
			}
			return true
		}
		switch m.P.calleeOf(c.Common()).Name {
		case "hash.Hash.Size", "hash.Hash.BlockSize", "crypto/cipher.Block.BlockSize", "crypto/cipher.AEAD.NonceSize", "crypto/cipher.AEAD.Overhead", "reflect.Value.Len", "bytes.Buffer.Len":
			return true
		}
	}
	if bo, ok := v.(*ssa.BinOp); ok {
		return lenDerived(m, bo.X, depth+1) && lenDerived(m, bo.Y, depth+1)
	}
	if ph, ok := v.(*ssa.Phi); ok {
		for _, e := range ph.Edges {
			if !lenDerived(m, e, depth+1) {
				return false
			}
		}
		return true
	}
	return false
}

// boundedResult: v is result idx of an in-module function all of whose success
// returns return a value with an upper-bound fact.
func (e *E3) boundedResult(f *Flow, m *Matcher, v ssa.Value) (bool, string) {
	call, idx := m.CallResult(intRoot(v))
	if call == nil {
		return false, ""
	}
	g := e.p.body(call.Common().StaticCallee())
	if g == nil || !f.Region[g] {
		return false, ""
	}
	errIdx := g.Signature.Results().Len() - 1
	n := 0
	for _, sr := range f.successReturns(g, errIdx) {
		rv := intRoot(returnValue(sr.Ret, idx))
		if _, isConst := rv.(*ssa.Const); isConst {
			continue
		}
		n++
		if !sr.State.Has("v:ub:" + canon(returnValue(sr.Ret, idx))) {
			return false, ""
		}
	}
	return n > 0, e.p.FuncName(g)
}

func (e *E3) g2(r *Result, prefix string, f *Flow) {
	p := e.p
	rule := prefix + ".alloc-bounded"
	r.rule(rule, "G2: every allocation whose size a peer-controlled value reaches (make, reflect.MakeSlice, Value.Grow/SetLen, Repeat) is sized by len()/cap() of data already received, or is dominated by an upper-bound comparison of that value (directly or inside the function that produced it)")
	check := func(fn *ssa.Function, in ssa.Instruction, size ssa.Value, what string) {
		if size == nil {
			return
		}
		if _, isConst := intRoot(size).(*ssa.Const); isConst {
			return
		}
		m := f.matcherFor(fn)
		construct := fmt.Sprintf("%s in %s", what, p.FuncName(fn))
		k := 1
		for r.hasConstruct(rule, construct) {
			k++
			construct = fmt.Sprintf("%s #%d in %s", what, k, p.FuncName(fn))
		}
		if !e.t.Is(size) {
			r.table(p, rule, construct, p.instrPos(in), true, "size is not peer-controlled")
			return
		}
		if lenDerived(m, size, 0) {
			r.table(p, rule, construct, p.instrPos(in), true, "size is len()/cap()/block size of existing data (proportional to what was received)")
			return
		}
		st := f.StateAt(in)
		root := intRoot(size)
		if st.Has("v:ub:" + canon(size)) {
			nn := isUnsigned(size) || st.Has("v:lb0:"+canon(size)) || arithNonNeg(m, size, 0)
			r.table(p, rule, construct, p.instrPos(in), nn, fmt.Sprintf("dominated by an upper-bound comparison of %s; non-negative (unsigned comparison, lower bound or unsigned type)=%v", root.Name(), nn))
			return
		}
		if narrowBounded(m, size, 0) {
			r.table(p, rule, construct, p.instrPos(in), true, "size is computed from values of at most 16 bits, constants and lengths of existing data (at most 64 KiB)")
			return
		}
		if fld := fieldOfLoad(intRootNoVar(size)); fld != "" && fieldOnlyConstStores(p, fld) {
			r.table(p, rule, construct, p.instrPos(in), true, "size is field "+fld+", which is only ever assigned constants (registered constructors) or restored from the state store")
			return
		}
		if ok, g := e.boundedResult(f, m, size); ok {
			r.table(p, rule, construct, p.instrPos(in), true, "size is the result of "+g+", which returns it only after an upper-bound comparison")
			return
		}
		if why := e.sizeBoundedAtCallers(f, fn, size, 0); why != "" {
			r.table(p, rule, construct, p.instrPos(in), true, why)
			return
		}
		r.table(p, rule, construct, p.instrPos(in), false, "peer-controlled size "+root.Name()+"="+root.String()+" reaches the allocation without a dominating upper bound")
	}
	for _, fn := range e.order {
		if !f.Region[fn] {
			continue
		}
		for _, b := range fn.Blocks {
			for _, in := range b.Instrs {
				switch x := in.(type) {
				case *ssa.MakeSlice:
					check(fn, in, x.Len, "make")
					if x.Cap != x.Len {
						check(fn, in, x.Cap, "make(cap)")
					}
				case *ssa.MakeMap:
					check(fn, in, x.Reserve, "make(map)")
				case ssa.CallInstruction:
					args := allArgs(x)
					switch p.calleeOf(x.Common()).Name {
					case "reflect.MakeSlice":
						check(fn, in, args[1], "reflect.MakeSlice")
						check(fn, in, args[2], "reflect.MakeSlice(cap)")
					case "reflect.Value.Grow", "reflect.Value.SetLen", "reflect.Value.SetCap":
						check(fn, in, args[1], p.calleeOf(x.Common()).Name)
					case "bytes.Repeat", "strings.Repeat", "slices.Repeat":
						check(fn, in, args[1], p.calleeOf(x.Common()).Name)
					case "bytes.Buffer.Grow", "strings.Builder.Grow", "slices.Grow":
						check(fn, in, args[1], p.calleeOf(x.Common()).Name)
					}
				}
			}
		}
	}
}

func intRootNoVar(v ssa.Value) ssa.Value {
	for {
		switch x := v.(type) {
		case *ssa.Convert:
			v = x.X
		case *ssa.ChangeType:
			v = x.X
		default:
			return v
		}
	}
}

// narrowBounded: v is built from values whose type is at most 16 bits wide,
// constants and len()-derived values with + and -.
func narrowBounded(m *Matcher, v ssa.Value, depth int) bool {
	if depth > 8 {
		return false
	}
	switch v.Type().Underlying().String() {
	case "uint8", "uint16", "int8", "int16", "byte":
		return true
	}
	switch x := v.(type) {
	case *ssa.Const:
		return true
	case *ssa.Convert:
		return narrowBounded(m, x.X, depth+1)
	case *ssa.BinOp:
		if x.Op == token.ADD || x.Op == token.SUB {
			return narrowBounded(m, x.X, depth+1) && narrowBounded(m, x.Y, depth+1)
		}
	case *ssa.Phi:
		for _, e := range x.Edges {
			if !narrowBounded(m, e, depth+1) {
				return false
			}
		}
		return true
	}
	return lenDerived(m, v, depth)
}

// fieldOnlyConstStores: every store to the named struct field in the module is
// a constant, or happens in an UnmarshalCBOR method (restore from the state
// store); composite literals count as stores.
func fieldOnlyConstStores(p *Prog, field string) bool {
	n := 0
	for _, fn := range p.Funcs {
		if isHarnessPkg(funcPkgPath(fn)) {
			continue
		}
		for _, b := range fn.Blocks {
			for _, in := range b.Instrs {
				st, ok := in.(*ssa.Store)
				if !ok {
					continue
				}
				fa, ok := st.Addr.(*ssa.FieldAddr)
				if !ok || fieldName(fa.X.Type(), fa.Field) != field {
					continue
				}
				n++
				if _, isConst := st.Val.(*ssa.Const); isConst {
					continue
				}
				if fn.Name() == "UnmarshalCBOR" || fn.Name() == "UnmarshalBinary" {
					continue
				}
				// a constructor helper's parameter that is a constant at every call site
				if prm, isParam := intRootNoVar(st.Val).(*ssa.Parameter); isParam && paramAlwaysConst(p, fn, prm) {
					continue
				}
				return false
			}
		}
	}
	return n > 0
}

// ---- G3: index and slice bounds ------------------------------------------------------

type boundsSite struct {
	fn   *ssa.Function
	in   ssa.Instruction
	kind string
}

// boundsInstrs indexes the index/slice instructions of the region by file:line.
func (e *E3) boundsInstrs() map[string][]boundsSite {
	out := map[string][]boundsSite{}
	for _, fn := range e.order {
		for _, b := range fn.Blocks {
			for _, in := range b.Instrs {
				kind := ""
				switch x := in.(type) {
				case *ssa.IndexAddr:
					kind = "IsInBounds"
				case *ssa.Index:
					kind = "IsInBounds"
				case *ssa.Lookup:
					if _, isMap := x.X.Type().Underlying().(interface{ Key() }); !isMap {
						kind = "IsInBounds"
					}
					if strings.HasPrefix(x.X.Type().Underlying().String(), "map[") {
						kind = ""
					}
				case *ssa.Slice:
					kind = "IsSliceInBounds"
				case *ssa.SliceToArrayPointer:
					kind = "IsSliceInBounds"
				}
				if kind == "" || !in.Pos().IsValid() {
					continue
				}
				ps := e.p.Fset.Position(in.Pos())
				key := fmt.Sprintf("%s:%d", filepath.Clean(ps.Filename), ps.Line)
				out[key] = append(out[key], boundsSite{fn, in, kind})
			}
		}
	}
	return out
}

func (e *E3) g3(r *Result, prefix string, f *Flow, repo string) {
	p := e.p
	rule := prefix + ".bounds"
	r.rule(rule, "G3: every index/slice expression in wire-reachable code whose bounds check the Go compiler's prove pass could not eliminate either involves no peer-controlled value, or is dominated by comparisons establishing 0 <= i < len / lo <= hi <= len for the very values used, or has a reviewed reason; everything the compiler proved needs no obligation")
	sites, err := unprovenBounds(repo, p.Config)
	if err != nil {
		r.fail("G3: %v", err)
		return
	}
	r.note("compiler prove pass left %d bounds checks unproven in the three modules (%s)", len(sites), p.Config.Name)
	idx := e.boundsInstrs()
	seen := map[ssa.Instruction]bool{}
	inRegion := 0
	for _, s := range sites {
		key := fmt.Sprintf("%s:%d", s.file, s.line)
		cands := idx[key]
		var matched []boundsSite
		for _, c := range cands {
			if c.kind == s.kind {
				matched = append(matched, c)
			}
		}
		if len(matched) == 0 {
			continue // not in a wire-reachable function (or no SSA counterpart on that line)
		}
		for _, c := range matched {
			if seen[c.in] {
				continue
			}
			seen[c.in] = true
			inRegion++
			e.boundsObligation(r, rule, f, c)
		}
	}
	r.note("%d unproven bounds checks lie in wire-reachable functions", inRegion)
}

func (e *E3) boundsObligation(r *Result, rule string, f *Flow, c boundsSite) {
	p := e.p
	fn := c.fn
	if !f.Region[fn] {
		return
	}
	m := f.matcherFor(fn)
	st := f.StateAt(c.in)
	k := 1
	construct := fmt.Sprintf("%s in %s", strings.TrimPrefix(c.kind, "Is"), p.FuncName(fn))
	for r.hasConstruct(rule, fmt.Sprintf("%s #%d", construct, k)) {
		k++
	}
	construct = fmt.Sprintf("%s #%d", construct, k)
	pos := p.instrPos(c.in)
	has := func(a string) bool { return st.Has(a) }
	nm := func(v ssa.Value) string { return canon(v) }
	lenTainted := func(x ssa.Value) bool { return e.t.Is(x) || e.t.memTainted(x) }
	nonNeg := func(v ssa.Value) bool {
		v0 := intRootNoVar(v)
		if cst, ok := constInt(v0); ok {
			return cst >= 0
		}
		if arithNonNeg(m, v, 0) {
			return true
		}
		return has("v:lb0:" + nm(v))
	}
	// reviewed: unproven, peer-influenced bounds whose safety follows from an
	// invariant this matcher does not model (one reason per function); used
	// only when the matcher itself cannot discharge the site, and never for
	// constant indices (those need an explicit length guard)
	emit := func(ok bool, detail string, constIndex bool) {
		if !ok && !constIndex {
			if reason, listed := reviewedBounds[p.FuncName(fn)]; listed {
				r.table(p, rule, construct, pos, true, "reviewed: "+reason)
				return
			}
		}
		r.table(p, rule, construct, pos, ok, detail)
	}
	switch x := c.in.(type) {
	case *ssa.IndexAddr, *ssa.Index, *ssa.Lookup:
		var base, i ssa.Value
		switch y := x.(type) {
		case *ssa.IndexAddr:
			base, i = y.X, y.Index
		case *ssa.Index:
			base, i = y.X, y.Index
		case *ssa.Lookup:
			base, i = y.X, y.Index
		}
		if !e.t.Is(i) && !lenTainted(base) {
			r.table(p, rule, construct, pos, true, "neither the index nor the indexed value's length is peer-controlled")
			return
		}
		if cst, ok := constInt(intRootNoVar(i)); ok {
			ok2 := has(fmt.Sprintf("v:lenge:%s:%d", canon(base), cst+1)) || arrayLenAtLeast(base, cst+1) || knownLen(m, base) >= cst+1 || e.paramLenAtLeast(f, fn, base, cst+1) || minLen(p, base, 0) >= cst+1
			emit(ok2, fmt.Sprintf("constant index %d into a value of peer-controlled length: needs len >= %d established", cst, cst+1), true)
			return
		}
		ok2 := has("v:lt:"+nm(i)+":"+canon(base)) && nonNeg(i)
		emit(ok2, fmt.Sprintf("index %s into %s: needs 0 <= i < len on all paths (have lt=%v nonneg=%v)", nm(i), canon(base), has("v:lt:"+nm(i)+":"+canon(base)), nonNeg(i)), false)
	case *ssa.Slice:
		base := x.X
		if al := loadOf(base); al != nil {
			_ = al
		}
		lo, hi := x.Low, x.High
		if (lo == nil || !e.t.Is(lo)) && (hi == nil || !e.t.Is(hi)) && !lenTainted(base) {
			r.table(p, rule, construct, pos, true, "neither the bounds nor the sliced value's length is peer-controlled")
			return
		}
		bname := canon(base)
		kl := knownLen(m, base)
		okHi := true
		if hi != nil {
			if cst, ok := constInt(intRootNoVar(hi)); ok {
				okHi = has(fmt.Sprintf("v:lenge:%s:%d", bname, cst)) || arrayLenAtLeast(base, cst) || kl >= cst
			} else {
				okHi = has("v:le:"+nm(hi)+":"+bname) || has("v:lt:"+nm(hi)+":"+bname) || isLenOf(m, hi, base) || readCount(m, hi, base)
				if bo, ok := intRootNoVar(hi).(*ssa.BinOp); ok && bo.Op == token.SUB && isLenOf(m, bo.X, base) {
					// x[: len(x)-k] with 0 <= k <= len(x)
					if nonNeg(bo.Y) && (has("v:le:"+canon(bo.Y)+":"+bname) || has("v:lt:"+canon(bo.Y)+":"+bname)) {
						okHi = true
					}
				}
				if bo, ok := intRootNoVar(hi).(*ssa.BinOp); ok && bo.Op == token.ADD && lo != nil {
					// x[b : b+a] with a <= len(x)-b
					for _, q := range [][2]ssa.Value{{bo.X, bo.Y}, {bo.Y, bo.X}} {
						if canon(q[0]) == canon(lo) && has("v:sumle:"+canon(q[1])+":"+canon(lo)+":"+bname) {
							okHi = true
						}
					}
				}
			}
		}
		okLo := true
		if lo != nil {
			if cst, ok := constInt(intRootNoVar(lo)); ok {
				if hi == nil {
					okLo = cst == 0 || has(fmt.Sprintf("v:lenge:%s:%d", bname, cst)) || arrayLenAtLeast(base, cst) || kl >= cst
				}
			} else {
				okLo = nonNeg(lo)
				if hi == nil {
					okLo = okLo && (has("v:le:"+nm(lo)+":"+bname) || has("v:lt:"+nm(lo)+":"+bname))
				} else if _, hc := constInt(intRootNoVar(hi)); !hc {
					okLo = okLo && (nm(lo) == nm(hi) || has("v:le-val:"+nm(lo)+":"+nm(hi)) || isSumOf(hi, lo))
				}
			}
		}
		if !(okLo && okHi) && hi != nil {
			// the sliced value was made in this function with a length that is a
			// linear expression; compare bounds and length as linear forms over
			// non-negative (length-derived) terms
			if ln := madeLen(fn, c.in, base); ln != nil {
				zeroLo := lo == nil
				loOK := zeroLo || linearLE(m, nil, lo)
				if loOK && (zeroLo || linearLE(m, lo, hi)) && linearLE(m, hi, ln) {
					okLo, okHi = true, true
				}
			}
		}
		emit(okLo && okHi, fmt.Sprintf("slice %s[%s:%s]: low ok=%v high ok=%v", bname, valName(lo), valName(hi), okLo, okHi), false)
	default:
		r.table(p, rule, construct, pos, false, "unrecognised bounds-checked construct: undecided")
	}
}

func valName(v ssa.Value) string {
	if v == nil {
		return ""
	}
	if c, ok := constInt(intRootNoVar(v)); ok {
		return itoa(int(c))
	}
	return intRoot(v).Name()
}

func arrayLenAtLeast(base ssa.Value, n int64) bool {
	t := base.Type().Underlying()
	if pt, ok := t.(interface{ Elem() interface{} }); ok {
		_ = pt
	}
	s := t.String()
	s = strings.TrimPrefix(s, "*")
	if strings.HasPrefix(s, "[") {
		end := strings.Index(s, "]")
		if end > 1 {
			if l, err := strconv.Atoi(s[1:end]); err == nil {
				return int64(l) >= n
			}
		}
	}
	return false
}

func isLenOf(m *Matcher, v, base ssa.Value) bool {
	l := lenOf(m, intRootNoVar(v))
	return l != nil && l == base
}

// isSumOf: hi == lo + something non-negative of narrow/len type (lo <= hi).
func isSumOf(hi, lo ssa.Value) bool {
	bo, ok := intRootNoVar(hi).(*ssa.BinOp)
	if !ok || bo.Op != token.ADD {
		return false
	}
	return canon(bo.X) == canon(lo) || canon(bo.Y) == canon(lo)
}

func lenDerivedNonNeg(m *Matcher, v ssa.Value) bool {
	if lenOf(m, v) != nil {
		return true
	}
	if c, ok := v.(*ssa.Call); ok {
		switch m.P.calleeOf(c.Common()).Name {
		case "builtin.cap", "builtin.min", "hash.Hash.Size", "crypto/cipher.Block.BlockSize", "slices.Index":
			return m.P.calleeOf(c.Common()).Name != "slices.Index"
		}
	}
	return false
}

// knownLen: the length of v is a known constant (fresh buffer of constant
// size, AppendUintN(nil, ..)), else -1.
func knownLen(m *Matcher, v ssa.Value) int64 { return knownLenD(m, v, 0) }

func knownLenD(m *Matcher, v ssa.Value, depth int) int64 {
	if depth > 6 {
		return -1
	}
	switch x := v.(type) {
	case *ssa.MakeSlice:
		if c, ok := constInt(x.Len); ok {
			return c
		}
	case *ssa.Call:
		sizes := map[string]int64{"encoding/binary.bigEndian.AppendUint64": 8, "encoding/binary.bigEndian.AppendUint32": 4, "encoding/binary.bigEndian.AppendUint16": 2}
		if n, ok := sizes[m.P.calleeOf(x.Common()).Name]; ok {
			args := allArgs(x)
			if c, isC := args[len(args)-2].(*ssa.Const); isC && c.IsNil() {
				return n
			}
		}
	case *ssa.Phi:
		best := int64(-1)
		for i, e := range x.Edges {
			k := knownLenD(m, e, depth+1)
			if i == 0 || k < best {
				best = k
			}
		}
		return best
	case *ssa.Slice:
		if x.High == nil && x.Low != nil {
			if c, ok := constInt(x.Low); ok {
				if k := knownLenD(m, x.X, depth+1); k >= c {
					return k - c
				}
			}
		}
		if x.High == nil && x.Low == nil {
			if al, ok := x.X.(*ssa.Alloc); ok {
				ts := al.Type().Underlying().String() // *[N]T
				if strings.HasPrefix(ts, "*[") {
					if end := strings.Index(ts, "]"); end > 2 {
						if n, err := strconv.Atoi(ts[2:end]); err == nil {
							return int64(n)
						}
					}
				}
			}
		}
	}
	if c, ok := v.(*ssa.Call); ok {
		if b, ok := c.Call.Value.(*ssa.Builtin); ok && b.Name() == "append" {
			return knownLenD(m, c.Call.Args[0], depth+1) // lower bound: append never shrinks
		}
		if strings.HasPrefix(m.P.calleeOf(c.Common()).Name, "encoding/binary.bigEndian.Append") {
			return knownLenD(m, allArgs(c)[len(allArgs(c))-2], depth+1)
		}
	}
	return -1
}

// readCount: n is the byte count returned by Read/ReadFull into this very buffer.
func readCount(m *Matcher, n, base ssa.Value) bool {
	name, idx, call := m.ResultOf(intRootNoVar(n))
	if call == nil || idx != 0 {
		return false
	}
	switch name {
	case "io.Reader.Read", "io.ReadFull", "os.File.Read", "bufio.Reader.Read":
		args := allArgs(call)
		dst := canon(args[len(args)-1])
		return dst == canon(base) || strings.HasPrefix(dst, canon(base)+"[:") // a prefix of base
	case "io/fs.File.Read":
		args := allArgs(call)
		dst := canon(args[len(args)-1])
		return dst == canon(base) || strings.HasPrefix(dst, canon(base)+"[:")
	}
	return false
}

// paramLenAtLeast: base is a parameter of fn and every in-region call site
// passes an argument whose length is known to be at least n.
func (e *E3) paramLenAtLeast(f *Flow, fn *ssa.Function, base ssa.Value, n int64) bool {
	pr, ok := base.(*ssa.Parameter)
	if !ok {
		return false
	}
	pi := -1
	for i, q := range fn.Params {
		if q == pr {
			pi = i
		}
	}
	sites := 0
	for _, ed := range e.p.CallGraph().in[fn] {
		if !f.Region[ed.Caller] || ed.Kind != "static" {
			continue
		}
		call, ok := ed.Site.(ssa.CallInstruction)
		if !ok || pi >= len(call.Common().Args) {
			return false
		}
		sites++
		arg := call.Common().Args[pi]
		st := f.StateAt(call)
		if !st.Has(fmt.Sprintf("v:lenge:%s:%d", canon(arg), n)) {
			return false
		}
	}
	return sites > 0
}

// arithNonNeg: v is built with + * / >> from non-negative ingredients.
func arithNonNeg(m *Matcher, v ssa.Value, depth int) bool {
	if depth > 6 {
		return false
	}
	// a conversion from a 64-bit (or word-sized) unsigned value to a signed
	// type may wrap to a negative number: only narrower sources stay >= 0
	if cv, ok := v.(*ssa.Convert); ok {
		switch cv.X.Type().Underlying().String() {
		case "uint8", "uint16", "uint32", "byte":
			return true
		case "uint", "uint64", "uintptr":
			return isUnsigned(v)
		}
		return arithNonNeg(m, cv.X, depth+1)
	}
	if c, ok := constInt(v); ok {
		return c >= 0
	}
	if lenDerivedNonNeg(m, v) {
		return true
	}
	if c, ok := v.(*ssa.Call); ok {
		switch m.P.calleeOf(c.Common()).Name {
		case "math/big.Int.BitLen", "crypto/rsa.PublicKey.Size":
			return true
		}
	}
	if isUnsigned(v) {
		return true
	}
	if bo, ok := v.(*ssa.BinOp); ok {
		switch bo.Op {
		case token.ADD, token.MUL, token.QUO, token.SHR, token.REM:
			return arithNonNeg(m, bo.X, depth+1) && arithNonNeg(m, bo.Y, depth+1)
		}
	}
	return false
}

var reviewedBounds = map[string]string{
	"fdo/internal/nistkdf.KDF":                         "buffers are sized from the requested bit length and the PRF size, both registry constants (C09.cipher-registry); the derived secret only fills them",
	"fdo/cbor/cdn.sortMap$1":                           "debug notation: indices is a permutation of 0..len(keys)-1 built in the enclosing function",
	"fdo/cbor.Encoder.encodeMap":                       "the key order is a permutation of 0..len(keys)-1 that the encoder builds itself (make(len), fill with the loop counter, sort.Slice only permutes), in this function or in a helper it calls",
	"fdo/cose.truncHash.Sum":                           "Truncate is the registered constant 8, below every hash size",
	"fdo/cose.aesCbcMac.Write":                         "AES-CBC-MAC is registered but used by no cipher suite (C09.cipher-registry lists only HMAC); pos is kept below the block size by construction",
	"fdo/cose.aesCbcMac.Sum":                           "AES-CBC-MAC is registered but used by no cipher suite; tag sizes are registered constants not above the block size",
	"fdo/serviceinfo.ChunkReader.ReadChunk":            "the buffer was grown to at least size-maxOverhead by the make immediately above",
	"fdo/serviceinfo.DevmodModulesChunk.UnmarshalCBOR": "range index over arr[2:] into a slice made with len(arr)-2 elements",
	"fdo/kex.dhSymmetricKey":                           "the KDF output has exactly sekSize+svkSize bytes (requested length), sizes from the registry",
	"fdo/kex.ecdhSymmetricKey":                         "the KDF output has exactly sekSize+svkSize bytes (requested length), sizes from the registry",
	"fdo/kex.oaepSymmetricKey":                         "the KDF output has exactly sekSize+svkSize bytes (requested length), sizes from the registry",
	"fdo/kex.ecdhParam.MarshalBinary":                  "encodes this side's own freshly generated uncompressed point (1+2n bytes)",
	"fdo/fsim.Upload.upload":                           "slices its own 1014-byte buffer by min(1014, remaining file size) and by the byte count Read returned for that slice (local file, not peer data)",
	"fdo/protocol.PublicKey.parseX5Chain":              "range index over certs into a slice made with len(certs) elements (the constant-index uses are discharged by the len(certs)==0 guard)",
}

// ---- G4: stdlib preconditions ----------------------------------------------------------

type stdPre struct {
	arg  int    // index into receiver-first operand list
	need string // leneq | lenmod | lenge:<n>
	doc  string
}

var stdPreconditions = map[string]stdPre{
	"crypto/cipher.NewCBCDecrypter":       {1, "leneq", "cipher.NewCBCDecrypter panics if len(iv) != block size"},
	"crypto/cipher.NewCBCEncrypter":       {1, "leneq", "cipher.NewCBCEncrypter panics if len(iv) != block size"},
	"crypto/cipher.NewCTR":                {1, "leneq", "cipher.NewCTR panics if len(iv) != block size"},
	"crypto/cipher.AEAD.Open":             {2, "leneq", "AEAD.Open panics on a nonce of the wrong length"},
	"crypto/cipher.AEAD.Seal":             {2, "leneq", "AEAD.Seal panics on a nonce of the wrong length"},
	"crypto/cipher.BlockMode.CryptBlocks": {2, "lenmod", "BlockMode.CryptBlocks panics if len(src) is not a multiple of the block size"},
	"encoding/binary.bigEndian.Uint16":    {1, "lenge:2", "binary.BigEndian.Uint16 panics if len(b) < 2"},
	"encoding/binary.bigEndian.Uint32":    {1, "lenge:4", "binary.BigEndian.Uint32 panics if len(b) < 4"},
	"encoding/binary.bigEndian.Uint64":    {1, "lenge:8", "binary.BigEndian.Uint64 panics if len(b) < 8"},
	"reflect.Value.SetMapIndex":           {1, "atom:key-comparable", "reflect.Value.SetMapIndex panics (hash of unhashable type) if the key's dynamic type is not comparable"},
	"math/big.Int.FillBytes":              {0, "fillbytes", "big.Int.FillBytes panics if the buffer is too small for the value"},
}

func (e *E3) g4(r *Result, prefix string, f *Flow) {
	p := e.p
	rule := prefix + ".stdlib-preconditions"
	r.rule(rule, "G4: calls of standard-library functions that panic on a malformed argument (IV / nonce length, whole blocks, minimum buffer length) with a peer-controlled argument are dominated by the matching length comparison, or the argument is a buffer of known size made in this function")
	for _, fn := range e.order {
		if !f.Region[fn] {
			continue
		}
		m := f.matcherFor(fn)
		for _, b := range fn.Blocks {
			for _, in := range b.Instrs {
				call, ok := in.(ssa.CallInstruction)
				if !ok {
					continue
				}
				pre, ok := stdPreconditions[p.calleeOf(call.Common()).Name]
				if !ok {
					continue
				}
				args := allArgs(call)
				if pre.arg >= len(args) {
					continue
				}
				a := args[pre.arg]
				st := f.StateAt(call)
				key := siteKey(p, call)
				if !e.t.Is(a) && !e.t.memTainted(a) {
					r.table(p, rule, key, p.instrPos(call), true, "argument is not peer-controlled ("+pre.doc+")")
					continue
				}
				ok2 := false
				switch {
				case pre.need == "leneq":
					_, fresh := a.(*ssa.MakeSlice)
					ok2 = st.Has("v:leneq:"+canon(a)) || fresh
				case pre.need == "lenmod":
					ok2 = st.Has("v:lenmod:"+canon(a)) || isPadResult(m, a)
				case strings.HasPrefix(pre.need, "lenge:"):
					n, _ := strconv.Atoi(strings.TrimPrefix(pre.need, "lenge:"))
					ok2 = st.Has(fmt.Sprintf("v:lenge:%s:%d", canon(a), n)) || knownLen(m, a) >= int64(n)
				case strings.HasPrefix(pre.need, "atom:"):
					ok2 = st.Has(Atom(strings.TrimPrefix(pre.need, "atom:")))
				case pre.need == "fillbytes":
					ok2 = len(args) >= 2 && fillBytesFits(m, args[0], args[1])
				}
				if reason, listed := reviewedStdPre[p.FuncName(fn)]; !ok2 && listed {
					r.table(p, rule, key, p.instrPos(call), true, "reviewed: "+reason)
					continue
				}
				r.table(p, rule, key, p.instrPos(call), ok2, pre.doc+"; needs "+pre.need+" for "+canon(a))
			}
		}
	}
}

// isPadResult: the value is the result of an in-module padding helper (its
// length is a whole number of blocks by construction).
func isPadResult(m *Matcher, v ssa.Value) bool {
	pv := m.Prov(v)
	return pv.Has("call:bytes.Repeat") || pv.HasPrefix("via:bytes.Repeat")
}

// ---- G5: unchecked type assertions ---------------------------------------------------------

func (e *E3) g5(r *Result, prefix string) {
	p := e.p
	rule := prefix + ".type-assertions"
	r.rule(rule, "G5: a non-comma-ok type assertion on a peer-controlled interface value is allowed only where the dynamic type is fixed by construction (public keys parsed by this library, reflect types); decoded `any` values must be asserted with the comma-ok form")
	for _, fn := range e.order {
		for _, b := range fn.Blocks {
			for _, in := range b.Instrs {
				ta, ok := in.(*ssa.TypeAssert)
				if !ok || ta.CommaOk {
					continue
				}
				if !e.t.Is(ta.X) {
					continue
				}
				m := p.matcher(fn)
				pv := m.Prov(ta.X)
				at := shortTypeString(ta.AssertedType)
				reason, ok2 := "", false
				switch {
				case strings.Contains(at, "Equal(crypto.PublicKey) bool") && (pv.Has("call:fdo/protocol.PublicKey.Public") || pv.HasPrefix("via:fdo/protocol.PublicKey.Public") || pv.HasPrefix("field:")):
					reason, ok2 = "a crypto.PublicKey produced by PublicKey.Public() is an *ecdsa.PublicKey or *rsa.PublicKey, both of which have Equal", true
				case at == "reflect.Type" || strings.HasPrefix(funcPkgPath(fn), modulePath+"/plugin"):
					reason, ok2 = "reflect type / local plugin protocol value, not a decoded peer value", true
				case strings.HasPrefix(funcPkgPath(fn), modulePath+"/cbor"):
					reason, ok2 = "codec-internal reflect value", true
				}
				k := 1
				construct := fmt.Sprintf("assertion to %s in %s", at, p.FuncName(fn))
				for r.hasConstruct(rule, fmt.Sprintf("%s #%d", construct, k)) {
					k++
				}
				if !ok2 {
					reason = "peer-controlled interface value asserted without the comma-ok form"
				}
				r.table(p, rule, fmt.Sprintf("%s #%d", construct, k), p.instrPos(in), ok2, reason)
			}
		}
	}
}

var reviewedStdPre = map[string]string{
	"fdo/cbor.toU64": "the buffer is 8-len(b) zero bytes followed by b, i.e. exactly 8 bytes; len(b) <= 8 is enforced just above",
}

// paramFromCipherSuite: every in-region static caller passes, for parameter pr
// of fn, a value read from a field of a kex.CipherSuite.
func (e *E3) paramFromCipherSuite(f *Flow, fn *ssa.Function, pr *ssa.Parameter) bool {
	pi := -1
	for i, q := range fn.Params {
		if q == pr {
			pi = i
		}
	}
	sites := 0
	for _, ed := range e.p.CallGraph().in[fn] {
		if !f.Region[ed.Caller] || ed.Kind != "static" {
			continue
		}
		call, ok := ed.Site.(ssa.CallInstruction)
		if !ok || pi >= len(call.Common().Args) {
			return false
		}
		sites++
		arg := call.Common().Args[pi]
		pv := f.matcherFor(ed.Caller).Prov(arg)
		if !pv.Has("field:fdo/kex.CipherSuite.EncryptAlg") && !pv.Has("field:fdo/kex.CipherSuite.MacAlg") {
			// handed on from the caller's own parameter: follow it (bounded)
			if p2, ok := stripConv(arg).(*ssa.Parameter); ok && ed.Caller != fn && e.cipherDepth < 3 {
				e.cipherDepth++
				ok2 := e.paramFromCipherSuite(f, ed.Caller, p2)
				e.cipherDepth--
				if ok2 {
					continue
				}
			}
			return false
		}
	}
	return sites > 0
}

func isUnsigned(v ssa.Value) bool {
	switch v.Type().Underlying().String() {
	case "uint", "uint8", "uint16", "uint32", "uint64", "uintptr", "byte":
		return true
	}
	return false
}

// nonNilValue: the pointer is the address of a variable / composite literal,
// or the result of a module function all of whose returns are such addresses.
func nonNilValue(p *Prog, v ssa.Value, depth int) bool {
	if depth > 3 {
		return false
	}
	switch x := v.(type) {
	case *ssa.Alloc, *ssa.FieldAddr, *ssa.IndexAddr:
		return true
	case *ssa.ChangeType:
		return nonNilValue(p, x.X, depth)
	case *ssa.Call:
		body := p.body(x.Common().StaticCallee())
		if body == nil || body.Signature.Results().Len() != 1 {
			return false
		}
		any := false
		for _, b := range body.Blocks {
			if ret, ok := b.Instrs[len(b.Instrs)-1].(*ssa.Return); ok && b != body.Recover {
				if !nonNilValue(p, ret.Results[0], depth+1) {
					return false
				}
				any = true
			}
		}
		return any
	}
	return false
}

// linear decomposes an integer expression into const + sum(coef * value).
func linear(v ssa.Value, depth int) (int64, map[ssa.Value]int64) {
	terms := map[ssa.Value]int64{}
	if depth > 6 {
		terms[v] = 1
		return 0, terms
	}
	v = intRootNoVar(v)
	if c, ok := constInt(v); ok {
		return c, terms
	}
	if bo, ok := v.(*ssa.BinOp); ok {
		switch bo.Op {
		case token.ADD, token.SUB:
			c1, t1 := linear(bo.X, depth+1)
			c2, t2 := linear(bo.Y, depth+1)
			sign := int64(1)
			if bo.Op == token.SUB {
				sign = -1
			}
			for k, x := range t2 {
				t1[k] += sign * x
			}
			return c1 + sign*c2, t1
		case token.MUL:
			if c, ok := constInt(intRootNoVar(bo.X)); ok {
				c2, t2 := linear(bo.Y, depth+1)
				for k := range t2 {
					t2[k] *= c
				}
				return c * c2, t2
			}
			if c, ok := constInt(intRootNoVar(bo.Y)); ok {
				c1, t1 := linear(bo.X, depth+1)
				for k := range t1 {
					t1[k] *= c
				}
				return c * c1, t1
			}
		}
	}
	terms[v] = 1
	return 0, terms
}

// fillBytesFits: the buffer handed to big.Int.FillBytes is large enough for the
// receiver by construction. Recognised shapes:
//
//	new(big.Int).SetBytes(src).FillBytes(x[lo:hi])  with hi-lo == len(src) or == max(..., len(src), ...)
//	z.Exp(_, _, m) / z.Mod(_, m) ... FillBytes(make([]byte, len(m.Bytes())))   (z < m)
func fillBytesFits(m *Matcher, recv, buf ssa.Value) bool {
	// a captured local: use the single value stored into it
	if u, ok := recv.(*ssa.UnOp); ok && u.Op == token.MUL {
		if al, ok := u.X.(*ssa.Alloc); ok {
			var stored ssa.Value
			n := 0
			for _, ref := range *al.Referrers() {
				if st, ok := ref.(*ssa.Store); ok && st.Addr == al {
					stored = st.Val
					n++
				}
			}
			if n == 1 {
				recv = stored
			}
		}
	}
	if u, ok := buf.(*ssa.UnOp); ok && u.Op == token.MUL {
		if al, ok := u.X.(*ssa.Alloc); ok {
			var stored ssa.Value
			n := 0
			for _, ref := range *al.Referrers() {
				if st, ok := ref.(*ssa.Store); ok && st.Addr == al {
					stored = st.Val
					n++
				}
			}
			if n == 1 {
				buf = stored
			}
		}
	}
	rc, ok := recv.(*ssa.Call)
	if !ok {
		return false
	}
	switch m.P.calleeOf(rc.Common()).Name {
	case "math/big.Int.SetBytes":
		src := rc.Common().Args[1]
		sl, ok := buf.(*ssa.Slice)
		if !ok || sl.High == nil {
			return false
		}
		hc, ht := linear(sl.High, 0)
		lc, lt := int64(0), map[ssa.Value]int64{}
		if sl.Low != nil {
			lc, lt = linear(sl.Low, 0)
		}
		for k, x := range lt {
			ht[k] -= x
		}
		if hc-lc != 0 {
			return false
		}
		var L ssa.Value
		for k, x := range ht {
			if x == 0 {
				continue
			}
			if x != 1 || L != nil {
				return false
			}
			L = k
		}
		if L == nil {
			return false
		}
		isLenOfSrc := func(v ssa.Value) bool {
			l := lenOf(m, intRootNoVar(v))
			return l != nil && canon(l) == canon(src)
		}
		if isLenOfSrc(L) {
			return true
		}
		if c, ok := L.(*ssa.Call); ok {
			if bi, ok := c.Common().Value.(*ssa.Builtin); ok && bi.Name() == "max" {
				for _, a := range c.Common().Args {
					if isLenOfSrc(a) {
						return true
					}
				}
			}
		}
		return false
	case "math/big.Int.Exp", "math/big.Int.Mod":
		args := rc.Common().Args
		mod := args[len(args)-1]
		mk, ok := buf.(*ssa.MakeSlice)
		if !ok {
			return false
		}
		l := lenOf(m, intRootNoVar(mk.Len))
		if l == nil {
			return false
		}
		bc, ok := l.(*ssa.Call)
		return ok && m.P.calleeOf(bc.Common()).Name == "math/big.Int.Bytes" && canon(bc.Common().Args[0]) == canon(mod)
	}
	return false
}

// madeLen: base (at instruction at) is a slice made in this function — directly,
// or stored once into the location it is loaded from by a store that dominates
// the use — and returns the MakeSlice length operand.
func madeLen(fn *ssa.Function, at ssa.Instruction, base ssa.Value) ssa.Value {
	if mk, ok := base.(*ssa.MakeSlice); ok {
		return mk.Len
	}
	u, ok := base.(*ssa.UnOp)
	if !ok || u.Op != token.MUL {
		return nil
	}
	loc := canonAddr(u.X)
	var only *ssa.Store
	n := 0
	for _, b := range fn.Blocks {
		for _, in := range b.Instrs {
			if st, ok := in.(*ssa.Store); ok && canonAddr(st.Addr) == loc {
				only = st
				n++
			}
		}
	}
	if n != 1 {
		return nil
	}
	mk, ok := only.Val.(*ssa.MakeSlice)
	if !ok {
		return nil
	}
	if only.Block() == at.Block() {
		for _, in := range at.Block().Instrs {
			if in == ssa.Instruction(only) {
				return mk.Len
			}
			if in == at {
				return nil
			}
		}
	}
	if only.Block().Dominates(at.Block()) {
		return mk.Len
	}
	return nil
}

// linearLE: a <= b holds for all non-negative values of the length-derived
// terms (a == nil stands for 0): b - a has a non-negative constant and only
// non-negative coefficients on terms that are themselves non-negative.
func linearLE(m *Matcher, a, b ssa.Value) bool {
	bc, bt := linear(b, 0)
	if a != nil {
		ac, at := linear(a, 0)
		bc -= ac
		for k, x := range at {
			bt[k] -= x
		}
	}
	if bc < 0 {
		return false
	}
	for k, x := range bt {
		if x == 0 {
			continue
		}
		if x < 0 || !nonNegTerm(m, k, 0) {
			return false
		}
	}
	return true
}

func nonNegTerm(m *Matcher, v ssa.Value, depth int) bool {
	if depth > 3 {
		return false
	}
	v = intRootNoVar(v)
	if lenDerivedNonNeg(m, v) {
		return true
	}
	if c, ok := v.(*ssa.Call); ok {
		if bi, ok := c.Common().Value.(*ssa.Builtin); ok && bi.Name() == "max" {
			for _, a := range c.Common().Args {
				if nonNegTerm(m, a, depth+1) {
					return true
				}
			}
		}
	}
	return false
}

// reviewedPanicByMessage finds the reviewed entry for a panic message within a
// package when exactly one entry of that package carries the message.
func reviewedPanicByMessage(pkgPath, msg string) (string, bool) {
	if msg == "" || msg == "unreachable" || msg == "unimplemented" {
		return "", false
	}
	short := pkgShort(pkgPath)
	found, reason := 0, ""
	for k, v := range reviewedPanics {
		i := strings.Index(k, "|")
		if i < 0 || k[i+1:] != msg {
			continue
		}
		fnName := k[:i]
		j := strings.LastIndex(fnName, ".")
		pk := fnName
		if j > 0 {
			pk = fnName[:j]
		}
		// methods: pkg.Type.Method -> strip once more if the package does not match
		if pk != short {
			if j2 := strings.LastIndex(pk, "."); j2 > 0 && pk[:j2] == short {
				pk = pk[:j2]
			}
		}
		if pk == short {
			found++
			reason = v
		}
	}
	return reason, found == 1
}

// sizeBoundedAtCallers: size is a parameter of fn, and at every in-region static
// call site the argument is bounded by one of G2's own criteria (len-derived,
// dominated by an upper bound and non-negative, at most 16 bits wide, or the
// result of a function that bounds it) — a bound check left in the caller when
// the allocation was moved into a helper.
func (e *E3) sizeBoundedAtCallers(f *Flow, fn *ssa.Function, size ssa.Value, depth int) string {
	prm, ok := intRootNoVar(size).(*ssa.Parameter)
	if !ok || depth > 2 {
		return ""
	}
	idx := -1
	for i, q := range fn.Params {
		if q == prm {
			idx = i
		}
	}
	if idx < 0 {
		return ""
	}
	sites := 0
	for _, ed := range e.p.CallGraph().in[fn] {
		call, ok := ed.Site.(ssa.CallInstruction)
		if !ok || ed.Kind != "static" || !f.Region[ed.Caller] {
			if f.Region[ed.Caller] && ed.Kind != "static" {
				return ""
			}
			continue
		}
		args := allArgs(call)
		if idx >= len(args) {
			return ""
		}
		a := args[idx]
		m := f.matcherFor(ed.Caller)
		st := f.StateAt(call)
		okArg := false
		switch {
		case !e.t.Is(a), lenDerived(m, a, 0), narrowBounded(m, a, 0):
			okArg = true
		case st.Has("v:ub:" + canon(a)):
			okArg = isUnsigned(a) || st.Has("v:lb0:"+canon(a)) || arithNonNeg(m, a, 0)
		default:
			if ok2, _ := e.boundedResult(f, m, a); ok2 {
				okArg = true
			} else if e.sizeBoundedAtCallers(f, ed.Caller, a, depth+1) != "" {
				okArg = true
			}
		}
		if !okArg {
			return ""
		}
		sites++
	}
	if sites == 0 {
		return ""
	}
	return fmt.Sprintf("size is a parameter that is bounded at all %d call site(s) of %s", sites, e.p.FuncName(fn))
}

// paramAlwaysConst: every static call site passes a constant for prm (and there
// is at least one, and no other kind of caller).
func paramAlwaysConst(p *Prog, fn *ssa.Function, prm *ssa.Parameter) bool {
	idx := -1
	for i, q := range fn.Params {
		if q == prm {
			idx = i
		}
	}
	if idx < 0 {
		return false
	}
	n := 0
	for _, ed := range p.CallGraph().in[fn] {
		call, ok := ed.Site.(ssa.CallInstruction)
		if !ok || ed.Kind != "static" {
			return false
		}
		args := allArgs(call)
		if idx >= len(args) {
			return false
		}
		if _, isC := intRootNoVar(args[idx]).(*ssa.Const); !isC {
			return false
		}
		n++
	}
	return n > 0
}

// minLen: a lower bound of len(v) that holds by construction: slices of array
// literals, constant strings, append chains (append never shortens), the
// binary.Append* helpers, merges, and results of in-module functions all of
// whose returns have such a bound. -1 if unknown.
func minLen(p *Prog, v ssa.Value, depth int) int64 {
	if depth > 6 {
		return -1
	}
	switch x := v.(type) {
	case *ssa.Slice:
		if al, ok := x.X.(*ssa.Alloc); ok && x.Low == nil && x.High == nil {
			if arr, isArr := deref(al.Type()).Underlying().(*types.Array); isArr {
				return arr.Len()
			}
		}
	case *ssa.MakeSlice:
		if c, ok := constInt(x.Len); ok {
			return c
		}
	case *ssa.Convert:
		if c, ok := x.X.(*ssa.Const); ok && c.Value != nil && c.Value.Kind() == constant.String {
			return int64(len(constant.StringVal(c.Value)))
		}
		return minLen(p, x.X, depth+1)
	case *ssa.Phi:
		best := int64(-1)
		for i, e := range x.Edges {
			k := minLen(p, e, depth+1)
			if i == 0 || k < best {
				best = k
			}
		}
		return best
	case *ssa.Call:
		name := p.calleeOf(x.Common()).Name
		switch name {
		case "builtin.append":
			if k := minLen(p, x.Call.Args[0], depth+1); k >= 0 {
				return k
			}
			return 0
		case "encoding/binary.bigEndian.AppendUint16", "encoding/binary.bigEndian.AppendUint32", "encoding/binary.bigEndian.AppendUint64":
			args := allArgs(x)
			if k := minLen(p, args[len(args)-2], depth+1); k >= 0 {
				return k
			}
			return 0
		}
		if g := p.body(x.Call.StaticCallee()); g != nil && g.Signature.Results().Len() == 1 {
			best, n := int64(-1), 0
			for _, b := range g.Blocks {
				if ret, ok := b.Instrs[len(b.Instrs)-1].(*ssa.Return); ok && len(ret.Results) == 1 {
					k := minLen(p, ret.Results[0], depth+1)
					if n == 0 || k < best {
						best = k
					}
					n++
				}
			}
			return best
		}
	}
	return -1
}
