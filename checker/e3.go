package main

import "golang.org/x/tools/go/ssa"

// placeholder until E3 is implemented
func panicObligations(c *Ctx, p *Prog, r *Result, prefix string, roots []*ssa.Function, skip func(*ssa.Function) bool) {
}
