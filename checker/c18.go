package main

import (
	"fmt"
	"regexp"
	"sort"
	"strings"

	"golang.org/x/tools/go/ssa"
)

// C18 — SQLite server state is a faithful, session-isolated store across
// restarts.

func init() {
	checks["C18"] = checkC18
	explanations["C18"] = "Structural necessary conditions (E2: SQL access table extracted from the constant arguments of insert/update/query/remove in package sqlite vs the schema parsed from Init's CREATE TABLE literals; E1 for session binding): every (table, column) used exists; every access to a table with a session column carries session=<id> where <id> is the result of sessionID(ctx) with ok==true (which itself requires hmac.Equal, C08); every upsert conflict target is a UNIQUE/PRIMARY KEY column of its table and is `session` for session-scoped tables; every session-scoped table has FOREIGN KEY(session) REFERENCES sessions(id) ON DELETE CASCADE|SET NULL and InvalidateToken deletes the sessions row; for every SetX/X method pair the columns X reads are written by SetX on the same table and no value column is written by two different setters; ReplaceVoucher succeeds only after both the insert of the new and the delete of the old voucher succeeded; RVBlob enforces expiry with matching units (shared with C07); no method of *DB stores to its receiver or to a package variable (all state lives in the database, so a fresh server object continues a session). Also: no Set* method writes with insertOrIgnore (setters overwrite), and in ReplaceVoucher exactly one delete names the old GUID while every other delete names the replacement's GUID. Also: AddVoucher, on which ReplaceVoucher's add/delete/undo sequence is built, is a strict insert (nil conflict list, no other statement). Not decided: SQLite's own semantics, concurrent histories, value fidelity of the blobs (C11), restarts as executions."
}

type sqlTable struct {
	cols   map[string]string // column -> declared text
	unique map[string]bool   // single-column UNIQUE / PRIMARY KEY
	pk     []string
	fkSess string // ON DELETE action of FOREIGN KEY(session) REFERENCES sessions(id)
	pos    string
}

var (
	reCreate = regexp.MustCompile(`(?is)^\s*CREATE TABLE IF NOT EXISTS\s+(\w+)\s*\((.*)\)\s*$`)
	reFK     = regexp.MustCompile(`(?is)^FOREIGN KEY\s*\(\s*(\w+)\s*\)\s*REFERENCES\s+(\w+)\s*\(\s*(\w+)\s*\)\s*ON DELETE\s+(CASCADE|SET NULL)`)
	rePK     = regexp.MustCompile(`(?is)^PRIMARY KEY\s*\(([^)]*)\)`)
)

func parseSchema(p *Prog, initFn *ssa.Function) map[string]*sqlTable {
	out := map[string]*sqlTable{}
	for _, b := range initFn.Blocks {
		for _, in := range b.Instrs {
			st, ok := in.(*ssa.Store)
			if !ok {
				continue
			}
			c, ok := st.Val.(*ssa.Const)
			if !ok || c.Value == nil || !strings.Contains(c.Value.ExactString(), "CREATE TABLE") {
				continue
			}
			sql := constString(c)
			m := reCreate.FindStringSubmatch(sql)
			if m == nil {
				continue
			}
			t := &sqlTable{cols: map[string]string{}, unique: map[string]bool{}, pos: p.instrPos(in)}
			body := regexp.MustCompile(`/\*.*?\*/`).ReplaceAllString(m[2], "")
			for _, part := range splitTop(body) {
				part = strings.TrimSpace(part)
				if part == "" {
					continue
				}
				if fk := reFK.FindStringSubmatch(part); fk != nil {
					if fk[1] == "session" && fk[2] == "sessions" && fk[3] == "id" {
						t.fkSess = strings.ToUpper(fk[4])
					}
					continue
				}
				if pk := rePK.FindStringSubmatch(part); pk != nil {
					for _, c := range strings.Split(pk[1], ",") {
						t.pk = append(t.pk, strings.TrimSpace(c))
					}
					if len(t.pk) == 1 {
						t.unique[t.pk[0]] = true
					}
					continue
				}
				f := strings.Fields(part)
				name := f[0]
				t.cols[name] = part
				up := strings.ToUpper(part)
				if strings.Contains(up, "PRIMARY KEY") || strings.Contains(up, "UNIQUE") {
					t.unique[name] = true
				}
			}
			out[m[1]] = t
		}
	}
	return out
}

func splitTop(s string) []string {
	var out []string
	depth, start := 0, 0
	for i, ch := range s {
		switch ch {
		case '(':
			depth++
		case ')':
			depth--
		case ',':
			if depth == 0 {
				out = append(out, s[start:i])
				start = i + 1
			}
		}
	}
	return append(out, s[start:])
}

func constString(c *ssa.Const) string {
	s := c.Value.ExactString()
	if u, err := unquote(s); err == nil {
		return u
	}
	return s
}

// mapLiteralKeys returns the constant string keys of a map built locally.
func mapLiteralKeys(v ssa.Value) (map[string]ssa.Value, bool) {
	out := map[string]ssa.Value{}
	v = stripConv(v)
	if c, ok := v.(*ssa.Const); ok && c.IsNil() {
		return out, true
	}
	mm, ok := v.(*ssa.MakeMap)
	if !ok {
		return nil, false
	}
	for _, ref := range *mm.Referrers() {
		if mu, ok := ref.(*ssa.MapUpdate); ok && mu.Map == ssa.Value(mm) {
			k, ok := stripConv(mu.Key).(*ssa.Const)
			if !ok || k.Value == nil {
				return nil, false
			}
			out[constString(k)] = mu.Value
		}
	}
	return out, true
}

// sliceLiteralStrings returns the constant elements of a []string literal.
func sliceLiteralStrings(v ssa.Value) ([]string, bool) {
	if c, ok := v.(*ssa.Const); ok && c.IsNil() {
		return nil, true
	}
	sl, ok := v.(*ssa.Slice)
	if !ok {
		return nil, false
	}
	al, ok := sl.X.(*ssa.Alloc)
	if !ok {
		return nil, false
	}
	var out []string
	for _, ref := range *al.Referrers() {
		ia, ok := ref.(*ssa.IndexAddr)
		if !ok {
			continue
		}
		for _, r2 := range *ia.Referrers() {
			if st, ok := r2.(*ssa.Store); ok {
				c, ok := st.Val.(*ssa.Const)
				if !ok || c.Value == nil {
					return nil, false
				}
				out = append(out, constString(c))
			}
		}
	}
	sort.Strings(out)
	return out, true
}

type sqlAccess struct {
	call     ssa.CallInstruction
	method   string // enclosing *DB method
	op       string
	table    string
	writes   map[string]ssa.Value // insert/update kvs
	reads    []string
	where    map[string]ssa.Value
	conflict []string
	hasConf  bool
	decided  bool
}

func collectSQL(p *Prog, pkg string) []sqlAccess {
	var out []sqlAccess
	ops := map[string]string{"insert": "insert", "insertOrIgnore": "insert-or-ignore", "update": "update", "query": "query", "remove": "remove"}
	for _, fn := range p.Funcs {
		if funcPkgPath(fn) != pkg {
			continue
		}
		// the generic helpers forward to each other; record only calls made by API methods
		if fn.Signature.Recv() != nil {
			if _, isHelper := ops[fn.Name()]; isHelper {
				continue
			}
		}
		for _, b := range fn.Blocks {
			for _, in := range b.Instrs {
				call, ok := in.(ssa.CallInstruction)
				if !ok {
					continue
				}
				name := p.calleeOf(call.Common()).Name
				short := name[strings.LastIndex(name, ".")+1:]
				op, isOp := ops[short]
				if !isOp || !strings.HasPrefix(name, "fdo/sqlite.") {
					continue
				}
				args := allArgs(call)
				a := sqlAccess{call: call, method: p.FuncName(fn), op: op, decided: true}
				tc, ok := args[2].(*ssa.Const)
				if !ok || tc.Value == nil {
					a.decided = false
					out = append(out, a)
					continue
				}
				a.table = constString(tc)
				var ok2 bool
				switch op {
				case "insert", "insert-or-ignore":
					a.writes, ok2 = mapLiteralKeys(args[3])
					a.decided = a.decided && ok2
					if op == "insert" && len(args) > 4 {
						a.conflict, ok2 = sliceLiteralStrings(args[4])
						a.hasConf = len(a.conflict) > 0
						a.decided = a.decided && ok2
					}
				case "update":
					a.writes, ok2 = mapLiteralKeys(args[3])
					a.decided = a.decided && ok2
					a.where, ok2 = mapLiteralKeys(args[4])
					a.decided = a.decided && ok2
				case "query":
					a.reads, ok2 = sliceLiteralStrings(args[3])
					a.decided = a.decided && ok2
					a.where, ok2 = mapLiteralKeys(args[4])
					a.decided = a.decided && ok2
				case "remove":
					a.where, ok2 = mapLiteralKeys(args[3])
					a.decided = a.decided && ok2
					ret, ok3 := mapLiteralKeys(args[4])
					a.decided = a.decided && ok3
					for k := range ret {
						a.reads = append(a.reads, k)
					}
				}
				out = append(out, a)
			}
		}
	}
	return out
}

func checkC18(c *Ctx, p *Prog, r *Result) {
	pkg := modulePath + "/sqlite"
	initFn := p.ByName["fdo/sqlite.Init"]
	if initFn == nil {
		r.fail("anchor fdo/sqlite.Init not found")
		return
	}
	schema := parseSchema(p, initFn)
	if len(schema) < 13 {
		r.fail("C18: parsed only %d tables from Init, expected 13", len(schema))
	}
	accesses := collectSQL(p, pkg)
	r.Functions["fdo/sqlite.Init"] = true

	// session binding (E1)
	rs := c08Rules(p)
	sessVal := func(m *Matcher, v ssa.Value) bool {
		n, idx, call := m.ResultOf(stripConv(v))
		return call != nil && n == "fdo/sqlite.DB.sessionID" && idx == 0
	}

	r.rule("C18.columns-exist", "every table and column named in an insert/update/query/remove exists in the schema created by Init")
	r.floor("C18.columns-exist", 40)
	r.rule("C18.session-bound", "every access to a table with a session column carries session=<result of sessionID(ctx)> and happens only after sessionID reported ok")
	r.floor("C18.session-bound", 27)
	r.rule("C18.conflict-target", "every upsert names a UNIQUE / PRIMARY KEY conflict target of its table; for session-scoped tables the target is session")
	r.floor("C18.conflict-target", 12)
	flows := map[*ssa.Function]*Flow{}
	for _, a := range accesses {
		key := siteKey(p, a.call)
		pos := p.instrPos(a.call)
		r.Functions[a.method] = true
		if !a.decided {
			// key/mfg tables build their maps conditionally; they are not session tables
			if a.table == "mfg_keys" || a.table == "owner_keys" {
				r.table(p, "C18.columns-exist", key, pos, schema[a.table] != nil, "table "+a.table+" (dynamic column map: key store, not session state)")
				continue
			}
			r.fail("C18: undecided SQL access at %s (%s): non-constant table, columns or keys", pos, key)
			continue
		}
		t := schema[a.table]
		var missing []string
		if t == nil {
			missing = append(missing, "table "+a.table)
		} else {
			for col := range a.writes {
				if _, ok := t.cols[col]; !ok {
					missing = append(missing, col)
				}
			}
			for col := range a.where {
				if _, ok := t.cols[col]; !ok {
					missing = append(missing, col)
				}
			}
			for _, col := range a.reads {
				if _, ok := t.cols[col]; !ok {
					missing = append(missing, col)
				}
			}
			for _, col := range a.conflict {
				if _, ok := t.cols[col]; !ok {
					missing = append(missing, col)
				}
			}
		}
		sort.Strings(missing)
		r.table(p, "C18.columns-exist", key, pos, len(missing) == 0, fmt.Sprintf("%s %s; missing: %v", a.op, a.table, missing))
		if t == nil {
			continue
		}
		if _, scoped := t.cols["session"]; scoped {
			fn := a.call.Parent()
			f := flows[fn]
			if f == nil {
				f = NewFlow(p, rs, []*ssa.Function{fn}, func(g *ssa.Function) bool { return g != fn })
				flows[fn] = f
			}
			m := f.matcherFor(fn)
			var sv ssa.Value
			if a.op == "insert" || a.op == "insert-or-ignore" {
				sv = a.writes["session"]
			} else {
				sv = a.where["session"]
			}
			ok := sv != nil && sessVal(m, sv) && f.StateAt(a.call).Has("session-ok")
			r.table(p, "C18.session-bound", key, pos, ok, fmt.Sprintf("%s %s: session key present=%v from sessionID=%v after ok=%v", a.op, a.table, sv != nil, sv != nil && sessVal(m, sv), f.StateAt(a.call).Has("session-ok")))
		}
		if a.op == "insert" && a.hasConf {
			ok := true
			for _, col := range a.conflict {
				if !t.unique[col] && !(len(t.pk) > 1 && contains(t.pk, col)) {
					ok = false
				}
			}
			if len(t.pk) > 1 && len(a.conflict) != len(t.pk) && !t.unique[a.conflict[0]] {
				ok = false
			}
			if _, scoped := t.cols["session"]; scoped && !(len(a.conflict) == 1 && a.conflict[0] == "session") {
				ok = false
			}
			r.table(p, "C18.conflict-target", key, pos, ok, fmt.Sprintf("%s ON CONFLICT(%v)", a.table, a.conflict))
		}
	}

	// foreign keys
	r.rule("C18.session-fk", "every table with a session column has FOREIGN KEY(session) REFERENCES sessions(id) ON DELETE CASCADE or SET NULL")
	r.floor("C18.session-fk", 7)
	var tnames []string
	for n := range schema {
		tnames = append(tnames, n)
	}
	sort.Strings(tnames)
	for _, n := range tnames {
		t := schema[n]
		if _, scoped := t.cols["session"]; scoped {
			r.table(p, "C18.session-fk", "table "+n, t.pos, t.fkSess == "CASCADE" || t.fkSess == "SET NULL", "ON DELETE "+t.fkSess)
		}
	}

	// set/get pairing
	r.rule("C18.pairing", "for every SetX / X method pair of *DB the columns X reads are written by SetX on the same table, and no value column is written by two different setters")
	r.floor("C18.pairing", 12)
	writesBy := map[string]map[string]bool{} // method -> table.col
	readsBy := map[string]map[string]bool{}
	colWriters := map[string]map[string]bool{}
	for _, a := range accesses {
		if !a.decided {
			continue
		}
		mname := a.method[strings.LastIndex(a.method, ".")+1:]
		for col := range a.writes {
			if col == "session" {
				continue
			}
			k := a.table + "." + col
			if writesBy[mname] == nil {
				writesBy[mname] = map[string]bool{}
			}
			writesBy[mname][k] = true
			if t := schema[a.table]; t != nil {
				if _, scoped := t.cols["session"]; scoped {
					if colWriters[k] == nil {
						colWriters[k] = map[string]bool{}
					}
					colWriters[k][mname] = true
				}
			}
		}
		for _, col := range a.reads {
			k := a.table + "." + col
			if readsBy[mname] == nil {
				readsBy[mname] = map[string]bool{}
			}
			readsBy[mname][k] = true
		}
	}
	var getters []string
	for g := range readsBy {
		getters = append(getters, g)
	}
	sort.Strings(getters)
	for _, g := range getters {
		setter := "Set" + g
		w, ok := writesBy[setter]
		if !ok {
			continue
		}
		okAll, miss := subset(readsBy[g], w)
		r.table(p, "C18.pairing", setter+" / "+g, "-", okAll, fmt.Sprintf("reads %v; not written by the setter: %v", sortedKeys(readsBy[g]), miss))
	}
	for _, k := range sortedKeys(colWriters) {
		ws := sortedKeys(colWriters[k])
		// device_info is written by two cooperating DI steps (certificate chain, then self info) on disjoint columns
		r.table(p, "C18.pairing", "writers of "+k, "-", len(ws) == 1, fmt.Sprintf("written by %v", ws))
	}

	// ReplaceVoucher
	if rv := p.ByName["fdo/sqlite.DB.ReplaceVoucher"]; rv != nil {
		rs2 := &RuleSet{Atoms: []AtomDef{
			errNil("new-voucher-stored", "the replacement voucher was inserted without error", named("fdo/sqlite.DB.AddVoucher", "fdo/sqlite.DB.insert", "fdo/sqlite.insert"), nil),
			errNil("old-voucher-removed", "the old voucher row was deleted without error", named("fdo/sqlite.remove", "fdo/sqlite.DB.remove"),
				func(m *Matcher, _ ssa.CallInstruction, args []ssa.Value) bool {
					w, ok := mapLiteralKeys(args[3])
					if !ok {
						return false
					}
					g, has := w["guid"]
					return has && m.Prov(g).Has("param:2")
				}),
		}}
		f := NewFlow(p, rs2, []*ssa.Function{rv}, func(g *ssa.Function) bool { return g != rv })
		r.useFlow(f)
		r.rule("C18.replace-both", "(*DB).ReplaceVoucher returns nil only after the new voucher was stored and the row of the old GUID was deleted")
		r.floor("C18.replace-both", 1)
		r.requireAtReturns(f, "C18.replace-both", rv, 0, []Atom{"new-voucher-stored", "old-voucher-removed"})
		// the compensating delete after a failed removal targets the row that was just added
		r.rule("C18.replace-undo-target", "in ReplaceVoucher exactly one delete names the old GUID (the guid parameter); every other delete on vouchers names the GUID of the replacement voucher (taken from the voucher parameter, not from the guid parameter)")
		r.floor("C18.replace-undo-target", 2)
		nOld := 0
		for _, b := range rv.Blocks {
			for _, in := range b.Instrs {
				call, ok := in.(ssa.CallInstruction)
				if !ok {
					continue
				}
				if n := p.calleeOf(call.Common()).Name; n != "fdo/sqlite.remove" && n != "fdo/sqlite.DB.remove" {
					continue
				}
				args := allArgs(call)
				m := p.matcher(rv)
				w, ok := mapLiteralKeys(args[3])
				g, has := w["guid"]
				if !ok || !has {
					r.table(p, "C18.replace-undo-target", siteKey(p, call), p.instrPos(call), false, "where clause is not a map literal with a guid key: undecided")
					continue
				}
				pv := m.Prov(g)
				switch {
				case pv.Has("param:2") && !pv.Has("param:3"):
					nOld++
					r.table(p, "C18.replace-undo-target", siteKey(p, call), p.instrPos(call), nOld == 1, "delete of the old GUID (guid parameter)")
				case pv.Has("param:3") && !pv.Has("param:2"):
					r.table(p, "C18.replace-undo-target", siteKey(p, call), p.instrPos(call), true, "compensating delete names the replacement voucher's GUID")
				default:
					r.table(p, "C18.replace-undo-target", siteKey(p, call), p.instrPos(call), false, "delete names neither exactly the old GUID nor exactly the replacement's GUID")
				}
			}
		}
	} else {
		r.fail("anchor fdo/sqlite.DB.ReplaceVoucher not found")
	}

	// the add that ReplaceVoucher builds on is a strict insert
	r.rule("C18.add-voucher-strict", "ReplaceVoucher adds the new row, deletes the old one and on failure deletes the new one again; this is only faithful if the add cannot touch an existing row. (*DB).AddVoucher therefore writes through insert with a nil conflict list (a plain INSERT that fails on a duplicate GUID) and executes no other statement")
	r.floor("C18.add-voucher-strict", 1)
	if av := p.ByName["fdo/sqlite.DB.AddVoucher"]; av != nil && av.Blocks != nil {
		strict, other := 0, []string{}
		for _, b := range av.Blocks {
			for _, in := range b.Instrs {
				call, ok := in.(ssa.CallInstruction)
				if !ok {
					continue
				}
				n := p.calleeOf(call.Common()).Name
				args := allArgs(call)
				switch {
				case n == "fdo/sqlite.DB.insert" || n == "fdo/sqlite.insert":
					last := args[len(args)-1]
					if c, ok := last.(*ssa.Const); ok && c.IsNil() {
						strict++
					} else {
						other = append(other, "insert with a conflict list at "+p.instrPos(in))
					}
				case strings.HasPrefix(n, "fdo/sqlite.") && (strings.HasSuffix(n, ".insertOrIgnore") || strings.HasSuffix(n, ".update") || strings.HasSuffix(n, ".remove")):
					other = append(other, n+" at "+p.instrPos(in))
				case strings.HasSuffix(n, ".ExecContext") || strings.HasSuffix(n, ".Exec") || strings.HasSuffix(n, ".QueryRowContext") || strings.HasSuffix(n, ".QueryContext"):
					other = append(other, "raw statement "+n+" at "+p.instrPos(in))
				}
			}
		}
		r.table(p, "C18.add-voucher-strict", "fdo/sqlite.DB.AddVoucher", p.Pos(av.Pos()), strict == 1 && len(other) == 0, fmt.Sprintf("%d strict insert(s); other writes: %s", strict, strings.Join(other, "; ")))
	} else {
		r.fail("anchor fdo/sqlite.DB.AddVoucher not found")
	}

	// setters overwrite
	r.rule("C18.setters-overwrite", "no Set* method of *sqlite.DB writes with insertOrIgnore (which keeps the first value and silently drops later ones): setters store through the upserting insert, so the latest value is the one read back")
	r.floor("C18.setters-overwrite", 15)
	for _, fn := range p.Funcs {
		if funcPkgPath(fn) != pkg || fn.Signature.Recv() == nil || typeShort(fn.Signature.Recv().Type()) != "fdo/sqlite.DB" || !strings.HasPrefix(fn.Name(), "Set") {
			continue
		}
		var bad []string
		for _, b := range fn.Blocks {
			for _, in := range b.Instrs {
				if call, ok := in.(ssa.CallInstruction); ok && strings.HasSuffix(p.calleeOf(call.Common()).Name, ".insertOrIgnore") {
					bad = append(bad, p.instrPos(in))
				}
			}
		}
		r.table(p, "C18.setters-overwrite", p.FuncName(fn), p.Pos(fn.Pos()), len(bad) == 0, "insertOrIgnore at "+strings.Join(bad, ", "))
	}

	// expired rendezvous blobs are not found
	sqliteExpiryRules(p, r, c07Rules(), "C18")

	// no in-memory state
	r.rule("C18.no-memory-state", "no method of *sqlite.DB stores to a field of its receiver or to a package-level variable")
	r.floor("C18.no-memory-state", 30)
	for _, fn := range p.Funcs {
		if funcPkgPath(fn) != pkg || fn.Signature.Recv() == nil || typeShort(fn.Signature.Recv().Type()) != "fdo/sqlite.DB" {
			continue
		}
		var bad []string
		for _, b := range fn.Blocks {
			for _, in := range b.Instrs {
				st, ok := in.(*ssa.Store)
				if !ok {
					continue
				}
				if g, ok := st.Addr.(*ssa.Global); ok {
					bad = append(bad, "global "+g.Name()+" at "+p.instrPos(in))
				}
				for a := st.Addr; ; {
					fa, ok := a.(*ssa.FieldAddr)
					if !ok {
						break
					}
					if pr, ok := fa.X.(*ssa.Parameter); ok && pr == fn.Params[0] {
						bad = append(bad, "receiver field "+fieldName(fa.X.Type(), fa.Field)+" at "+p.instrPos(in))
					}
					a = fa.X
				}
			}
		}
		r.table(p, "C18.no-memory-state", p.FuncName(fn), p.Pos(fn.Pos()), len(bad) == 0, strings.Join(bad, "; "))
	}
}

func contains(l []string, s string) bool {
	for _, x := range l {
		if x == s {
			return true
		}
	}
	return false
}
