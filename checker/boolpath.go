package main

import (
	"fmt"
	"go/token"
	"go/types"
	"strings"

	"golang.org/x/tools/go/ssa"
)

// Path-sensitive evaluation of boolean SSA values (no code is executed).
//
// Every acyclic CFG path from a function's entry to a target block is
// enumerated; each branch taken constrains the boolean "atoms" its condition is
// built from (an atom is any bool SSA value that is not a constant, a negation,
// a bool ==/!=, a φ outside a loop header or a call of a pure in-module bool
// helper). A path whose constraints contradict each other is infeasible. At
// the target the question "can value M be true while value D is true?" is
// answered over the atoms' assignments: the answer "no" is sound because atoms
// are treated as independent (every correlation that is not syntactically
// visible is assumed possible); the answer "yes" may be a false alarm only if
// the code relies on an invariant between distinct atoms.

type bpState struct {
	env  map[ssa.Value]bool
	pred map[*ssa.BasicBlock]*ssa.BasicBlock
	bind map[*ssa.Parameter]ssa.Value
	path []string
}

func (s *bpState) clone() *bpState {
	c := &bpState{env: make(map[ssa.Value]bool, len(s.env)+1), pred: make(map[*ssa.BasicBlock]*ssa.BasicBlock, len(s.pred)+1), bind: make(map[*ssa.Parameter]ssa.Value, len(s.bind)), path: append([]string(nil), s.path...)}
	for k, v := range s.env {
		c.env[k] = v
	}
	for k, v := range s.pred {
		c.pred[k] = v
	}
	for k, v := range s.bind {
		c.bind[k] = v
	}
	return c
}

type boolPaths struct {
	p       *Prog
	budget  int
	blown   bool
	inCall  map[*ssa.Function]bool
	headers map[*ssa.BasicBlock]bool
}

func newBoolPaths(p *Prog) *boolPaths {
	return &boolPaths{p: p, budget: 200000, inCall: map[*ssa.Function]bool{}, headers: map[*ssa.BasicBlock]bool{}}
}

// loopHeader: the block has a predecessor it dominates (a back edge).
func (e *boolPaths) loopHeader(b *ssa.BasicBlock) bool {
	if v, ok := e.headers[b]; ok {
		return v
	}
	r := false
	for _, pb := range b.Preds {
		if b.Dominates(pb) {
			r = true
		}
	}
	e.headers[b] = r
	return r
}

// pureBoolHelper: an in-module function with a body, one bool result, and only
// branch / arithmetic-free instructions (so its result is a function of its
// arguments).
func (e *boolPaths) pureBoolHelper(c *ssa.Call) *ssa.Function {
	g := e.p.body(c.Call.StaticCallee())
	if g == nil || e.inCall[g] || len(g.Blocks) > 24 {
		return nil
	}
	res := g.Signature.Results()
	if res.Len() != 1 || !isBool(res.At(0).Type()) {
		return nil
	}
	for _, b := range g.Blocks {
		for _, in := range b.Instrs {
			switch x := in.(type) {
			case *ssa.If, *ssa.Jump, *ssa.Return, *ssa.Phi, *ssa.DebugRef:
			case *ssa.UnOp:
				if x.Op != token.NOT {
					return nil
				}
			case *ssa.BinOp:
				if x.Op != token.EQL && x.Op != token.NEQ {
					return nil
				}
			default:
				return nil
			}
		}
	}
	return g
}

// assume returns the states (extensions of st) in which v == want is possible.
func (e *boolPaths) assume(v ssa.Value, want bool, st *bpState) []*bpState {
	e.budget--
	if e.budget < 0 {
		e.blown = true
		return []*bpState{st}
	}
	switch x := v.(type) {
	case *ssa.Const:
		if x.Value != nil && isBool(x.Type()) {
			if (x.Value.ExactString() == "true") == want {
				return []*bpState{st}
			}
			return nil
		}
	case *ssa.Parameter:
		if b, ok := st.bind[x]; ok {
			return e.assume(b, want, st)
		}
	case *ssa.UnOp:
		if x.Op == token.NOT {
			return e.assume(x.X, !want, st)
		}
	case *ssa.Phi:
		if !e.loopHeader(x.Block()) {
			if pb := st.pred[x.Block()]; pb != nil {
				for i, q := range x.Block().Preds {
					if q == pb {
						return e.assume(x.Edges[i], want, st)
					}
				}
			}
		}
	case *ssa.BinOp:
		if (x.Op == token.EQL || x.Op == token.NEQ) && isBool(x.X.Type()) && isBool(x.Y.Type()) {
			var out []*bpState
			for _, a := range []bool{true, false} {
				b := a
				if (x.Op == token.EQL) != want {
					b = !a
				}
				for _, s1 := range e.assume(x.X, a, st) {
					out = append(out, e.assume(x.Y, b, s1)...)
				}
			}
			return out
		}
	case *ssa.Call:
		if g := e.pureBoolHelper(x); g != nil {
			e.inCall[g] = true
			defer delete(e.inCall, g)
			s0 := st.clone()
			for i, prm := range g.Params {
				if i < len(x.Call.Args) {
					s0.bind[prm] = x.Call.Args[i]
				}
			}
			var out []*bpState
			e.walk(g, g.Blocks[0], s0, map[*ssa.BasicBlock]bool{}, func(b *ssa.BasicBlock) bool {
				_, isRet := b.Instrs[len(b.Instrs)-1].(*ssa.Return)
				return isRet
			}, func(b *ssa.BasicBlock, s1 *bpState) {
				ret := b.Instrs[len(b.Instrs)-1].(*ssa.Return)
				out = append(out, e.assume(ret.Results[0], want, s1)...)
			})
			return out
		}
	}
	// an atom
	if val, ok := st.env[v]; ok {
		if val == want {
			return []*bpState{st}
		}
		return nil
	}
	s1 := st.clone()
	s1.env[v] = want
	return []*bpState{s1}
}

// walk enumerates the acyclic paths from b to blocks satisfying isTarget.
func (e *boolPaths) walk(fn *ssa.Function, b *ssa.BasicBlock, st *bpState, onPath map[*ssa.BasicBlock]bool, isTarget func(*ssa.BasicBlock) bool, visit func(*ssa.BasicBlock, *bpState)) {
	if e.blown || onPath[b] {
		return
	}
	if isTarget(b) {
		visit(b, st)
		return
	}
	onPath[b] = true
	defer delete(onPath, b)
	switch t := b.Instrs[len(b.Instrs)-1].(type) {
	case *ssa.If:
		for i, succ := range b.Succs {
			for _, s1 := range e.assume(t.Cond, i == 0, st) {
				s2 := s1.clone()
				s2.pred[succ] = b
				s2.path = append(s2.path, fmt.Sprintf("%s:%v", e.p.instrPos(t), i == 0))
				e.walk(fn, succ, s2, onPath, isTarget, visit)
			}
		}
	case *ssa.Jump:
		s2 := st.clone()
		s2.pred[b.Succs[0]] = b
		e.walk(fn, b.Succs[0], s2, onPath, isTarget, visit)
	}
}

// c16DoneExcludesMore: in every owner service-info response built in the region
// of TO2Server.Respond, IsDone and IsMoreServiceInfo cannot both be true.
func c16DoneExcludesMore(p *Prog, r *Result, region []*ssa.Function) {
	r.rule("C16.done-excludes-more", "no path builds an owner service-info response in which IsDone can be true while IsMoreServiceInfo is true (the device honours IsMoreServiceInfo first, so TO2 would not end with Done when the last module completes): all acyclic paths to the message literal are enumerated with the branch conditions as constraints on boolean values (pure bool helpers are evaluated through their own paths)")
	r.floor("C16.done-excludes-more", 1)
	n := 0
	for _, fn := range region {
		for _, b := range fn.Blocks {
			for _, in := range b.Instrs {
				al, ok := in.(*ssa.Alloc)
				if !ok {
					continue
				}
				lf := litFields(al)
				dv, hasD := lf["IsDone"]
				mv, hasM := lf["IsMoreServiceInfo"]
				if !hasD && !hasM {
					continue
				}
				pt, isP := al.Type().Underlying().(*types.Pointer)
				if !isP {
					continue
				}
				stt, isS := types.Unalias(pt.Elem()).Underlying().(*types.Struct)
				if !isS {
					continue
				}
				both := 0
				for i := 0; i < stt.NumFields(); i++ {
					if nm := stt.Field(i).Name(); (nm == "IsDone" || nm == "IsMoreServiceInfo") && isBool(stt.Field(i).Type()) {
						both++
					}
				}
				if both != 2 {
					continue
				}
				n++
				key := fmt.Sprintf("response literal #%d in %s", n, p.FuncName(fn))
				if !hasD || !hasM {
					// an unset field is false
					r.table(p, "C16.done-excludes-more", key, p.Pos(al.Pos()), true, "one of the two flags is left at its zero value")
					continue
				}
				// target: the block of the later of the two stores
				var target *ssa.BasicBlock
				for _, ref := range *al.Referrers() {
					if fa, ok := ref.(*ssa.FieldAddr); ok {
						for _, r2 := range *fa.Referrers() {
							if s, ok := r2.(*ssa.Store); ok && (s.Val == dv || s.Val == mv) {
								if target == nil || target.Dominates(s.Block()) {
									target = s.Block()
								}
							}
						}
					}
				}
				if target == nil {
					r.fail("C16.done-excludes-more: stores of the flags of %s not found", key)
					continue
				}
				e := newBoolPaths(p)
				paths, bad := 0, ""
				e.walk(fn, fn.Blocks[0], &bpState{env: map[ssa.Value]bool{}, pred: map[*ssa.BasicBlock]*ssa.BasicBlock{}, bind: map[*ssa.Parameter]ssa.Value{}}, map[*ssa.BasicBlock]bool{},
					func(b *ssa.BasicBlock) bool { return b == target },
					func(b *ssa.BasicBlock, st *bpState) {
						paths++
						if bad != "" {
							return
						}
						for _, s1 := range e.assume(mv, true, st) {
							if s2 := e.assume(dv, true, s1); len(s2) > 0 {
								bad = strings.Join(s2[0].path, " ")
								return
							}
						}
					})
				if e.blown {
					r.fail("C16.done-excludes-more: path budget exhausted in %s", p.FuncName(fn))
					continue
				}
				if paths == 0 {
					r.fail("C16.done-excludes-more: no acyclic path reaches %s", key)
					continue
				}
				detail := fmt.Sprintf("%d acyclic paths to the literal; on none can both flags be true", paths)
				if bad != "" {
					detail = "both flags can be true on the path with branch decisions " + bad
				}
				r.table(p, "C16.done-excludes-more", key, p.Pos(al.Pos()), bad == "", detail)
			}
		}
	}
}
