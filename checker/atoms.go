package main

// Reusable atom constructors for E1 rule tables.

import (
	"go/constant"
	"go/token"
	"strings"

	"golang.org/x/tools/go/ssa"
)

type calleePred func(name string) bool

func named(names ...string) calleePred {
	return func(n string) bool {
		for _, x := range names {
			if n == x {
				return true
			}
		}
		return false
	}
}

// callCheck lets a rule constrain the operands of the matched call. args are
// receiver-first for method calls and invokes.
type callCheck func(m *Matcher, call ssa.CallInstruction, args []ssa.Value) bool

func allArgs(call ssa.CallInstruction) []ssa.Value { return callOperands(call.Common()) }

// errNil: the error result of a call to callee is nil.
func errNil(name Atom, doc string, callee calleePred, chk callCheck) AtomDef {
	return AtomDef{Name: name, Doc: doc, Edge: func(m *Matcher, p Pred, holds bool) bool {
		if p.Kind != "nil" || !holds || !isErrorType(p.X.Type()) {
			return false
		}
		n, _, call := m.ResultOf(p.X)
		if call == nil || !callee(n) {
			return false
		}
		return chk == nil || chk(m, call, allArgs(call))
	}}
}

// boolTrue: bool result idx of a call to callee is true.
func boolTrue(name Atom, doc string, callee calleePred, idx int, chk callCheck) AtomDef {
	return AtomDef{Name: name, Doc: doc, Edge: func(m *Matcher, p Pred, holds bool) bool {
		if p.Kind != "bool" || !holds {
			return false
		}
		n, i, call := m.ResultOf(p.X)
		if call == nil || i != idx || !callee(n) {
			return false
		}
		return chk == nil || chk(m, call, allArgs(call))
	}}
}

// boolFalse: bool result idx of a call to callee is false.
func boolFalse(name Atom, doc string, callee calleePred, idx int, chk callCheck) AtomDef {
	return AtomDef{Name: name, Doc: doc, Edge: func(m *Matcher, p Pred, holds bool) bool {
		if p.Kind != "bool" || holds {
			return false
		}
		n, i, call := m.ResultOf(p.X)
		if call == nil || i != idx || !callee(n) {
			return false
		}
		return chk == nil || chk(m, call, allArgs(call))
	}}
}

var equalFuncs = map[string]bool{
	"bytes.Equal":       true,
	"crypto/hmac.Equal": true,
	"reflect.DeepEqual": true,
	"slices.Equal":      true,
}

// eqOperands extracts the two operands of an equality established on this
// edge, if any: a == b, bytes/hmac.Equal(a,b), subtle.ConstantTimeCompare(a,b)==1,
// or x.Equal(y) for any method named Equal with one argument.
func eqOperands(m *Matcher, p Pred, holds bool) (a, b ssa.Value, ok bool) {
	if !holds {
		return nil, nil, false
	}
	switch p.Kind {
	case "bool":
		n, _, call := m.ResultOf(p.X)
		if call == nil {
			return nil, nil, false
		}
		args := allArgs(call)
		if equalFuncs[n] && len(args) == 2 {
			return args[0], args[1], true
		}
		if strings.HasSuffix(n, ".Equal") && len(args) == 2 {
			return args[0], args[1], true
		}
	case "eq":
		if n, _, call := m.ResultOf(p.X); call != nil && n == "crypto/subtle.ConstantTimeCompare" && isConstInt(p.Y, 1) {
			args := allArgs(call)
			return args[0], args[1], true
		}
		return p.X, p.Y, true
	}
	return nil, nil, false
}

// equal: an equality between a value satisfying pa and one satisfying pb
// (either order); a value is never matched against itself.
func equal(name Atom, doc string, pa, pb func(m *Matcher, v ssa.Value) bool) AtomDef {
	return AtomDef{Name: name, Doc: doc, Edge: func(m *Matcher, p Pred, holds bool) bool {
		a, b, ok := eqOperands(m, p, holds)
		if !ok || a == b {
			return false
		}
		return (pa(m, a) && pb(m, b)) || (pa(m, b) && pb(m, a))
	}}
}

func hasProv(items ...string) func(m *Matcher, v ssa.Value) bool {
	return func(m *Matcher, v ssa.Value) bool {
		s := m.Prov(v)
		for _, it := range items {
			if strings.HasSuffix(it, "*") {
				if !s.HasPrefix(strings.TrimSuffix(it, "*")) {
					return false
				}
			} else if !s.Has(it) {
				return false
			}
		}
		return true
	}
}

// hasProvX is hasProv over local and imported items (operand classes that must
// survive extraction of the check, or of the computation, into a helper).
func hasProvX(items ...string) func(m *Matcher, v ssa.Value) bool {
	return func(m *Matcher, v ssa.Value) bool {
		s := m.Prov(v)
		for _, it := range items {
			if strings.HasSuffix(it, "*") {
				if !s.HasPrefixX(strings.TrimSuffix(it, "*")) {
					return false
				}
			} else if !s.HasX(it) {
				return false
			}
		}
		return true
	}
}

func provAnd(fs ...func(m *Matcher, v ssa.Value) bool) func(m *Matcher, v ssa.Value) bool {
	return func(m *Matcher, v ssa.Value) bool {
		for _, f := range fs {
			if !f(m, v) {
				return false
			}
		}
		return true
	}
}

func lacksProv(items ...string) func(m *Matcher, v ssa.Value) bool {
	return func(m *Matcher, v ssa.Value) bool {
		s := m.Prov(v)
		for _, it := range items {
			if s.HasLocal(it) {
				return false
			}
		}
		return true
	}
}

func isConstInt(v ssa.Value, n int64) bool {
	c, ok := v.(*ssa.Const)
	if !ok || c.Value == nil || c.Value.Kind() != constant.Int {
		return false
	}
	i, exact := constant.Int64Val(c.Value)
	return exact && i == n
}

func constInt(v ssa.Value) (int64, bool) {
	c, ok := v.(*ssa.Const)
	if !ok || c.Value == nil || c.Value.Kind() != constant.Int {
		return 0, false
	}
	return constant.Int64Val(c.Value)
}

// lenOf returns x when v is len(x).
func lenOf(m *Matcher, v ssa.Value) ssa.Value {
	for {
		if c, ok := v.(*ssa.Convert); ok {
			v = c.X
			continue
		}
		break
	}
	call, ok := v.(*ssa.Call)
	if !ok {
		return nil
	}
	if b, ok := call.Call.Value.(*ssa.Builtin); ok && b.Name() == "len" && len(call.Call.Args) == 1 {
		return call.Call.Args[0]
	}
	return nil
}

// nonEmpty: len(x) != 0 is established for an x satisfying px.
func nonEmpty(name Atom, doc string, px func(m *Matcher, v ssa.Value) bool) AtomDef {
	return AtomDef{Name: name, Doc: doc, Edge: func(m *Matcher, p Pred, holds bool) bool {
		var x ssa.Value
		switch p.Kind {
		case "eq": // len(x) == 0 is false
			if holds {
				return false
			}
			if isConstInt(p.Y, 0) {
				x = lenOf(m, p.X)
			} else if isConstInt(p.X, 0) {
				x = lenOf(m, p.Y)
			}
		case "lt": // 0 < len(x) holds, or len(x) < 1 is false
			if holds && isConstInt(p.X, 0) {
				x = lenOf(m, p.Y)
			} else if !holds && isConstInt(p.Y, 1) {
				x = lenOf(m, p.X)
			}
		case "le": // 1 <= len(x) holds, or len(x) <= 0 is false
			if holds && isConstInt(p.X, 1) {
				x = lenOf(m, p.Y)
			} else if !holds && isConstInt(p.Y, 0) {
				x = lenOf(m, p.X)
			}
		}
		return x != nil && px(m, x)
	}}
}

// isNilCheck: the value satisfying px is nil (holds) on this edge.
func isNil(name Atom, doc string, px func(m *Matcher, v ssa.Value) bool) AtomDef {
	return AtomDef{Name: name, Doc: doc, Edge: func(m *Matcher, p Pred, holds bool) bool {
		return p.Kind == "nil" && holds && px(m, p.X)
	}}
}

func notNil(name Atom, doc string, px func(m *Matcher, v ssa.Value) bool) AtomDef {
	return AtomDef{Name: name, Doc: doc, Edge: func(m *Matcher, p Pred, holds bool) bool {
		return p.Kind == "nil" && !holds && px(m, p.X)
	}}
}

// notEqualConst: v != c is established for v satisfying px.
func notEqualConst(name Atom, doc string, c int64, px func(m *Matcher, v ssa.Value) bool) AtomDef {
	return AtomDef{Name: name, Doc: doc, Edge: func(m *Matcher, p Pred, holds bool) bool {
		if p.Kind != "eq" || holds {
			return false
		}
		if isConstInt(p.Y, c) {
			return px(m, p.X)
		}
		if isConstInt(p.X, c) {
			return px(m, p.Y)
		}
		return false
	}}
}

// fieldLoad: v is a load of the named struct field.
func fieldLoad(field string) func(m *Matcher, v ssa.Value) bool {
	return func(m *Matcher, v ssa.Value) bool { return fieldOfLoad(v) == field }
}

// resultOfCall: v is result idx of a call to callee.
func resultOfCall(callee calleePred, idx int) func(m *Matcher, v ssa.Value) bool {
	return func(m *Matcher, v ssa.Value) bool {
		n, i, call := m.ResultOf(v)
		return call != nil && i == idx && callee(n)
	}
}

// executed: a call to callee has been executed.
func executed(name Atom, doc string, callee calleePred, chk callCheck) AtomDef {
	return AtomDef{Name: name, Doc: doc, Exec: func(m *Matcher, call ssa.CallInstruction) bool {
		if _, isDefer := call.(*ssa.Defer); isDefer {
			return false
		}
		if _, isGo := call.(*ssa.Go); isGo {
			return false
		}
		if !callee(m.P.calleeOf(call.Common()).Name) {
			return false
		}
		return chk == nil || chk(m, call, allArgs(call))
	}}
}

// stripConv removes value-preserving conversions.
func stripConv(v ssa.Value) ssa.Value {
	for {
		switch x := v.(type) {
		case *ssa.Convert:
			v = x.X
		case *ssa.ChangeType:
			v = x.X
		case *ssa.ChangeInterface:
			v = x.X
		case *ssa.MakeInterface:
			v = x.X
		default:
			return v
		}
	}
}

// loadOf strips a load.
func loadOf(v ssa.Value) ssa.Value {
	if u, ok := v.(*ssa.UnOp); ok && u.Op == token.MUL {
		return u.X
	}
	return nil
}
