package main

import (
	"fmt"
	"go/types"
	"sort"
	"strings"

	"golang.org/x/tools/go/ssa"
)

// C03 — ownership handover leaves device credential and stored voucher in
// agreement.

func init() {
	checks["C03"] = checkC03
	explanations["C03"] = "Structural necessary conditions: (1) atomicity (E1): AddVoucher only in the DI SetHMAC arm after both session reads; ReplaceVoucher only in the Done arm after the Done-nonce comparison and the reads of replacement HMAC (absent => credential reuse returns before touching the store), GUID and rvinfo; DI returns a credential only after SetHMAC was answered with DI.Done, TO2 only after the Done2 nonce comparison, and never together with an error. (2) field-source agreement (E2 composite-literal tables): the replacement VoucherHeader the device MACs and the one the owner stores each assign all six fields, taking Version/DeviceInfo/CertChainHash from the current (verified / stored) header and GUID/RvInfo/ManufacturerKey from SetupDevice resp. from the session's replacement GUID, rvinfo and the owner-key helper; the GUID and rvinfo sent in SetupDevice are the very values stored in the session; the header handed to the HMAC computation is the header whose fields fill the returned credential; in DI the stored header is the returned one and is stored after its RvInfo is set. (0) the functions computing / verifying the header HMAC consult a fallible hash's Err() after the last Sum before reporting success, so an unnoticed failed HMAC cannot be bound into credential or voucher. Also: Owner2Key of the SetupDevice payload and ManufacturerKey of the replacement header given to ReplaceVoucher are results of the same function (one encoder for the key the device hashes and the key the owner stores). Not decided: equality of encoded bytes on both sides (C11), blob round trip, multi-round histories, crash points inside the store."
}

// litFields returns, for a struct built in an alloc, field name -> stored value.
func litFields(al *ssa.Alloc) map[string]ssa.Value {
	out := map[string]ssa.Value{}
	pt, ok := al.Type().Underlying().(*types.Pointer)
	if !ok {
		return out
	}
	st, ok := types.Unalias(pt.Elem()).Underlying().(*types.Struct)
	if !ok {
		return out
	}
	for _, ref := range *al.Referrers() {
		fa, ok := ref.(*ssa.FieldAddr)
		if !ok || fa.X != al {
			continue
		}
		for _, r2 := range *fa.Referrers() {
			if s, ok := r2.(*ssa.Store); ok && s.Addr == fa {
				out[st.Field(fa.Field).Name()] = s.Val
			}
		}
	}
	return out
}

// literalsOf finds composite literals of the named struct type in fn.
func literalsOf(fn *ssa.Function, typ string) []*ssa.Alloc {
	var out []*ssa.Alloc
	for _, b := range fn.Blocks {
		for _, in := range b.Instrs {
			if al, ok := in.(*ssa.Alloc); ok && typeShort(al.Type()) == typ && len(litFields(al)) > 0 {
				out = append(out, al)
			}
		}
	}
	return out
}

// helperRegion: fn plus the unexported functions of its package it reaches
// through static calls (two levels).
func helperRegion(p *Prog, root *ssa.Function) []*ssa.Function {
	return c13Region(p, root)
}

// literalsIn: composite literals of the type in root or its helper region.
func literalsIn(p *Prog, root *ssa.Function, typ string) []*ssa.Alloc {
	var out []*ssa.Alloc
	for _, fn := range helperRegion(p, root) {
		out = append(out, literalsOf(fn, typ)...)
	}
	return out
}

// fromLiteral: v is the literal itself, or the result of a call to the helper
// that builds (and returns) it, possibly through a phi or a local copy.
func fromLiteral(p *Prog, v ssa.Value, al *ssa.Alloc, depth int) bool {
	if depth > 6 || v == nil {
		return false
	}
	switch x := v.(type) {
	case *ssa.Alloc:
		if x == al {
			return true
		}
		for _, ref := range *x.Referrers() {
			if st, ok := ref.(*ssa.Store); ok && st.Addr == x && fromLiteral(p, st.Val, al, depth+1) {
				return true
			}
		}
	case *ssa.Phi:
		for _, e := range x.Edges {
			if fromLiteral(p, e, al, depth+1) {
				return true
			}
		}
	case *ssa.UnOp:
		return fromLiteral(p, x.X, al, depth+1)
	case *ssa.Extract:
		return fromLiteral(p, x.Tuple, al, depth+1)
	case *ssa.Call:
		return p.body(x.Common().StaticCallee()) == al.Parent()
	case *ssa.Parameter:
		// handed in by the (single) caller
		fn := x.Parent()
		pi := -1
		for i, q := range fn.Params {
			if q == x {
				pi = i
			}
		}
		for _, ed := range p.CallGraph().in[fn] {
			cs, ok := ed.Site.(ssa.CallInstruction)
			if !ok || ed.Kind != "static" || isHarnessPkg(funcPkgPath(ed.Caller)) {
				continue
			}
			ops := callOperands(cs.Common())
			if pi < len(ops) && fromLiteral(p, ops[pi], al, depth+1) {
				return true
			}
		}
	}
	return false
}

// rootCall: the call (name, result index) that the base pointer of a field
// load comes from, e.g. x.Header.Version -> the call that produced x. A value
// rooted at a parameter is followed to the argument of the function's single
// in-module call site.
func rootCall(m *Matcher, v ssa.Value) string {
	return rootCallD(m, v, 0)
}

func rootCallD(m *Matcher, v ssa.Value, depth int) string {
	for i := 0; i < 12; i++ {
		if pr, ok := v.(*ssa.Parameter); ok && depth < 3 {
			fn := pr.Parent()
			pi := -1
			for k, q := range fn.Params {
				if q == pr {
					pi = k
				}
			}
			var site ssa.CallInstruction
			n := 0
			for _, ed := range m.P.CallGraph().in[fn] {
				cs, ok := ed.Site.(ssa.CallInstruction)
				if !ok || ed.Kind != "static" || isHarnessPkg(funcPkgPath(ed.Caller)) {
					continue
				}
				site = cs
				n++
			}
			if n != 1 {
				return ""
			}
			ops := callOperands(site.Common())
			if pi >= len(ops) {
				return ""
			}
			return rootCallD(m.P.matcher(site.Parent()), ops[pi], depth+1)
		}
		if n, idx, call := m.ResultOf(v); call != nil {
			return fmt.Sprintf("%s#%d", n, idx)
		}
		switch x := v.(type) {
		case *ssa.UnOp:
			v = x.X
		case *ssa.FieldAddr:
			v = x.X
		case *ssa.Field:
			v = x.X
		case *ssa.IndexAddr:
			v = x.X
		case *ssa.Phi:
			// take the unique non-nil edge if any
			var nn ssa.Value
			for _, e := range x.Edges {
				if c, ok := e.(*ssa.Const); ok && c.IsNil() {
					continue
				}
				if nn != nil && nn != e {
					return ""
				}
				nn = e
			}
			if nn == nil {
				return ""
			}
			v = nn
		case *ssa.Alloc:
			// local copy: single store
			var src ssa.Value
			n := 0
			for _, ref := range *x.Referrers() {
				if s, ok := ref.(*ssa.Store); ok && s.Addr == x {
					src = s.Val
					n++
				}
			}
			if n != 1 {
				return ""
			}
			v = src
		default:
			v2 := stripConv(v)
			if v2 == v {
				return ""
			}
			v = v2
		}
	}
	return ""
}

func c03Rules(p *Prog) *RuleSet {
	rs := c08Rules(p)
	done, _ := p.constOf("fdo/protocol", "DIDoneMsgType")
	rs.Atoms = append(rs.Atoms,
		equal("done2-nonce-eq", "the decoded Done2 nonce equals the SetupDevice nonce of this run", decoded, func(m *Matcher, v ssa.Value) bool {
			return m.Prov(v).HasPrefix("param:") && !m.Prov(v).HasLocal("decoded:")
		}),
		AtomDef{Name: "di-done-received", Doc: "the response to DI.SetHMAC has type DI.Done", Edge: func(m *Matcher, pd Pred, holds bool) bool {
			if pd.Kind != "eq" || !holds {
				return false
			}
			x, c := pd.X, pd.Y
			if !isConstInt(c, done) {
				x, c = pd.Y, pd.X
			}
			return isConstInt(c, done) && m.Prov(x).Has("call:fdo.Transport.Send")
		}},
	)
	return rs
}

func checkC03(c *Ctx, p *Prog, r *Result) {
	rs := c03Rules(p)
	get := func(n string) *ssa.Function {
		fn := p.ByName[n]
		if fn == nil {
			r.fail("anchor %s not found", n)
		}
		return fn
	}

	// (0) the HMAC that binds credential and voucher is never an unnoticed failed computation
	{
		var roots []*ssa.Function
		for _, n := range []string{"fdo.DI", "fdo.TO2"} {
			if fn := get(n); fn != nil {
				roots = append(roots, fn)
			}
		}
		fallibleHashRule(p, r, "C03.hmac-error-checked", roots, 2)
	}

	// (1) atomicity on the owner / manufacturer side
	if root := get("fdo.TO2Server.Respond"); root != nil {
		f := NewFlow(p, rs, []*ssa.Function{root}, nil)
		r.useFlow(f)
		dumpFlow(f)
		r.rule("C03.replace-atomic", "ReplaceVoucher is called only under msg=70 after the Done-nonce comparison and after replacement HMAC, replacement GUID, rvinfo and current GUID were read without error (no replacement HMAC => credential reuse returns first)")
		r.floor("C03.replace-atomic", 1)
		sites := f.CallSites(func(cal Callee, call ssa.CallInstruction) bool {
			return cal.Name == "fdo.OwnerVoucherPersistentState.ReplaceVoucher" && funcPkgPath(call.Parent()) == modulePath
		})
		r.requireAtSites(f, "C03.replace-atomic", sites, []Atom{"msg=70", "done-nonce-eq", "repl-hmac-read", "repl-guid-read", "rvinfo-read", "guid-read"})
		c03OwnerHeader(p, r, f, sites)
		c03SetupDeviceValues(p, r, f)
		c03ReplacementKeyOneEncoder(p, r, f)
	}
	if root := get("fdo.DIServer.Respond"); root != nil {
		f := NewFlow(p, rs, []*ssa.Function{root}, nil)
		r.useFlow(f)
		r.rule("C03.add-atomic", "AddVoucher is called only under msg=12 after the incomplete header and the device certificate chain were read from the session without error")
		r.floor("C03.add-atomic", 1)
		r.requireAtSites(f, "C03.add-atomic", f.CallSites(func(cal Callee, call ssa.CallInstruction) bool {
			return cal.Name == "fdo.VoucherPersistentState.AddVoucher" && funcPkgPath(call.Parent()) == modulePath
		}), []Atom{"msg=12", "di-header-read", "di-chain-read"})
		c03DIServer(p, r, f)
	}

	// (1) credential only on completed protocol, device side
	if root := get("fdo.TO2"); root != nil {
		f := NewFlow(p, rs, []*ssa.Function{root}, nil)
		r.useFlow(f)
		r.rule("C03.to2-credential-after-done2", "TO2 returns a non-nil credential only after the Done2 nonce comparison passed")
		r.floor("C03.to2-credential-after-done2", 1)
		for i, sr := range f.successReturns(root, 1) {
			if cn, ok := returnValue(sr.Ret, 0).(*ssa.Const); ok && cn.IsNil() {
				// credential reuse: (nil, nil) — still requires Done2
			}
			o := Obl{Rule: "C03.to2-credential-after-done2", Construct: fmt.Sprintf("C03.to2-credential-after-done2 | success return #%d of fdo.TO2", i), Pos: p.instrPos(sr.Ret), Config: p.Config.Name,
				Required: []string{"done2-nonce-eq"}, Found: sr.State.list(), OK: sr.State.Has("done2-nonce-eq")}
			if !o.OK {
				o.Missing = []string{"done2-nonce-eq"}
				o.Detail = r.explain(f, root, sr.Ret.Block(), o.Missing)
			}
			r.add(o)
		}
		c03DeviceHeader(p, r, f, root)
	}
	if root := get("fdo.DI"); root != nil {
		f := NewFlow(p, rs, []*ssa.Function{root}, nil)
		r.useFlow(f)
		r.rule("C03.di-credential-after-done", "DI returns a credential only after DI.SetHMAC was answered with DI.Done, and its fields come from the decoded SetCredentials header")
		r.floor("C03.di-credential-after-done", 2)
		r.requireAtReturns(f, "C03.di-credential-after-done", root, 1, []Atom{"di-done-received"})
		m := f.matcherFor(root)
		for _, al := range literalsOf(root, "fdo.DeviceCredential") {
			fl := litFields(al)
			ok := true
			var detail []string
			var root0 string
			for _, fld := range []string{"Version", "DeviceInfo", "GUID", "RvInfo"} {
				v, present := fl[fld]
				rc := ""
				if present {
					rc = rootCall(m, v)
				}
				if root0 == "" {
					root0 = rc
				}
				if !present || rc == "" || rc != root0 {
					ok = false
				}
				detail = append(detail, fld+"<-"+rc)
			}
			if kh, present := fl["PublicKeyHash"]; !present || !m.Prov(kh).Has("call:hash.Hash.Sum") {
				ok = false
				detail = append(detail, "PublicKeyHash not a digest")
			}
			r.table(p, "C03.di-credential-after-done", "DeviceCredential literal in fdo.DI", p.Pos(al.Pos()), ok, strings.Join(detail, " "))
		}
	}
}

// c03DeviceHeader: the replacement header literal inside TO2.
func c03DeviceHeader(p *Prog, r *Result, f *Flow, to2 *ssa.Function) {
	r.rule("C03.device-header-sources", "the VoucherHeader literal in TO2 sets all six fields: Version, DeviceInfo, CertChainHash from one source (the verified original header), GUID, RvInfo, ManufacturerKey from one other source (SetupDevice); that header is what the HMAC step receives and what fills the returned credential")
	r.floor("C03.device-header-sources", 3)
	var lits []*ssa.Alloc
	for _, al := range literalsIn(p, to2, "fdo.VoucherHeader") {
		// the complete replacement header; partial headers (the SetupDevice
		// part that is completed later) are not the object of this rule
		if len(litFields(al)) >= 4 {
			lits = append(lits, al)
		}
	}
	for _, al := range lits {
		m := p.matcher(al.Parent())
		fl := litFields(al)
		var names []string
		for n := range fl {
			names = append(names, n)
		}
		sort.Strings(names)
		a := map[string]string{}
		for _, n := range names {
			a[n] = rootCall(m, fl[n])
		}
		ok := len(fl) == 6 && a["Version"] != "" && a["Version"] == a["DeviceInfo"] && a["Version"] == a["CertChainHash"] &&
			a["GUID"] != "" && a["GUID"] == a["RvInfo"] && a["GUID"] == a["ManufacturerKey"] && a["GUID"] != a["Version"]
		r.table(p, "C03.device-header-sources", "VoucherHeader literal in fdo.TO2", p.Pos(al.Pos()), ok, fmt.Sprintf("fields=%v sources=%v", names, a))
		// same header goes to the HMAC step (a call that receives it and the HMAC hashes) and to the credential
		toHmac := false
		for _, b := range to2.Blocks {
			for _, in := range b.Instrs {
				call, isCall := in.(*ssa.Call)
				if !isCall || p.body(call.Common().StaticCallee()) == nil {
					continue
				}
				for _, arg := range call.Common().Args {
					if phiHas(arg, al) || fromLiteral(p, arg, al, 0) {
						cal := p.body(call.Common().StaticCallee())
						if callsNamed(p, cal, "hash.Hash.Sum") && callsNamed(p, cal, "fdo.Transport.Send") {
							toHmac = true
						}
					}
				}
			}
		}
		r.table(p, "C03.device-header-sources", "header handed to the HMAC step", p.Pos(al.Pos()), toHmac, "an in-module callee that computes the HMAC receives this literal")
		for _, cl := range literalsIn(p, to2, "fdo.DeviceCredential") {
			cf := litFields(cl)
			m := p.matcher(cl.Parent())
			ok := true
			var d []string
			for _, fld := range []string{"Version", "DeviceInfo", "GUID", "RvInfo"} {
				v, present := cf[fld]
				from := present && (derivesFromAlloc(v, al) || fromLiteral(p, fieldBase(v), al, 0))
				if !from {
					ok = false
				}
				d = append(d, fmt.Sprintf("%s from header=%v", fld, from))
			}
			if kh, present := cf["PublicKeyHash"]; present {
				if !m.Prov(kh).Has("call:hash.Hash.Sum") {
					ok = false
				}
			} else if !nestedFieldFrom(m, cl, "PublicKeyHash", "call:hash.Hash.Sum") {
				ok = false
			}
			r.table(p, "C03.device-header-sources", "DeviceCredential literal in fdo.TO2", p.Pos(cl.Pos()), ok, strings.Join(d, "; "))
		}
	}
	if len(lits) != 1 {
		r.fail("C03.device-header-sources: expected exactly one VoucherHeader literal in fdo.TO2, found %d", len(lits))
	}
}

// fieldBase: the object a field value was loaded from (x in x.f, through loads).
func fieldBase(v ssa.Value) ssa.Value {
	for i := 0; i < 8; i++ {
		switch x := v.(type) {
		case *ssa.UnOp:
			v = x.X
		case *ssa.FieldAddr:
			return x.X
		case *ssa.Field:
			return x.X
		default:
			return v
		}
	}
	return v
}

func phiHas(v ssa.Value, al *ssa.Alloc) bool {
	if v == al {
		return true
	}
	if ph, ok := v.(*ssa.Phi); ok {
		for _, e := range ph.Edges {
			if e == al {
				return true
			}
		}
	}
	return false
}

func derivesFromAlloc(v ssa.Value, al *ssa.Alloc) bool {
	for i := 0; i < 10; i++ {
		switch x := v.(type) {
		case *ssa.UnOp:
			v = x.X
		case *ssa.FieldAddr:
			v = x.X
		case *ssa.Phi:
			return phiHas(x, al)
		case *ssa.Alloc:
			return x == al
		default:
			return false
		}
	}
	return false
}

func callsNamed(p *Prog, fn *ssa.Function, name string) bool {
	for g := range p.Reachable([]*ssa.Function{fn}, nil) {
		for _, b := range g.Blocks {
			for _, in := range b.Instrs {
				if c, ok := in.(ssa.CallInstruction); ok && p.calleeOf(c.Common()).Name == name {
					return true
				}
			}
		}
	}
	return false
}

func reaches(p *Prog, fn *ssa.Function, name string) bool {
	for g := range p.Reachable([]*ssa.Function{fn}, nil) {
		if p.FuncName(g) == name {
			return true
		}
	}
	return false
}

// c03OwnerHeader: the replacement voucher assembled by the Done responder.
func c03OwnerHeader(p *Prog, r *Result, f *Flow, sites []ssa.CallInstruction) {
	r.rule("C03.owner-header-sources", "the VoucherHeader literal in the responder that calls ReplaceVoucher sets all six fields: Version, DeviceInfo, CertChainHash from the currently stored voucher (fetched with Session.GUID), GUID from Session.ReplacementGUID, RvInfo from Session.RvInfo, ManufacturerKey from the owner-key helper; Hmac from Session.ReplacementHmac; the device certificate chain is carried over")
	r.floor("C03.owner-header-sources", 2)
	for _, call := range sites {
		fn := call.Parent()
		for _, al := range literalsIn(p, fn, "fdo.VoucherHeader") {
			m := p.matcher(al.Parent())
			fl := litFields(al)
			has := func(fld string, items ...string) bool {
				v, ok := fl[fld]
				if !ok {
					return false
				}
				pv := m.Prov(v)
				for _, it := range items {
					if !pv.HasX(it) {
						return false
					}
				}
				return true
			}
			cur := "call:fdo.VoucherPersistentState.Voucher"
			ok := len(fl) == 6 && has("Version", cur, "field:fdo.VoucherHeader.Version") && has("DeviceInfo", cur, "field:fdo.VoucherHeader.DeviceInfo") &&
				has("CertChainHash", cur, "field:fdo.VoucherHeader.CertChainHash") && has("GUID", "call:fdo.TO2SessionState.ReplacementGUID") &&
				has("RvInfo", "call:fdo.TO2SessionState.RvInfo") && has("ManufacturerKey", "via:fdo.OwnerKeyPersistentState.OwnerKey")
			excl := !m.Prov(fl["GUID"]).HasLocal(cur) && !m.Prov(fl["RvInfo"]).HasLocal(cur)
			r.table(p, "C03.owner-header-sources", "VoucherHeader literal in "+p.FuncName(fn), p.Pos(al.Pos()), ok && excl, fmt.Sprintf("%d fields", len(fl)))
		}
		for _, al := range literalsIn(p, fn, "fdo.Voucher") {
			m := p.matcher(al.Parent())
			fl := litFields(al)
			pv := func(n string) ProvSet {
				if v, ok := fl[n]; ok {
					return m.Prov(v)
				}
				return ProvSet{}
			}
			ok := pv("Hmac").HasX("call:fdo.TO2SessionState.ReplacementHmac") && pv("CertChain").HasX("call:fdo.VoucherPersistentState.Voucher") && pv("CertChain").HasX("field:fdo.Voucher.CertChain")
			stored := allArgs(call)[3] == ssa.Value(al) || fromLiteral(p, allArgs(call)[3], al, 0)
			r.table(p, "C03.owner-header-sources", "Voucher literal in "+p.FuncName(fn), p.Pos(al.Pos()), ok && stored, fmt.Sprintf("Hmac from session, CertChain from current voucher, literal is the ReplaceVoucher argument=%v", stored))
		}
	}
}

// c03SetupDeviceValues: what the owner sends in SetupDevice is what it stored.
func c03SetupDeviceValues(p *Prog, r *Result, f *Flow) {
	r.rule("C03.setupdevice-values", "the function that stores the replacement GUID and rvinfo in the session returns those very values, and the SetupDevice payload literal takes GUID and RendezvousInfo from that function's results and Owner2Key from the owner-key helper")
	r.floor("C03.setupdevice-values", 2)
	for _, call := range f.CallSites(func(cal Callee, _ ssa.CallInstruction) bool {
		return cal.Name == "fdo.TO2SessionState.SetReplacementGUID"
	}) {
		fn := call.Parent()
		guidArg := allArgs(call)[2]
		var rvArg ssa.Value
		for _, c2 := range f.CallSites(func(cal Callee, c3 ssa.CallInstruction) bool {
			return cal.Name == "fdo.TO2SessionState.SetRvInfo" && c3.Parent() == fn
		}) {
			rvArg = allArgs(c2)[2]
		}
		ok := false
		for _, b := range fn.Blocks {
			ret, isRet := b.Instrs[len(b.Instrs)-1].(*ssa.Return)
			if !isRet || !call.Block().Dominates(b) {
				continue
			}
			if len(ret.Results) >= 2 && sameLoad(ret.Results[0], guidArg) && rvArg != nil && ret.Results[1] == rvArg {
				ok = true
			}
		}
		r.table(p, "C03.setupdevice-values", "results of "+p.FuncName(fn), p.instrPos(call), ok, "returned GUID/rvinfo are the values given to SetReplacementGUID/SetRvInfo")
		// callers build the SetupDevice payload from these results
		for _, e := range p.CallGraph().in[fn] {
			if !f.Region[e.Caller] {
				continue
			}
			m := f.matcherFor(e.Caller)
			name := p.FuncName(fn)
			for _, b := range e.Caller.Blocks {
				for _, in := range b.Instrs {
					al, isAl := in.(*ssa.Alloc)
					if !isAl {
						continue
					}
					fl := litFields(al)
					g, hasG := fl["GUID"]
					rv, hasRv := fl["RendezvousInfo"]
					k, hasK := fl["Owner2Key"]
					if !hasG || !hasRv || !hasK {
						continue
					}
					ok := rootCall(m, g) == name+"#0" && rootCall(m, rv) == name+"#1" && m.Prov(k).Has("via:fdo.OwnerKeyPersistentState.OwnerKey")
					r.table(p, "C03.setupdevice-values", "SetupDevice payload literal in "+p.FuncName(e.Caller), p.Pos(al.Pos()), ok,
						fmt.Sprintf("GUID<-%s RendezvousInfo<-%s", rootCall(m, g), rootCall(m, rv)))
				}
			}
		}
	}
}

func sameLoad(a, b ssa.Value) bool {
	if a == b {
		return true
	}
	la, lb := loadOf(a), loadOf(b)
	return la != nil && lb != nil && la == lb
}

// c03DIServer: the header stored in the DI session is the one returned.
func c03DIServer(p *Prog, r *Result, f *Flow) {
	r.rule("C03.di-header-stored-is-sent", "in the DI AppStart responder the header given to SetIncompleteVoucherHeader is the literal that is returned in SetCredentials, it assigns Version, GUID, DeviceInfo, ManufacturerKey and CertChainHash, and its RvInfo is set before it is stored")
	r.floor("C03.di-header-stored-is-sent", 1)
	for _, call := range f.CallSites(func(cal Callee, _ ssa.CallInstruction) bool {
		return cal.Name == "fdo.DISessionState.SetIncompleteVoucherHeader"
	}) {
		fn := call.Parent()
		al, _ := allArgs(call)[2].(*ssa.Alloc)
		if al == nil {
			r.table(p, "C03.di-header-stored-is-sent", siteKey(p, call), p.instrPos(call), false, "stored header is not a local literal")
			continue
		}
		fl := litFields(al)
		complete := true
		for _, n := range []string{"Version", "GUID", "DeviceInfo", "ManufacturerKey", "CertChainHash", "RvInfo"} {
			if _, ok := fl[n]; !ok {
				complete = false
			}
		}
		// RvInfo store dominates the session store
		rvBefore := false
		for _, ref := range *al.Referrers() {
			if fa, ok := ref.(*ssa.FieldAddr); ok && fieldName(fa.X.Type(), fa.Field) == "fdo.VoucherHeader.RvInfo" {
				for _, r2 := range *fa.Referrers() {
					if st, ok := r2.(*ssa.Store); ok && instrBefore(st, call) {
						rvBefore = true
					}
				}
			}
		}
		// returned message wraps the same literal
		returned := false
		m := f.matcherFor(fn)
		for _, sr := range f.successReturns(fn, 1) {
			_ = m
			if retAl := baseAlloc(stripConv(sr.Ret.Results[0])); retAl != nil {
				for _, v := range litFields(retAl) {
					if loadsFrom(v, al) {
						returned = true
					}
				}
			}
		}
		r.table(p, "C03.di-header-stored-is-sent", siteKey(p, call), p.instrPos(call), complete && rvBefore && returned,
			fmt.Sprintf("all fields set=%v RvInfo set before store=%v returned message built from the same header=%v", complete, rvBefore, returned))
	}
}

func instrBefore(a, b ssa.Instruction) bool {
	if a.Block() == b.Block() {
		for _, in := range a.Block().Instrs {
			if in == a {
				return true
			}
			if in == b {
				return false
			}
		}
	}
	return a.Block().Dominates(b.Block())
}

// loadsFrom: v is (a call taking) a load of alloc al.
func loadsFrom(v ssa.Value, al *ssa.Alloc) bool {
	seen := map[ssa.Value]bool{}
	var walk func(v ssa.Value, d int) bool
	walk = func(v ssa.Value, d int) bool {
		if v == nil || d > 8 || seen[v] {
			return false
		}
		seen[v] = true
		if v == ssa.Value(al) {
			return true
		}
		switch x := v.(type) {
		case *ssa.UnOp:
			return walk(x.X, d+1)
		case *ssa.Call:
			for _, a := range x.Call.Args {
				if walk(a, d+1) {
					return true
				}
			}
		case *ssa.FieldAddr:
			return walk(x.X, d+1)
		case *ssa.Field:
			return walk(x.X, d+1)
		case *ssa.Alloc:
			for _, s := range litFields(x) {
				if walk(s, d+1) {
					return true
				}
			}
			for _, ref := range *x.Referrers() {
				if st, ok := ref.(*ssa.Store); ok && st.Addr == x && walk(st.Val, d+1) {
					return true
				}
			}
		default:
			if s := stripConv(v); s != v {
				return walk(s, d+1)
			}
		}
		return false
	}
	return walk(v, 0)
}

// nestedFieldFrom: the field of the literal is itself written field by field
// (an inline nested literal) and one of those stores carries the item.
func nestedFieldFrom(m *Matcher, lit *ssa.Alloc, field, item string) bool {
	for _, ref := range *lit.Referrers() {
		fa, ok := ref.(*ssa.FieldAddr)
		if !ok || !strings.HasSuffix(fieldName(fa.X.Type(), fa.Field), "."+field) {
			continue
		}
		for _, r2 := range *fa.Referrers() {
			inner, ok := r2.(*ssa.FieldAddr)
			if !ok {
				continue
			}
			for _, r3 := range *inner.Referrers() {
				if st, ok := r3.(*ssa.Store); ok && st.Addr == ssa.Value(inner) && m.Prov(st.Val).Has(item) {
					return true
				}
			}
		}
	}
	return false
}

// c03ReplacementKeyOneEncoder — "C03.replacement-key-one-encoder". The device
// computes the replacement HMAC and the key hash of its new credential over the
// Owner2Key it received in SetupDevice; the owner stores a replacement header
// whose ManufacturerKey it builds again in Done. The two agree byte for byte
// only if both are the result of the same function (same type, encoding and
// chain selection); two encoders that each look right may differ in encoding.
func c03ReplacementKeyOneEncoder(p *Prog, r *Result, f *Flow) {
	rule := "C03.replacement-key-one-encoder"
	r.rule(rule, "Owner2Key of the SetupDevice payload and ManufacturerKey of the replacement header given to ReplaceVoucher are results of the same function (same result index): the key the device hashed is encoded by the code that encodes the key the owner stores")
	r.floor(rule, 1)
	var sent, stored []string
	var pos string
	for _, fn := range f.Order {
		if !f.Region[fn] || fn.Blocks == nil {
			continue
		}
		m := f.matcherFor(fn)
		for _, b := range fn.Blocks {
			for _, in := range b.Instrs {
				al, ok := in.(*ssa.Alloc)
				if !ok {
					continue
				}
				fl := litFields(al)
				if k, ok := fl["Owner2Key"]; ok {
					if _, g := fl["RendezvousInfo"]; g {
						sent = append(sent, rootCall(m, k)+" (payload literal in "+p.FuncName(fn)+")")
					}
				}
			}
		}
	}
	for _, call := range f.CallSites(func(cal Callee, _ ssa.CallInstruction) bool {
		return cal.Name == "fdo.OwnerVoucherPersistentState.ReplaceVoucher"
	}) {
		fn := call.Parent()
		pos = p.instrPos(call)
		for _, al := range literalsIn(p, fn, "fdo.VoucherHeader") {
			m := p.matcher(al.Parent())
			if k, ok := litFields(al)["ManufacturerKey"]; ok {
				stored = append(stored, rootCall(m, k)+" (header literal in "+p.FuncName(al.Parent())+")")
			}
		}
	}
	root := func(s string) string {
		if i := strings.Index(s, " ("); i >= 0 {
			return s[:i]
		}
		return s
	}
	ok := len(sent) == 1 && len(stored) == 1 && root(sent[0]) != "" && root(sent[0]) == root(stored[0])
	r.table(p, rule, "SetupDevice.Owner2Key vs replacement header ManufacturerKey", pos, ok,
		fmt.Sprintf("sent: %s; stored: %s", strings.Join(sent, ", "), strings.Join(stored, ", ")))
}
