package main

// Fallible hashes (hardware-backed HMACs such as a TPM) report a failed
// computation only through an optional Err() method; Sum then returns an empty
// or unchanged digest. Every function that asks "is this hash fallible?" must
// therefore consult Err() AFTER the last Sum and BEFORE it reports success:
// otherwise a failing device computes / accepts an empty MAC.
//
// Rule (per function containing a comma-ok type assertion of a hash value to
// an interface with `Err() error`): each success return holds
//
//	fh-clean ⇐ fh-not-fallible   (the assertion failed)
//	fh-clean ⇐ fh-err-nil        (Err() == nil, established after the last Sum)
//
// where executing hash.Hash.Sum removes fh-err-nil / fh-clean again.

import (
	"go/types"
	"strings"

	"golang.org/x/tools/go/ssa"
)

func isFallibleIface(t types.Type) bool {
	it, ok := t.Underlying().(*types.Interface)
	if !ok {
		return false
	}
	for i := 0; i < it.NumMethods(); i++ {
		m := it.Method(i)
		sig := m.Type().(*types.Signature)
		if m.Name() == "Err" && sig.Params().Len() == 0 && sig.Results().Len() == 1 && isErrorType(sig.Results().At(0).Type()) {
			return true
		}
	}
	return false
}

func fallibleAssert(v ssa.Value) *ssa.TypeAssert {
	ex, ok := v.(*ssa.Extract)
	if !ok {
		return nil
	}
	ta, ok := ex.Tuple.(*ssa.TypeAssert)
	if !ok || !ta.CommaOk || !isFallibleIface(ta.AssertedType) {
		return nil
	}
	return ta
}

func fallibleRules() *RuleSet {
	return &RuleSet{
		Atoms: []AtomDef{
			{Name: "fh-not-fallible", Doc: "the hash does not implement Err()", Edge: func(m *Matcher, pd Pred, holds bool) bool {
				if pd.Kind != "bool" || holds {
					return false
				}
				ex, ok := pd.X.(*ssa.Extract)
				return ok && ex.Index == 1 && fallibleAssert(pd.X) != nil
			}},
			{Name: "fh-err-nil", Doc: "Err() of the fallible hash returned nil", Edge: func(m *Matcher, pd Pred, holds bool) bool {
				if pd.Kind != "nil" || !holds || !isErrorType(pd.X.Type()) {
					return false
				}
				call, ok := pd.X.(*ssa.Call)
				if !ok || !call.Common().IsInvoke() || call.Common().Method.Name() != "Err" {
					return false
				}
				return fallibleAssert(call.Common().Value) != nil
			}},
			{Name: "fh-sum", Doc: "the digest is (re)computed", ExecDyn: func(m *Matcher, call ssa.CallInstruction) (gen, kill []Atom) {
				n := m.P.calleeOf(call.Common()).Name
				if n == "hash.Hash.Sum" || strings.HasSuffix(n, ".Sum") && call.Common().IsInvoke() {
					return nil, []Atom{"fh-err-nil", "fh-clean"}
				}
				return nil, nil
			}},
		},
		Derive: []Derivation{{"fh-clean", []Atom{"fh-not-fallible"}}, {"fh-clean", []Atom{"fh-err-nil"}}},
	}
}

// fallibleHashRule adds, for every function reachable from roots that tests a
// hash for fallibility, the obligation that its success returns hold fh-clean.
func fallibleHashRule(p *Prog, r *Result, rule string, roots []*ssa.Function, floor int) {
	r.rule(rule, "every function that tests a hash for the optional Err() method (hardware-backed HMACs report a failed computation only there) reports success only where the hash is not fallible or Err() returned nil after the last Sum")
	r.floor(rule, floor)
	region := p.Reachable(roots, func(fn *ssa.Function) bool { return isHarnessPkg(funcPkgPath(fn)) })
	// T: functions that test a hash for fallibility; candidates: T and every
	// function that calls a member of T (the test may live in a shared helper
	// while the Sum it must follow stays in the caller)
	T := map[*ssa.Function]bool{}
	for fn := range region {
		for _, b := range fn.Blocks {
			for _, in := range b.Instrs {
				if ta, ok := in.(*ssa.TypeAssert); ok && ta.CommaOk && isFallibleIface(ta.AssertedType) {
					T[fn] = true
				}
			}
		}
	}
	cand := map[*ssa.Function]bool{}
	for fn := range T {
		cand[fn] = true
		for _, ed := range p.CallGraph().in[fn] {
			if ed.Kind == "static" && region[ed.Caller] && callsSum(p, ed.Caller) {
				cand[ed.Caller] = true
			}
		}
	}
	var fns []*ssa.Function
	for fn := range cand {
		fns = append(fns, fn)
	}
	sortFuncs(p, fns)
	for _, fn := range fns {
		g := fn
		f := NewFlow(p, fallibleRules(), []*ssa.Function{g}, func(h *ssa.Function) bool { return h != g && !T[h] })
		errIdx := g.Signature.Results().Len() - 1
		if errIdx < 0 || !isErrorType(g.Signature.Results().At(errIdx).Type()) {
			r.table(p, rule, "fallibility test in "+p.FuncName(g), p.Pos(g.Pos()), false, "function has no error result to report a failed hash through: undecided")
			continue
		}
		r.requireAtReturns(f, rule, g, errIdx, []Atom{"fh-clean"})
	}
}

func sortFuncs(p *Prog, fns []*ssa.Function) {
	for i := 1; i < len(fns); i++ {
		for j := i; j > 0 && p.FuncName(fns[j]) < p.FuncName(fns[j-1]); j-- {
			fns[j], fns[j-1] = fns[j-1], fns[j]
		}
	}
}

func callsSum(p *Prog, fn *ssa.Function) bool {
	for _, b := range fn.Blocks {
		for _, in := range b.Instrs {
			if call, ok := in.(ssa.CallInstruction); ok {
				n := p.calleeOf(call.Common()).Name
				if n == "hash.Hash.Sum" {
					return true
				}
			}
		}
	}
	return false
}
