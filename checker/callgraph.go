package main

// Module call graph: static callees, closures and function values, interface
// invokes resolved by class-hierarchy analysis over the module's own types, and
// hand-added codec dispatch edges (the CBOR codec reaches custom (un)marshal
// methods through reflect, which no call-graph algorithm follows).

import (
	"go/types"
	"sort"
	"strings"

	"golang.org/x/tools/go/ssa"
)

type cgEdge struct {
	Caller *ssa.Function
	Site   ssa.Instruction // call/go/defer, MakeClosure, or the instruction using a func value
	Callee *ssa.Function   // body function (origin)
	Kind   string          // static | invoke | closure | funcvalue | codec
}

type callGraph struct {
	out map[*ssa.Function][]cgEdge
	in  map[*ssa.Function][]cgEdge
}

func (p *Prog) CallGraph() *callGraph {
	if p.cg != nil {
		return p.cg
	}
	cg := &callGraph{out: map[*ssa.Function][]cgEdge{}, in: map[*ssa.Function][]cgEdge{}}
	add := func(e cgEdge) {
		if e.Callee == nil {
			return
		}
		cg.out[e.Caller] = append(cg.out[e.Caller], e)
		cg.in[e.Callee] = append(cg.in[e.Callee], e)
	}

	// method index for CHA: method name -> concrete module methods
	type impl struct {
		recv types.Type
		fn   *ssa.Function
	}
	byMethod := map[string][]impl{}
	for _, fn := range p.Funcs {
		if fn.Signature.Recv() == nil || fn.Parent() != nil {
			continue
		}
		byMethod[fn.Name()] = append(byMethod[fn.Name()], impl{fn.Signature.Recv().Type(), fn})
	}
	implementsIface := func(recv types.Type, iface *types.Interface) bool {
		// generic receivers: compare by method names only (over-approximate)
		if named, ok := derefNamed(recv); ok && named.TypeParams().Len() > 0 {
			ms := types.NewMethodSet(types.NewPointer(named))
			for i := 0; i < iface.NumMethods(); i++ {
				if ms.Lookup(iface.Method(i).Pkg(), iface.Method(i).Name()) == nil {
					return false
				}
			}
			return true
		}
		if types.Implements(recv, iface) {
			return true
		}
		if _, isPtr := recv.(*types.Pointer); !isPtr {
			return types.Implements(types.NewPointer(recv), iface)
		}
		return false
	}

	// concrete (non-generic, non-interface) named types of the module
	var namedTypes []*types.Named
	for _, pk := range p.Pkgs {
		if !strings.HasPrefix(pk.PkgPath, modulePath) || isHarnessPkg(pk.PkgPath) {
			continue
		}
		sc := pk.Types.Scope()
		for _, n := range sc.Names() {
			tn, ok := sc.Lookup(n).(*types.TypeName)
			if !ok || tn.IsAlias() {
				continue
			}
			nt, ok := tn.Type().(*types.Named)
			if !ok || nt.TypeParams().Len() > 0 {
				continue
			}
			if _, isIface := nt.Underlying().(*types.Interface); isIface {
				continue
			}
			namedTypes = append(namedTypes, nt)
		}
	}

	var codecUnmarshal, codecMarshal []*ssa.Function
	for _, fn := range p.Funcs {
		if fn.Signature.Recv() == nil {
			continue
		}
		switch fn.Name() {
		case "UnmarshalCBOR", "UnmarshalCBORStream", "UnmarshalBinary":
			codecUnmarshal = append(codecUnmarshal, fn)
		case "MarshalCBOR", "MarshalCBORStream", "MarshalBinary":
			codecMarshal = append(codecMarshal, fn)
		}
	}

	for _, fn := range p.Funcs {
		for _, b := range fn.Blocks {
			for _, in := range b.Instrs {
				if mc, ok := in.(*ssa.MakeClosure); ok {
					add(cgEdge{fn, in, p.body(mc.Fn.(*ssa.Function)), "closure"})
					continue
				}
				call, isCall := in.(ssa.CallInstruction)
				for _, op := range in.Operands(nil) {
					if f, ok := (*op).(*ssa.Function); ok {
						if isCall && call.Common().Value == f && !call.Common().IsInvoke() {
							continue // call position, handled below
						}
						add(cgEdge{fn, in, p.body(f), "funcvalue"})
					}
				}
				if !isCall {
					continue
				}
				c := call.Common()
				if c.IsInvoke() {
					iface, _ := types.Unalias(c.Value.Type()).Underlying().(*types.Interface)
					if iface == nil {
						continue
					}
					seenT := map[*ssa.Function]bool{}
					for _, im := range byMethod[c.Method.Name()] {
						if implementsIface(im.recv, iface) {
							add(cgEdge{fn, in, im.fn, "invoke"})
							seenT[im.fn] = true
						}
					}
					// methods promoted through embedding: resolve the method
					// set of every concrete module type that implements iface
					for _, nt := range namedTypes {
						var recv types.Type = nt
						if !types.Implements(recv, iface) {
							recv = types.NewPointer(nt)
							if !types.Implements(recv, iface) {
								continue
							}
						}
						sel := types.NewMethodSet(recv).Lookup(c.Method.Pkg(), c.Method.Name())
						if sel == nil {
							continue
						}
						mf, ok := sel.Obj().(*types.Func)
						if !ok {
							continue
						}
						if target := p.body(p.SSA.FuncValue(mf)); target != nil && !seenT[target] {
							seenT[target] = true
							add(cgEdge{fn, in, target, "invoke"})
						}
					}
					continue
				}
				if sc := c.StaticCallee(); sc != nil {
					add(cgEdge{fn, in, p.body(sc), "static"})
				}
			}
		}
	}
	// codec dispatch: Decode/decodeVal/decodeStructField call Unmarshal*
	// methods of any type through an interface assertion; Encode likewise.
	for _, fn := range p.Funcs {
		for _, b := range fn.Blocks {
			for _, in := range b.Instrs {
				call, ok := in.(ssa.CallInstruction)
				if !ok || !call.Common().IsInvoke() {
					continue
				}
				recvT := typeShort(call.Common().Value.Type())
				switch recvT {
				case "fdo/cbor.Unmarshaler", "fdo/cbor.StreamUnmarshaler", "encoding.BinaryUnmarshaler":
					for _, u := range codecUnmarshal {
						if u.Name() == call.Common().Method.Name() {
							add(cgEdge{fn, in, u, "codec"})
						}
					}
				case "fdo/cbor.Marshaler", "fdo/cbor.StreamMarshaler", "encoding.BinaryMarshaler":
					for _, m := range codecMarshal {
						if m.Name() == call.Common().Method.Name() {
							add(cgEdge{fn, in, m, "codec"})
						}
					}
				}
			}
		}
	}
	// callbacks: a call through a func-typed struct field may reach any
	// address-taken function of the module's non-harness packages whose
	// signature matches (type parameters match anything) — the library ships
	// implementations for its own configuration callbacks (package custom,
	// AllInOne) that no static edge reaches.
	var taken []*ssa.Function
	seenTaken := map[*ssa.Function]bool{}
	for _, fn := range p.Funcs {
		for _, b := range fn.Blocks {
			for _, in := range b.Instrs {
				var f *ssa.Function
				if mc, ok := in.(*ssa.MakeClosure); ok {
					f = p.body(mc.Fn.(*ssa.Function))
				} else {
					call, isCall := in.(ssa.CallInstruction)
					for _, op := range in.Operands(nil) {
						if g, ok := (*op).(*ssa.Function); ok && !(isCall && call.Common().Value == g) {
							f = p.body(g)
						}
					}
				}
				if f != nil && !seenTaken[f] && !isHarnessPkg(funcPkgPath(f)) && !isHarnessPkg(funcPkgPath(fn)) {
					seenTaken[f] = true
					taken = append(taken, f)
				}
			}
		}
	}
	sigMatch := func(a, b *types.Signature) bool {
		if a.Params().Len() != b.Params().Len() || a.Results().Len() != b.Results().Len() || a.Variadic() != b.Variadic() {
			return false
		}
		same := func(x, y types.Type) bool {
			if types.Identical(x, y) {
				return true
			}
			hasTP := func(t types.Type) bool {
				if pt, ok := t.(*types.Pointer); ok {
					t = pt.Elem()
				}
				_, ok := types.Unalias(t).(*types.TypeParam)
				return ok
			}
			return hasTP(x) || hasTP(y)
		}
		for i := 0; i < a.Params().Len(); i++ {
			if !same(a.Params().At(i).Type(), b.Params().At(i).Type()) {
				return false
			}
		}
		for i := 0; i < a.Results().Len(); i++ {
			if !same(a.Results().At(i).Type(), b.Results().At(i).Type()) {
				return false
			}
		}
		return true
	}
	for _, fn := range p.Funcs {
		for _, b := range fn.Blocks {
			for _, in := range b.Instrs {
				call, ok := in.(ssa.CallInstruction)
				if !ok || call.Common().IsInvoke() {
					continue
				}
				ld, ok := call.Common().Value.(*ssa.UnOp)
				if !ok {
					continue
				}
				if _, ok := ld.X.(*ssa.FieldAddr); !ok {
					continue
				}
				sig, ok := ld.Type().Underlying().(*types.Signature)
				if !ok {
					continue
				}
				for _, t := range taken {
					// closures carry their free variables separately: compare declared signatures
					if sigMatch(sig, t.Signature) {
						add(cgEdge{fn, in, t, "callback"})
					}
				}
			}
		}
	}
	for f := range cg.out {
		es := cg.out[f]
		sort.SliceStable(es, func(i, j int) bool { return es[i].Site.Pos() < es[j].Site.Pos() })
	}
	p.cg = cg
	return cg
}

func derefNamed(t types.Type) (*types.Named, bool) {
	if p, ok := t.(*types.Pointer); ok {
		t = p.Elem()
	}
	n, ok := types.Unalias(t).(*types.Named)
	return n, ok
}

// Reachable returns the set of module functions reachable from roots. skip
// (optional) prunes callees.
func (p *Prog) Reachable(roots []*ssa.Function, skip func(*ssa.Function) bool) map[*ssa.Function]bool {
	cg := p.CallGraph()
	seen := map[*ssa.Function]bool{}
	var stack []*ssa.Function
	for _, r := range roots {
		if r = p.body(r); r != nil && !seen[r] {
			seen[r] = true
			stack = append(stack, r)
		}
	}
	for len(stack) > 0 {
		f := stack[len(stack)-1]
		stack = stack[:len(stack)-1]
		for _, e := range cg.out[f] {
			if seen[e.Callee] || (skip != nil && skip(e.Callee)) {
				continue
			}
			seen[e.Callee] = true
			stack = append(stack, e.Callee)
		}
	}
	return seen
}
