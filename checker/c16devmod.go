package main

import (
	"fmt"
	"go/token"
	"go/types"
	"strings"

	"golang.org/x/tools/go/ssa"
)

// messageWrapperSize derives, from the struct type the device batches KVs into
// (a local struct with bool fields and one []*KV field in a function that calls
// ChunkReader.ReadChunk), the number of bytes of a message that are not
// available to KVs: 1 (array head) + 1 per bool + 3 (head of an array of up to
// 65535 KVs). -1 if no such struct is found.
func messageWrapperSize(p *Prog) int64 {
	need := int64(-1)
	for _, call := range p.callsTo("fdo/serviceinfo.ChunkReader.ReadChunk") {
		fn := call.Parent()
		if funcPkgPath(fn) != modulePath {
			continue
		}
		for _, b := range fn.Blocks {
			for _, in := range b.Instrs {
				al, ok := in.(*ssa.Alloc)
				if !ok {
					continue
				}
				st, ok := deref(al.Type()).Underlying().(*types.Struct)
				if !ok {
					continue
				}
				n, hasKV, okFields := int64(1), false, true
				for i := 0; i < st.NumFields(); i++ {
					switch u := st.Field(i).Type().Underlying().(type) {
					case *types.Basic:
						if u.Kind() == types.Bool {
							n++
						} else {
							okFields = false
						}
					case *types.Slice:
						if strings.HasSuffix(shortTypeString(u.Elem()), "serviceinfo.KV") {
							hasKV = true
							n += 3
						} else {
							okFields = false
						}
					default:
						okFields = false
					}
				}
				if hasKV && okFields && n > need {
					need = n
				}
			}
		}
	}
	return need
}

// c16DevmodBudget: the devmod writer decides how many module names go into one
// devmod:modules value by comparing a measured size with the size it was given.
// A value that does not fit one message is cut by the chunk reader, and the
// owner parses every message on its own, so the module list is lost. Hence:
// the size given to Devmod.Write derives from the negotiated size that the
// message loop receives; the constant taken off at the call site plus the
// constant added on the measured side of the writer's comparison covers the
// message wrapper; and the measured quantity is the package's own KV size.
func c16DevmodBudget(p *Prog, r *Result, f *Flow, root *ssa.Function) {
	r.rule("C16.devmod-mtu", "the size given to Devmod.Write derives from the negotiated MaxDeviceServiceInfoSize that the service-info exchange loop receives; what is taken off it at the call site plus what the devmod writer adds to the measured side of its fits-comparison is at least the message wrapper (derived from the message struct the device batches into), and the measured quantity is KV.Size / ArraySizeCBOR (or carries 4 more bytes for the KV framing)")
	r.floor("C16.devmod-mtu", 2)
	need := messageWrapperSize(p)
	if need < 0 {
		r.fail("C16.devmod-mtu: message struct not recognised")
		return
	}
	m := f.matcherFor(root)
	for _, b := range root.Blocks {
		for _, in := range b.Instrs {
			call, ok := in.(ssa.CallInstruction)
			if !ok || p.calleeOf(call.Common()).Name != "fdo/serviceinfo.Devmod.Write" {
				continue
			}
			callee := p.body(call.Common().StaticCallee())
			arg := allArgs(call)[3]
			c0, t0 := linear(arg, 0)
			// the single non-constant term, looking through max()/min() with a constant
			var rootV ssa.Value
			okShape := len(t0) == 1
			for v, k := range t0 {
				if k != 1 {
					okShape = false
				}
				rootV = v
			}
			if okShape {
				if bc, isCall := rootV.(*ssa.Call); isCall {
					if bi, isB := bc.Call.Value.(*ssa.Builtin); isB && (bi.Name() == "max" || bi.Name() == "min") {
						var nonConst []ssa.Value
						for _, a := range bc.Call.Args {
							if _, isC := constInt(intRootNoVar(a)); !isC {
								nonConst = append(nonConst, a)
							}
						}
						if len(nonConst) == 1 {
							rootV = intRootNoVar(nonConst[0])
						}
					}
				}
			}
			same := false
			if okShape {
				for _, b2 := range root.Blocks {
					for _, in2 := range b2.Instrs {
						c2, ok := in2.(*ssa.Call)
						if !ok || p.body(c2.Common().StaticCallee()) == nil || !callsNamed(p, p.body(c2.Common().StaticCallee()), "fdo/serviceinfo.ChunkReader.ReadChunk") {
							continue
						}
						for _, a := range c2.Common().Args {
							if a == rootV {
								same = true
							}
						}
					}
				}
			}
			n, _, src := m.ResultOf(rootV)
			reserved0 := -c0
			r.table(p, "C16.devmod-mtu", siteKey(p, call)+" (source)", p.instrPos(call), okShape && same && src != nil,
				fmt.Sprintf("size argument = (result of %s) - %d, and that result is also handed to the exchange loop=%v", n, reserved0, same))
			if callee == nil || !okShape {
				continue
			}
			// parameters / free variables of package serviceinfo that carry the size
			carries := map[ssa.Value]bool{callee.Params[3]: true}
			fns := map[*ssa.Function]bool{callee: true}
			for changed := true; changed; {
				changed = false
				for g := range fns {
					for _, bb := range g.Blocks {
						for _, ii := range bb.Instrs {
							switch x := ii.(type) {
							case ssa.CallInstruction:
								h := p.body(x.Common().StaticCallee())
								if h == nil || funcPkgPath(h) != funcPkgPath(callee) {
									continue
								}
								for i, a := range allArgs(x) {
									if i < len(h.Params) && carries[intRootNoVar(a)] && !carries[h.Params[i]] {
										carries[h.Params[i]] = true
										fns[h] = true
										changed = true
									}
								}
							case *ssa.MakeClosure:
								h, _ := x.Fn.(*ssa.Function)
								if h == nil {
									continue
								}
								for i, a := range x.Bindings {
									if i < len(h.FreeVars) && carries[intRootNoVar(a)] && !carries[h.FreeVars[i]] {
										carries[h.FreeVars[i]] = true
										fns[h] = true
										changed = true
									}
								}
							}
						}
					}
				}
			}
			k := 0
			var gs []*ssa.Function
			for g := range fns {
				gs = append(gs, g)
			}
			sortFuncs(p, gs)
			for _, g := range gs {
				for _, bb := range g.Blocks {
					ifi, ok := bb.Instrs[len(bb.Instrs)-1].(*ssa.If)
					if !ok {
						continue
					}
					bo, ok := condRoot(ifi.Cond).(*ssa.BinOp)
					if !ok {
						continue
					}
					var x, y ssa.Value
					strict := false
					switch bo.Op {
					case token.LSS:
						x, y, strict = bo.X, bo.Y, true
					case token.LEQ:
						x, y = bo.X, bo.Y
					case token.GTR:
						x, y, strict = bo.Y, bo.X, true
					case token.GEQ:
						x, y = bo.Y, bo.X
					default:
						continue
					}
					// D = y - x
					dc, dt := linear(y, 0)
					xc, xt := linear(x, 0)
					dc -= xc
					for v, c := range xt {
						dt[v] -= c
					}
					coef := int64(0)
					var measured []ssa.Value
					for v, c := range dt {
						if c == 0 {
							continue
						}
						if carries[v] {
							coef += c
						} else {
							measured = append(measured, v)
						}
					}
					if (coef != 1 && coef != -1) || len(measured) == 0 {
						continue // not a fits-comparison (e.g. a plain lower bound on the size)
					}
					var K int64
					if coef == 1 {
						K = -dc
						if strict {
							K++
						}
					} else {
						K = dc
						if !strict {
							K++
						}
					}
					viaKV := true
					for _, v := range measured {
						c, isCall := v.(*ssa.Call)
						if !isCall {
							viaKV = false
							continue
						}
						if nm := p.calleeOf(c.Common()).Name; nm != "fdo/serviceinfo.KV.Size" && nm != "fdo/serviceinfo.ArraySizeCBOR" {
							viaKV = false
						}
					}
					want := need
					if !viaKV {
						want += 4
					}
					k++
					r.table(p, "C16.devmod-mtu", fmt.Sprintf("fits-comparison #%d in %s", k, p.FuncName(g)), p.instrPos(ifi), reserved0+K >= want,
						fmt.Sprintf("call site reserves %d, comparison adds %d to the measured side, measured with KV.Size/ArraySizeCBOR=%v; needs %d", reserved0, K, viaKV, want))
				}
			}
			if k == 0 {
				r.fail("C16.devmod-mtu: no fits-comparison against the size found in the devmod writer")
			}
		}
	}
}
