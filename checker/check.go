package main

// Check framework: obligations, results, evidence, known findings, CLI glue.

import (
	"encoding/json"
	"fmt"
	"os"
	"path/filepath"
	"sort"
	"strings"
	"time"

	"golang.org/x/tools/go/ssa"
)

// Obl is one evaluated obligation.
type Obl struct {
	Rule      string   `json:"rule"`
	Construct string   `json:"construct"` // stable key: rule + function + callee/field (never a line number)
	Pos       string   `json:"pos"`
	Config    string   `json:"config,omitempty"`
	Required  []string `json:"required,omitempty"`
	Found     []string `json:"found,omitempty"`
	Missing   []string `json:"missing,omitempty"`
	OK        bool     `json:"ok"`
	Detail    string   `json:"detail,omitempty"`
	Trivial   bool     `json:"-"` // no required atom / no compared row
}

// Result collects what a property check did.
type Result struct {
	Prop      string
	Obls      []Obl
	Fails     []string // machinery failures: unresolved anchor, vacuous rule, undecided
	Notes     []string
	Functions map[string]bool
	Packages  map[string]bool
	Configs   []string
	Rules     map[string]string // rule id -> description
	floors    map[string]int
	curConfig string
}

func newResult(prop string) *Result {
	return &Result{Prop: prop, Functions: map[string]bool{}, Packages: map[string]bool{}, Rules: map[string]string{}, floors: map[string]int{}}
}

func (r *Result) fail(format string, a ...any) {
	r.Fails = append(r.Fails, fmt.Sprintf(format, a...))
}

func (r *Result) note(format string, a ...any) {
	r.Notes = append(r.Notes, fmt.Sprintf(format, a...))
}

func (r *Result) rule(id, doc string) { r.Rules[id] = doc }

// floor records the minimum number of instances of a rule confirmed by
// reading today's tree; fewer instances is a vacuity failure.
func (r *Result) floor(rule string, n int) { r.floors[rule] = n }

func (r *Result) add(o Obl) {
	sort.Strings(o.Required)
	sort.Strings(o.Found)
	sort.Strings(o.Missing)
	r.Obls = append(r.Obls, o)
	if f := os.Getenv("FDOCHECK_DEBUG_OBL"); f != "" && strings.Contains(o.Construct, f) {
		fmt.Printf("OBL ok=%v %s @ %s :: %s\n", o.OK, o.Construct, o.Pos, o.Detail)
	}
}

func (r *Result) checkFloors() {
	counts := map[string]int{}
	first := ""
	for _, o := range r.Obls {
		if first == "" {
			first = o.Config
		}
		if o.Config == first || o.Config == "" {
			counts[o.Rule]++ // floors are per build configuration
		}
	}
	var rules []string
	for rule := range r.floors {
		rules = append(rules, rule)
	}
	sort.Strings(rules)
	for _, rule := range rules {
		// The registered floor is the instance count confirmed by reading the
		// tree. Refactorings that merge duplicated code (four identical error
		// tails into one helper, two copies of a lookup into one method)
		// legitimately lower the count, so the check fails only when the count
		// drops below half of it (and never accepts zero): that still catches a
		// rule that has gone vacuous without alarming on de-duplication.
		need := (r.floors[rule] + 1) / 2
		if need < 1 {
			need = 1
		}
		if counts[rule] < need {
			r.fail("vacuity: rule %s matched %d instance(s), expected at least %d (half of the %d confirmed on the reviewed tree; anchor moved or renamed? update the rule table after reading the code)", rule, counts[rule], need, r.floors[rule])
		}
	}
}

func (r *Result) useFlow(f *Flow) {
	for _, fn := range f.Order {
		r.Functions[f.P.FuncName(fn)] = true
		if fn.Pkg != nil {
			r.Packages[fn.Pkg.Pkg.Path()] = true
		} else if fn.Parent() != nil && fn.Parent().Pkg != nil {
			r.Packages[fn.Parent().Pkg.Pkg.Path()] = true
		}
	}
}

// siteKey builds the stable construct key of a call site: caller, callee and
// the ordinal of that callee within the caller.
func siteKey(p *Prog, call ssa.CallInstruction) string {
	fn := call.Parent()
	name := p.calleeOf(call.Common()).Name
	k := 0
	for _, b := range fn.Blocks {
		for _, in := range b.Instrs {
			if c, ok := in.(ssa.CallInstruction); ok {
				if c == call {
					return fmt.Sprintf("%s -> %s #%d", p.FuncName(fn), name, k)
				}
				if p.calleeOf(c.Common()).Name == name {
					k++
				}
			}
		}
	}
	return fmt.Sprintf("%s -> %s", p.FuncName(fn), name)
}

// requireAtSites adds one obligation per site: all atoms in req must hold
// immediately before the site on every path from the flow's roots.
func (r *Result) requireAtSites(f *Flow, rule string, sites []ssa.CallInstruction, req []Atom) {
	for _, call := range sites {
		st := f.StateAt(call)
		o := Obl{Rule: rule, Construct: rule + " | " + siteKey(f.P, call), Pos: f.P.instrPos(call), Config: f.P.Config.Name,
			Required: append([]string(nil), req...), Found: st.list(), OK: true, Trivial: len(req) == 0}
		if st.top {
			o.Detail = "site is unreachable in the region (dead code)"
		}
		for _, a := range req {
			if !st.Has(a) {
				o.OK = false
				o.Missing = append(o.Missing, a)
			}
		}
		if !o.OK {
			var leaves []string
			for _, a := range o.Missing {
				leaves = append(leaves, missingLeaves(f, st, a, 0)...)
			}
			o.Detail = "missing underived atoms: " + strings.Join(leaves, ", ") + ". " + r.explain(f, call.Parent(), call.Block(), leaves)
		}
		r.add(o)
	}
}

// missingLeaves expands a missing derived atom into the underived atoms that
// are absent (choosing, per head, the derivation with the fewest gaps).
func missingLeaves(f *Flow, st AtomSet, a Atom, depth int) []string {
	var best []string
	found := false
	for _, d := range f.RS.Derive {
		if d.Head != a {
			continue
		}
		var gaps []string
		for _, b := range d.Body {
			if !st.Has(b) {
				if depth < 4 {
					gaps = append(gaps, missingLeaves(f, st, b, depth+1)...)
				} else {
					gaps = append(gaps, b)
				}
			}
		}
		if !found || len(gaps) < len(best) {
			best, found = gaps, true
		}
	}
	if !found {
		return []string{a}
	}
	return best
}

func (r *Result) explain(f *Flow, fn *ssa.Function, blk *ssa.BasicBlock, missing []string) string {
	var sb strings.Builder
	root := "?"
	if len(f.Roots) > 0 {
		root = f.P.FuncName(f.Roots[0])
	}
	for _, a := range missing {
		gens := f.GenSites(a)
		fmt.Fprintf(&sb, "[entry %s] atom %q not established on every path to this site; ", root, a)
		if len(gens) == 0 {
			sb.WriteString("no edge in the region generates it; ")
		} else {
			fmt.Fprintf(&sb, "generated at: %s; ", strings.Join(gens, ", "))
		}
		if path := f.PathAvoiding(fn, blk, a); path != nil {
			fmt.Fprintf(&sb, "path in %s avoiding it: %s; ", f.P.FuncName(fn), strings.Join(path, " > "))
		} else if !f.ctx[fn].Has(a) {
			var callers []string
			for _, e := range f.P.CallGraph().in[fn] {
				if f.Region[e.Caller] && !f.StateAt(e.Site).Has(a) {
					callers = append(callers, f.P.instrPos(e.Site)+" ("+f.P.FuncName(e.Caller)+")")
				}
			}
			sort.Strings(callers)
			fmt.Fprintf(&sb, "missing in the calling context of %s, call sites lacking it: %s; ", f.P.FuncName(fn), strings.Join(callers, ", "))
		}
	}
	return strings.TrimSpace(sb.String())
}

// requireAtReturns adds one obligation per success return of fn.
func (r *Result) requireAtReturns(f *Flow, rule string, fn *ssa.Function, errIdx int, req []Atom) {
	body := f.P.body(fn)
	if body == nil || !f.Region[body] {
		r.fail("rule %s: function %s is not in the analysed region", rule, f.P.FuncName(fn))
		return
	}
	for i, sr := range f.successReturns(body, errIdx) {
		o := Obl{Rule: rule, Construct: fmt.Sprintf("%s | success return #%d of %s", rule, i, f.P.FuncName(body)), Pos: f.P.instrPos(sr.Ret), Config: f.P.Config.Name,
			Required: append([]string(nil), req...), Found: sr.State.list(), OK: true, Trivial: len(req) == 0}
		for _, a := range req {
			if !sr.State.Has(a) {
				o.OK = false
				o.Missing = append(o.Missing, a)
			}
		}
		if !o.OK {
			var leaves []string
			for _, a := range o.Missing {
				leaves = append(leaves, missingLeaves(f, sr.State, a, 0)...)
			}
			o.Detail = "missing underived atoms: " + strings.Join(leaves, ", ") + ". " + r.explain(f, body, sr.Ret.Block(), leaves)
		}
		r.add(o)
	}
}

// table adds a structural (E2) obligation.
func (r *Result) table(p *Prog, rule, construct, pos string, ok bool, detail string) {
	o := Obl{Rule: rule, Construct: rule + " | " + construct, Pos: pos, OK: ok, Detail: detail}
	if p != nil {
		o.Config = p.Config.Name
	}
	r.add(o)
}

// ---- known findings ---------------------------------------------------------

type Finding struct {
	Property  string `json:"property"`
	Rule      string `json:"rule"`
	Construct string `json:"construct"`
	Status    string `json:"status"` // known | fixed
	Commit    string `json:"commit,omitempty"`
	What      string `json:"what"`
}

func loadFindings(path string) ([]Finding, error) {
	b, err := os.ReadFile(path)
	if err != nil {
		return nil, err
	}
	var doc struct {
		Findings []Finding `json:"findings"`
	}
	if err := json.Unmarshal(b, &doc); err != nil {
		return nil, err
	}
	return doc.Findings, nil
}

// ---- evidence -----------------------------------------------------------------

type runInfo struct {
	Tier    string
	Seed    int
	Start   time.Time
	VerifD  string
	RepoD   string
	Cmd     string
	NoWrite bool
}

// finish writes evidence, prints KNOWN-FINDING / VIOLATION lines and returns
// the process exit code.
func finish(r *Result, ri runInfo, findings []Finding) int {
	r.checkFloors()
	known := map[string]Finding{}
	for _, f := range findings {
		if f.Property == r.Prop && f.Status == "known" {
			known[f.Construct] = f
		}
	}
	type sample struct {
		Rule      string   `json:"rule"`
		Construct string   `json:"construct"`
		Pos       string   `json:"pos"`
		Required  []string `json:"required,omitempty"`
		Found     []string `json:"found,omitempty"`
		OK        bool     `json:"ok"`
		Detail    string   `json:"detail,omitempty"`
	}
	distinct := map[string]bool{}
	discharged := 0
	var viol, knownHit []Obl
	seenViol := map[string]bool{}
	for _, o := range r.Obls {
		if !o.Trivial {
			distinct[o.Construct] = true
		}
		if o.OK {
			discharged++
			continue
		}
		if _, ok := known[o.Construct]; ok {
			knownHit = append(knownHit, o)
			continue
		}
		if !seenViol[o.Construct+"|"+o.Config] {
			seenViol[o.Construct+"|"+o.Config] = true
			viol = append(viol, o)
		}
	}
	// samples: up to 12, violations first, then a spread of discharged ones
	var samples []sample
	addSample := func(o Obl) {
		if len(samples) < 12 {
			samples = append(samples, sample{o.Rule, o.Construct, o.Pos, o.Required, o.Found, o.OK, o.Detail})
		}
	}
	for _, o := range viol {
		addSample(o)
	}
	perRule := map[string]int{}
	for _, o := range r.Obls {
		if o.OK && perRule[o.Rule] < 2 {
			perRule[o.Rule]++
			addSample(o)
		}
	}
	ruleCounts := map[string]int{}
	for _, o := range r.Obls {
		ruleCounts[o.Rule]++
	}
	var fnames, pnames []string
	for n := range r.Functions {
		fnames = append(fnames, n)
	}
	sort.Strings(fnames)
	for n := range r.Packages {
		pnames = append(pnames, n)
	}
	sort.Strings(pnames)
	var ruleDocs []string
	for id, d := range r.Rules {
		ruleDocs = append(ruleDocs, fmt.Sprintf("%s: %s [%d instance(s)]", id, d, ruleCounts[id]))
	}
	sort.Strings(ruleDocs)
	var kf []string
	printed := map[string]bool{}
	for _, o := range knownHit {
		line := fmt.Sprintf("KNOWN-FINDING: property=%s %s at %s — %s", r.Prop, o.Construct, o.Pos, known[o.Construct].What)
		kf = append(kf, line)
		if !printed[o.Construct] {
			printed[o.Construct] = true
			fmt.Println(line)
		}
	}

	exit := 0
	if len(r.Fails) > 0 {
		exit = 2
		for _, f := range r.Fails {
			fmt.Printf("CHECK-FAILURE property=%s %s\n", r.Prop, f)
		}
	}
	vdir := filepath.Join(ri.VerifD, "evidence", "violations")
	if !ri.NoWrite {
		_ = os.MkdirAll(vdir, 0o755)
		old, _ := filepath.Glob(filepath.Join(vdir, r.Prop+"-*.json"))
		for _, f := range old {
			_ = os.Remove(f)
		}
	}
	for i, o := range viol {
		path := filepath.Join(vdir, fmt.Sprintf("%s-%d.json", r.Prop, i+1))
		if !ri.NoWrite {
			b, _ := json.MarshalIndent(map[string]any{"property": r.Prop, "tier": ri.Tier, "obligation": o, "repo": ri.RepoD}, "", " ")
			_ = os.WriteFile(path, b, 0o644)
		}
		fmt.Printf("VIOLATION property=%s replay=%s\n", r.Prop, path)
		fmt.Printf("  rule=%s\n  construct=%s\n  at=%s [%s]\n  missing=%v\n  %s\n", o.Rule, o.Construct, o.Pos, o.Config, o.Missing, o.Detail)
		exit = 1
	}

	ev := map[string]any{
		"property_id": r.Prop,
		"tier":        ri.Tier,
		"seed":        ri.Seed,
		"level":       "other",
		"wall_s":      time.Since(ri.Start).Seconds(),
		"violations":  len(viol),
		"coverage": map[string]any{
			"explanation":         explanations[r.Prop],
			"evaluations":         len(r.Obls),
			"distinct_nontrivial": len(distinct),
			"rule":                "one obligation per (rule, construct, build configuration); constructs are call sites, success returns, stores, composite-literal fields or table rows found by scanning the type-checked SSA program of /repo's working tree; an obligation is non-trivial when it requires at least one atom or compares at least one table row; distinct = distinct rule+construct keys",
			"obligations":         len(r.Obls),
			"discharged":          discharged,
			"known_findings":      kf,
			"machinery_failures":  r.Fails,
			"rules":               ruleDocs,
			"samples":             samples,
			"packages":            pnames,
			"functions_analysed":  len(fnames),
			"functions":           fnames,
			"build_configs":       r.Configs,
			"notes":               r.Notes,
			"checker_cmd":         ri.Cmd,
			"not_analysed":        []string{"module ./examples (does not load offline; outside the pinned test command)", "module ./tpm (hardware glue; no anchor of any property)"},
			"trusted_base":        []string{"go/types, go/ssa (golang.org/x/tools v0.29.0)", "the rule tables in /verif/checker (atoms, anchors, floors)", "stdlib crypto primitives and comparison functions behave as documented"},
			"exhaustive":          true,
		},
		"assumptions": []string{
			"a named check computes the right function of its operands (hash over the right bytes, sound signature scheme); only operand provenance is checked",
			"atoms are never killed: a variable checked and then overwritten before use is not detected",
			"values read back from the state store and caller-supplied configuration are not attacker-controlled",
		},
	}
	if !ri.NoWrite {
		b, _ := json.MarshalIndent(ev, "", " ")
		_ = os.MkdirAll(filepath.Join(ri.VerifD, "evidence"), 0o755)
		if err := os.WriteFile(filepath.Join(ri.VerifD, "evidence", r.Prop+".json"), b, 0o644); err != nil {
			fmt.Printf("CHECK-FAILURE property=%s cannot write evidence: %v\n", r.Prop, err)
			exit = 2
		}
	}
	fmt.Printf("%s %s: %d obligations (%d distinct non-trivial), %d discharged, %d known finding(s), %d violation(s), %d machinery failure(s), %d functions, %.1fs\n",
		r.Prop, ri.Tier, len(r.Obls), len(distinct), discharged, len(knownHit), len(viol), len(r.Fails), len(fnames), time.Since(ri.Start).Seconds())
	return exit
}

var explanations = map[string]string{}

func (r *Result) hasConstruct(rule, construct string) bool {
	key := rule + " | " + construct
	for _, o := range r.Obls {
		if o.Construct == key && o.Config == r.curConfig {
			return true
		}
	}
	return false
}
