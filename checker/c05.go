package main

import (
	"fmt"
	"go/constant"
	"go/types"
	"strconv"
	"strings"

	"golang.org/x/tools/go/ssa"
)

// C05 — TO2 messages after ProveDevice are confidential and tamper-evident.

func init() {
	checks["C05"] = checkC05
	explanations["C05"] = "Structural necessary conditions (E1 must-pass + E2 tables): (1) in http.Handler the response body is CBOR-encoded only on paths where respType<=64, respType>=255 or Session.Encrypt err==nil (and the encoded value derives from Encrypt), (2) Responder.Respond is invoked only where msgType<=64, msgType>=255 or Session.Decrypt err==nil (and the decrypted bytes are what is passed on); (3) every Transport.Send site of the device/owner client roles passes a real session for types 66/68/70, kex.DecryptOnly for 64 and nil otherwise, and http.Transport encrypts before encoding / decrypts before returning whenever a session is given; (4) SessionCrypter.Decrypt reaches Encrypt0.Decrypt only if the suite has no MAC algorithm or Mac0.Digest err==nil and the received tag equals the recomputed tag; (5) Encrypt0.Decrypt succeeds only after the header algorithm equals the expected one and Crypter.Decrypt err==nil; (6) every Crypter.Encrypt implementation fills a freshly made IV buffer completely from its rand argument and uses exactly that buffer for the cipher and the IV header. The message-type constants are read from package protocol. Also: a byte slice zeroed by a non-deferred clear() is never read afterwards in the key-exchange, COSE, http and protocol packages (keys are not derived from zeroed secrets), and Mac0.Digest stores the recomputed tag as Sum(nil), a fresh buffer that cannot alias the received tag. Not decided: secrecy of keys, bit-flip coverage inside AES/HMAC, replay across sessions beyond per-session keys."
}

// constOf reads an integer constant from a module package.
func (p *Prog) constOf(pkgShortName, name string) (int64, bool) {
	for _, pk := range p.Pkgs {
		if pkgShort(pk.PkgPath) != pkgShortName {
			continue
		}
		if c, ok := pk.Types.Scope().Lookup(name).(*types.Const); ok {
			if v, ok := constant.Int64Val(constant.ToInt(c.Val())); ok {
				return v, true
			}
		}
	}
	return 0, false
}

func c05Rules(p *Prog, r *Result) *RuleSet {
	lo, ok1 := p.constOf("fdo/protocol", "TO2ProveDeviceMsgType")
	hi, ok2 := p.constOf("fdo/protocol", "ErrorMsgType")
	if !ok1 || !ok2 {
		r.fail("protocol constants TO2ProveDeviceMsgType / ErrorMsgType not found")
	}
	respType := resultOfCall(named("fdo/protocol.Responder.Respond"), 0)
	u8param := func(m *Matcher, v ssa.Value) bool {
		pr, ok := v.(*ssa.Parameter)
		return ok && pr.Type().Underlying().String() == "uint8"
	}
	// NOT(lo < x): x <= lo ; NOT(x < hi): x >= hi
	leLo := func(name Atom, px func(*Matcher, ssa.Value) bool) AtomDef {
		return AtomDef{Name: name, Doc: fmt.Sprintf("message type <= %d (plaintext part of TO2 or another protocol)", lo), Edge: func(m *Matcher, pd Pred, holds bool) bool {
			switch pd.Kind {
			case "lt": // lo < x is false
				return !holds && isConstInt(pd.X, lo) && px(m, pd.Y)
			case "le": // x <= lo holds
				return holds && isConstInt(pd.Y, lo) && px(m, pd.X)
			}
			return false
		}}
	}
	geHi := func(name Atom, px func(*Matcher, ssa.Value) bool) AtomDef {
		return AtomDef{Name: name, Doc: fmt.Sprintf("message type >= %d (error message)", hi), Edge: func(m *Matcher, pd Pred, holds bool) bool {
			switch pd.Kind {
			case "lt": // x < hi is false
				return !holds && isConstInt(pd.Y, hi) && px(m, pd.X)
			case "le": // hi <= x holds
				return holds && isConstInt(pd.X, hi) && px(m, pd.Y)
			case "eq":
				return holds && ((isConstInt(pd.Y, hi) && px(m, pd.X)) || (isConstInt(pd.X, hi) && px(m, pd.Y)))
			}
			return false
		}}
	}
	sessParam := func(m *Matcher, v ssa.Value) bool {
		pr, ok := v.(*ssa.Parameter)
		return ok && typeShort(pr.Type()) == "fdo/kex.Session"
	}
	macValue := hasProv("field:fdo/cose.Mac0.Value")
	// "plain": a uint8 value was found outside the tunnelled range (<= lo or
	// >= hi). Kept per value so that a classification helper such as
	// `func isTunneled(t uint8) bool` carries over to the value it was given.
	plain := AtomDef{Name: "plain", EdgeDyn: func(m *Matcher, pd Pred, holds bool) []Atom {
		isU8 := func(v ssa.Value) bool { return v.Type().Underlying().String() == "uint8" }
		var x ssa.Value
		switch pd.Kind {
		case "lt":
			if !holds && isConstInt(pd.X, lo) && isU8(pd.Y) { // !(lo < x)
				x = pd.Y
			}
			if !holds && isConstInt(pd.Y, hi) && isU8(pd.X) { // !(x < hi)
				x = pd.X
			}
		case "le":
			if holds && isConstInt(pd.Y, lo) && isU8(pd.X) { // x <= lo
				x = pd.X
			}
			if holds && isConstInt(pd.X, hi) && isU8(pd.Y) { // hi <= x
				x = pd.Y
			}
		case "eq":
			if holds && isConstInt(pd.Y, hi) && isU8(pd.X) {
				x = pd.X
			}
			if holds && isConstInt(pd.X, hi) && isU8(pd.Y) {
				x = pd.Y
			}
		}
		if x == nil {
			return nil
		}
		return []Atom{Atom("v:plain:" + canon(x))}
	}}
	translate := func(m *Matcher, fact Atom, ops []ssa.Value) []Atom {
		if !strings.HasPrefix(fact, "v:plain:$") {
			return nil
		}
		i, err := strconv.Atoi(fact[len("v:plain:$"):])
		if err != nil || i >= len(ops) {
			return nil
		}
		var out []Atom
		if respType(m, ops[i]) {
			out = append(out, "resp-plain")
		}
		if u8param(m, ops[i]) {
			out = append(out, "req-plain")
		}
		return out
	}
	return &RuleSet{
		Translate: translate,
		Atoms: []AtomDef{
			plain,
			// handler, outbound
			leLo("resp-le-lo", respType), geHi("resp-ge-hi", respType),
			errNil("srv-encrypt-ok", "Session.Encrypt of the responder's result returned no error", named("fdo/kex.Session.Encrypt"),
				func(m *Matcher, _ ssa.CallInstruction, args []ssa.Value) bool {
					return len(args) == 3 && m.Prov(args[2]).Has("call:fdo/protocol.Responder.Respond")
				}),
			// handler, inbound
			leLo("req-le-lo", u8param), geHi("req-ge-hi", u8param),
			errNil("srv-decrypt-ok", "Session.Decrypt of the request body returned no error", named("fdo/kex.Session.Decrypt"), nil),
			// http.Transport
			isNil("sess-nil", "no session was given (plaintext phase)", sessParam),
			errNil("cli-encrypt-ok", "Session.Encrypt of the outgoing message returned no error", named("fdo/kex.Session.Encrypt"),
				func(m *Matcher, _ ssa.CallInstruction, args []ssa.Value) bool {
					return len(args) == 3 && sessParam(m, args[0])
				}),
			errNil("cli-decrypt-ok", "Session.Decrypt of the response body returned no error", named("fdo/kex.Session.Decrypt"),
				func(m *Matcher, _ ssa.CallInstruction, args []ssa.Value) bool {
					return len(args) == 3 && sessParam(m, args[0])
				}),
			geHi("resp-is-error", func(m *Matcher, v ssa.Value) bool { return v.Type().Underlying().String() == "uint8" }),
			// SessionCrypter.Decrypt
			AtomDef{Name: "macalg-zero", Doc: "the negotiated suite has no MAC algorithm (AEAD)", Edge: func(m *Matcher, pd Pred, holds bool) bool {
				if pd.Kind != "eq" || !holds {
					return false
				}
				x, c := pd.X, pd.Y
				if !isConstInt(c, 0) {
					x, c = pd.Y, pd.X
				}
				return isConstInt(c, 0) && m.Prov(x).Has("field:fdo/kex.CipherSuite.MacAlg") && m.Prov(x).Has("field:fdo/kex.SessionCrypter.Cipher")
			}},
			errNil("mac-digest-ok", "Mac0.Digest with the session's verification key returned no error", named("fdo/cose.Mac0.Digest"),
				func(m *Matcher, _ ssa.CallInstruction, args []ssa.Value) bool {
					return len(args) >= 3 && m.Prov(args[2]).Has("field:fdo/kex.SessionCrypter.SVK") && m.Prov(args[1]).Has("field:fdo/kex.CipherSuite.MacAlg")
				}),
			AtomDef{Name: "mac-eq", Doc: "received MAC tag (read before Digest) equals the recomputed tag (read after Digest)", Edge: func(m *Matcher, pd Pred, holds bool) bool {
				a, b, ok := eqOperands(m, pd, holds)
				if !ok || a == b || !macValue(m, a) || !macValue(m, b) {
					return false
				}
				return loadsStraddle(m, a, b, "fdo/cose.Mac0.Digest")
			}},
			// Encrypt0.Decrypt
			equal("hdr-alg-eq", "algorithm parsed from the message header equals the expected algorithm",
				provAnd(decoded, lacksProv("param:1")), func(m *Matcher, v ssa.Value) bool {
					pr, ok := v.(*ssa.Parameter)
					return ok && typeShort(pr.Type()) == "fdo/cose.EncryptAlgorithm"
				}),
			errNil("crypter-decrypt-ok", "Crypter.Decrypt returned no error", named("fdo/cose.Crypter.Decrypt"), nil),
		},
		Derive: []Derivation{
			{"tunnel-out", []Atom{"resp-le-lo"}}, {"tunnel-out", []Atom{"resp-ge-hi"}}, {"tunnel-out", []Atom{"srv-encrypt-ok"}}, {"tunnel-out", []Atom{"resp-plain"}},
			{"tunnel-in", []Atom{"req-le-lo"}}, {"tunnel-in", []Atom{"req-ge-hi"}}, {"tunnel-in", []Atom{"srv-decrypt-ok"}}, {"tunnel-in", []Atom{"req-plain"}},
			{"client-out", []Atom{"sess-nil"}}, {"client-out", []Atom{"cli-encrypt-ok"}},
			{"client-in", []Atom{"sess-nil"}}, {"client-in", []Atom{"resp-is-error"}}, {"client-in", []Atom{"cli-decrypt-ok"}},
			{"authenticated", []Atom{"macalg-zero"}}, {"authenticated", []Atom{"mac-digest-ok", "mac-eq"}},
		},
	}
}

// loadsStraddle: a and b are loads such that a call to callee lies between
// them (one load is before the call, the other after it).
func loadsStraddle(m *Matcher, a, b ssa.Value, callee string) bool {
	ia, ok1 := a.(ssa.Instruction)
	ib, ok2 := b.(ssa.Instruction)
	if !ok1 || !ok2 {
		return false
	}
	before := func(x, y ssa.Instruction) bool { // x executes before y on every path to y
		if x.Block() == y.Block() {
			for _, in := range x.Block().Instrs {
				if in == x {
					return true
				}
				if in == y {
					return false
				}
			}
		}
		return x.Block().Dominates(y.Block())
	}
	for _, blk := range m.Fn.Blocks {
		for _, in := range blk.Instrs {
			c, ok := in.(*ssa.Call)
			if !ok || m.P.calleeOf(c.Common()).Name != callee {
				continue
			}
			if (before(ia, c) && before(c, ib)) || (before(ib, c) && before(c, ia)) {
				return true
			}
		}
	}
	return false
}

func checkC05(c *Ctx, p *Prog, r *Result) {
	rs := c05Rules(p, r)
	get := func(n string) *ssa.Function {
		fn := p.ByName[n]
		if fn == nil {
			r.fail("anchor %s not found", n)
		}
		return fn
	}

	clearUseRule(p, r, "C05.no-use-after-clear", []string{modulePath, modulePath + "/kex", modulePath + "/cose", modulePath + "/http"}, 15)

	// (1)+(2) server side
	if root := get("fdo/http.Handler.ServeHTTP"); root != nil {
		f := NewFlow(p, rs, []*ssa.Function{root}, nil)
		r.useFlow(f)
		dumpFlow(f)
		r.rule("C05.server-out", "in http.Handler, CBOR-encoding the responder's result into the response body requires tunnel-out (respType<=64 | respType>=255 | Session.Encrypt err==nil) and the encoded value derives from Session.Encrypt")
		r.floor("C05.server-out", 1)
		enc := f.CallSites(func(cal Callee, call ssa.CallInstruction) bool {
			if cal.Name != "fdo/cbor.Encoder.Encode" || !strings.HasPrefix(p.FuncName(call.Parent()), "fdo/http.") {
				return false
			}
			return f.matcherFor(call.Parent()).Prov(allArgs(call)[1]).HasLocal("call:fdo/protocol.Responder.Respond")
		})
		r.requireAtSites(f, "C05.server-out", enc, []Atom{"tunnel-out"})
		r.rule("C05.server-out-value", "the value encoded into the response body derives from Session.Encrypt (the ciphertext, not the plaintext, is what is written)")
		r.floor("C05.server-out-value", 1)
		for _, call := range enc {
			pv := f.matcherFor(call.Parent()).Prov(allArgs(call)[1])
			r.table(p, "C05.server-out-value", siteKey(p, call), p.instrPos(call), pv.Has("call:fdo/kex.Session.Encrypt"), "provenance: "+joinMax(pv.List(), 8))
		}
		r.rule("C05.server-in", "Responder.Respond is invoked only under tunnel-in (msgType<=64 | msgType>=255 | Session.Decrypt err==nil)")
		r.floor("C05.server-in", 1)
		resp := f.CallSites(func(cal Callee, _ ssa.CallInstruction) bool { return cal.Name == "fdo/protocol.Responder.Respond" })
		r.requireAtSites(f, "C05.server-in", resp, []Atom{"tunnel-in"})
		r.rule("C05.server-in-value", "in the function that decrypts the request, the reader handed on towards Respond derives from Session.Decrypt")
		r.floor("C05.server-in-value", 1)
		for _, dec := range f.CallSites(func(cal Callee, _ ssa.CallInstruction) bool { return cal.Name == "fdo/kex.Session.Decrypt" }) {
			fn := dec.Parent()
			if !strings.HasPrefix(p.FuncName(fn), "fdo/http.Handler") {
				continue
			}
			m := f.matcherFor(fn)
			ok := false
			for _, e := range p.CallGraph().out[fn] {
				call, isCall := e.Site.(ssa.CallInstruction)
				if !isCall || e.Kind != "static" {
					continue
				}
				for _, a := range allArgs(call) {
					if typeShort(a.Type()) == "io.Reader" || typeShort(a.Type()) == "io.ReadCloser" {
						if m.Prov(a).Has("call:fdo/kex.Session.Decrypt") {
							ok = true
						}
					}
				}
			}
			r.table(p, "C05.server-in-value", siteKey(p, dec), p.instrPos(dec), ok, "a reader argument of a later in-module call derives from the Decrypt result")
		}
	}

	// (3) client: http.Transport
	if root := get("fdo/http.Transport.Send"); root != nil {
		f := NewFlow(p, rs, []*ssa.Function{root}, nil)
		r.useFlow(f)
		dumpFlow(f)
		r.rule("C05.client-out", "http.Transport encodes the request body only if no session was given or Session.Encrypt err==nil, and encodes the Encrypt result")
		r.floor("C05.client-out", 1)
		enc := f.CallSites(func(cal Callee, call ssa.CallInstruction) bool {
			return cal.Name == "fdo/cbor.Encoder.Encode" && p.FuncName(call.Parent()) == "fdo/http.Transport.Send"
		})
		r.requireAtSites(f, "C05.client-out", enc, []Atom{"client-out"})
		for _, call := range enc {
			pv := f.matcherFor(call.Parent()).Prov(allArgs(call)[1])
			r.table(p, "C05.client-out", "value "+siteKey(p, call), p.instrPos(call), pv.Has("call:fdo/kex.Session.Encrypt"), "provenance: "+joinMax(pv.List(), 8))
		}
		r.rule("C05.client-in", "the response path of http.Transport returns a body only if no session was given, the response is an error message, or Session.Decrypt err==nil; the returned body derives from Decrypt")
		r.floor("C05.client-in", 1)
		for _, fn := range f.Order {
			if fn == root || !strings.HasPrefix(p.FuncName(fn), "fdo/http.Transport.") {
				continue
			}
			res := fn.Signature.Results()
			if res.Len() != 3 || !isErrorType(res.At(2).Type()) {
				continue
			}
			r.requireAtReturns(f, "C05.client-in", fn, 2, []Atom{"client-in"})
			m := f.matcherFor(fn)
			for i, sr := range f.successReturns(fn, 2) {
				pv := m.Prov(returnValue(sr.Ret, 1))
				plainOK := sr.State.Has("sess-nil") || sr.State.Has("resp-is-error") || (sr.State.Has("client-in") && !sr.State.Has("cli-decrypt-ok"))
				r.table(p, "C05.client-in", "value of success return #"+itoa(i)+" of "+p.FuncName(fn), p.instrPos(sr.Ret), pv.Has("call:fdo/kex.Session.Decrypt") || plainOK,
					fmt.Sprintf("body derives from Decrypt=%v, or returned on a path where no session was given / the message is an error=%v; provenance: %s", pv.Has("call:fdo/kex.Session.Decrypt"), plainOK, joinMax(pv.List(), 8)))
			}
		}
	}

	// (3) client: which session each protocol message is sent with
	c05SendTable(p, r)

	// (4) SessionCrypter.Decrypt
	if root := get("fdo/kex.SessionCrypter.Decrypt"); root != nil {
		f := NewFlow(p, rs, []*ssa.Function{root}, nil)
		r.useFlow(f)
		dumpFlow(f)
		r.rule("C05.authenticated-before-decrypt", "SessionCrypter.Decrypt calls Encrypt0.Decrypt only if the suite has no MAC algorithm, or Mac0.Digest(MacAlg, SVK) err==nil and the received tag equals the recomputed one; the key is SEK")
		r.floor("C05.authenticated-before-decrypt", 1)
		sites := f.CallSites(func(cal Callee, call ssa.CallInstruction) bool {
			return cal.Name == "fdo/cose.Encrypt0.Decrypt" && call.Parent() == root
		})
		r.requireAtSites(f, "C05.authenticated-before-decrypt", sites, []Atom{"authenticated"})
		for _, call := range sites {
			args := allArgs(call)
			m := f.matcherFor(root)
			ok := len(args) >= 3 && m.Prov(args[2]).Has("field:fdo/kex.SessionCrypter.SEK") && m.Prov(args[1]).Has("field:fdo/kex.CipherSuite.EncryptAlg")
			r.table(p, "C05.authenticated-before-decrypt", "key/alg of "+siteKey(p, call), p.instrPos(call), ok, "alg from the session's cipher suite, key = SEK")
		}
	}

	// (4b) the recomputed tag never shares storage with the received one
	if dg := get("fdo/cose.Mac0.Digest"); dg != nil {
		r.rule("C05.recomputed-tag-fresh", "every value Mac0.Digest stores into the tag field is the result of Sum(nil) — a fresh buffer — so the received tag a caller saved before calling Digest cannot be overwritten by the recomputation (the comparison would compare the tag with itself)")
		r.floor("C05.recomputed-tag-fresh", 1)
		for _, b := range dg.Blocks {
			for _, in := range b.Instrs {
				st, ok := in.(*ssa.Store)
				if !ok {
					continue
				}
				fa, ok := st.Addr.(*ssa.FieldAddr)
				if !ok || fieldName(fa.X.Type(), fa.Field) != "fdo/cose.Mac0.Value" {
					continue
				}
				okv, detail := freshSum(p, st.Val, 0)
				r.table(p, "C05.recomputed-tag-fresh", "store to Mac0.Value in "+p.FuncName(dg), p.instrPos(in), okv, detail)
			}
		}
	}

	// (5) Encrypt0.Decrypt
	if root := get("fdo/cose.Encrypt0.Decrypt"); root != nil {
		f := NewFlow(p, rs, []*ssa.Function{root}, nil)
		r.useFlow(f)
		dumpFlow(f)
		r.rule("C05.alg-pinned", "Encrypt0.Decrypt succeeds only after the header algorithm equals the expected algorithm and Crypter.Decrypt err==nil")
		r.floor("C05.alg-pinned", 1)
		r.requireAtReturns(f, "C05.alg-pinned", root, 1, []Atom{"hdr-alg-eq", "crypter-decrypt-ok"})
	}

	// (6) fresh IV per message
	c05FreshIV(p, r)
}

// c05SendTable classifies every Transport.Send call of the protocol roles.
func c05SendTable(p *Prog, r *Result) {
	r.rule("C05.send-session", "every Transport.Send site in package fdo: constant message type; types 66/68/70 carry a real session, 64 carries kex.DecryptOnly, all other types carry nil")
	r.floor("C05.send-session", 13)
	pd, _ := p.constOf("fdo/protocol", "TO2ProveDeviceMsgType")
	tunnel := map[int64]bool{}
	for _, n := range []string{"TO2DeviceServiceInfoReadyMsgType", "TO2DeviceServiceInfoMsgType", "TO2DoneMsgType"} {
		v, ok := p.constOf("fdo/protocol", n)
		if !ok {
			r.fail("constant protocol.%s not found", n)
		}
		tunnel[v] = true
	}
	for _, fn := range p.Funcs {
		if fn.Pkg == nil && fn.Parent() == nil {
			continue
		}
		name := p.FuncName(fn)
		if !strings.HasPrefix(name, "fdo.") {
			continue
		}
		for _, b := range fn.Blocks {
			for _, in := range b.Instrs {
				call, ok := in.(ssa.CallInstruction)
				if !ok || p.calleeOf(call.Common()).Name != "fdo.Transport.Send" {
					continue
				}
				args := allArgs(call) // transport, ctx, msgType, msg, sess
				typ, isConst := constInt(args[2])
				sess := stripConv(args[4])
				kind := "session"
				if c, ok := sess.(*ssa.Const); ok && c.IsNil() {
					kind = "nil"
				} else if strings.Contains(shortTypeString(sess.Type()), "kex.DecryptOnly") {
					kind = "DecryptOnly"
				} else if ld := loadOf(sess); ld != nil && strings.Contains(shortTypeString(ld.Type()), "kex.DecryptOnly") {
					kind = "DecryptOnly"
				}
				want := "nil"
				if tunnel[typ] {
					want = "session"
				} else if typ == pd {
					want = "DecryptOnly"
				}
				detail := fmt.Sprintf("type=%d session argument=%s expected=%s", typ, kind, want)
				if !isConst {
					detail = "message type is not a constant: undecided"
				}
				r.table(p, "C05.send-session", siteKey(p, call), p.instrPos(call), isConst && kind == want, detail)
			}
		}
	}
}

// c05FreshIV checks every implementation of cose.Crypter.Encrypt.
func c05FreshIV(p *Prog, r *Result) {
	r.rule("C05.fresh-iv", "every cose.Crypter.Encrypt implementation: the IV/nonce given to NewCTR / NewCBCEncrypter / AEAD.Seal is a buffer made in this call and filled completely (passed whole) from the rand parameter with err==nil on every path; the same buffer is stored under IvLabel")
	r.floor("C05.fresh-iv", 6)
	ivSinks := map[string]int{"crypto/cipher.NewCTR": 1, "crypto/cipher.NewCBCEncrypter": 1, "crypto/cipher.AEAD.Seal": 2}
	n := 0
	for _, fn := range p.Funcs {
		if fn.Name() != "Encrypt" || fn.Signature.Recv() == nil || fn.Pkg == nil || pkgShort(fn.Pkg.Pkg.Path()) != "fdo/cose" {
			continue
		}
		if fn.Signature.Params().Len() != 3 || typeShort(fn.Signature.Params().At(0).Type()) != "io.Reader" {
			continue
		}
		n++
		filled := map[ssa.Value]bool{}
		rs := &RuleSet{Atoms: []AtomDef{
			errNil("iv-filled", "the fresh IV buffer was filled from the rand parameter without error", named("io.ReadFull", "io.Reader.Read"),
				func(m *Matcher, call ssa.CallInstruction, args []ssa.Value) bool {
					if len(args) != 2 {
						return false
					}
					pr, ok := args[0].(*ssa.Parameter)
					if !ok || typeShort(pr.Type()) != "io.Reader" {
						return false
					}
					if _, ok := args[1].(*ssa.MakeSlice); !ok {
						return false
					}
					filled[args[1]] = true
					return true
				}),
		}}
		f := NewFlow(p, rs, []*ssa.Function{fn}, func(g *ssa.Function) bool { return g != fn })
		r.useFlow(f)
		sinks := f.CallSites(func(cal Callee, call ssa.CallInstruction) bool {
			_, ok := ivSinks[cal.Name]
			return ok && call.Parent() == fn
		})
		if len(sinks) == 0 {
			// the unimplemented CCM AEAD has no Encrypt of this shape; anything else is undecided
			r.fail("C05.fresh-iv: %s has no recognised cipher constructor / Seal call", p.FuncName(fn))
			continue
		}
		r.requireAtSites(f, "C05.fresh-iv", sinks, []Atom{"iv-filled"})
		for _, call := range sinks {
			iv := allArgs(call)[ivSinks[p.calleeOf(call.Common()).Name]]
			r.table(p, "C05.fresh-iv", "iv operand of "+siteKey(p, call), p.instrPos(call), filled[iv], "the IV operand is the very buffer handed whole to the rand fill")
		}
		// header
		hdr := false
		for _, b := range fn.Blocks {
			for _, in := range b.Instrs {
				if mu, ok := in.(*ssa.MapUpdate); ok {
					if p.matcher(fn).Prov(mu.Key).Has("global:fdo/cose.IvLabel") {
						hdr = filled[stripConv(mu.Value)]
						r.table(p, "C05.fresh-iv", "IvLabel header of "+p.FuncName(fn), p.instrPos(in), hdr, "the value stored under IvLabel is the filled buffer")
					}
				}
			}
		}
	}
	if n < 3 {
		r.fail("C05.fresh-iv: only %d Crypter.Encrypt implementations found, expected 3", n)
	}
}

// freshSum: v is hash.Sum(nil) / Sum(make(...)), or result 0 of a module
// function every return of which is such a value.
func freshSum(p *Prog, v ssa.Value, depth int) (bool, string) {
	if ex, ok := v.(*ssa.Extract); ok && ex.Index == 0 {
		v = ex.Tuple
	}
	call, ok := v.(*ssa.Call)
	if !ok || depth > 3 {
		return false, "stored value is not the result of a Sum call"
	}
	if call.Common().IsInvoke() && call.Common().Method.Name() == "Sum" && len(call.Common().Args) == 1 {
		if c, isC := call.Common().Args[0].(*ssa.Const); isC && c.IsNil() {
			return true, "Sum(nil): fresh buffer"
		}
		if _, isMk := call.Common().Args[0].(*ssa.MakeSlice); isMk {
			return true, "Sum(make(...)): fresh buffer"
		}
		return false, "Sum appends to an existing buffer (" + call.Common().Args[0].String() + "): may alias the received tag"
	}
	body := p.body(call.Common().StaticCallee())
	if body == nil {
		return false, "stored value is not the result of a Sum call"
	}
	n := 0
	for _, b := range body.Blocks {
		ret, ok := b.Instrs[len(b.Instrs)-1].(*ssa.Return)
		if !ok || b == body.Recover || len(ret.Results) == 0 {
			continue
		}
		rv := returnValue(ret, 0)
		if c, isC := rv.(*ssa.Const); isC && c.IsNil() {
			continue // error path returning no tag
		}
		if ok2, d := freshSum(p, rv, depth+1); !ok2 {
			return false, d + " (in " + p.FuncName(body) + ")"
		}
		n++
	}
	if n == 0 {
		return false, "helper " + p.FuncName(body) + " never returns a tag"
	}
	return true, "result of " + p.FuncName(body) + ", which returns Sum(nil)"
}
