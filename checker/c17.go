package main

import (
	"fmt"
	"go/token"
	"go/types"
	"strings"

	"golang.org/x/tools/go/ssa"
)

// C17 — FSIM file transfers deliver identical files or nothing.

func init() {
	checks["C17"] = checkC17
	explanations["C17"] = "Structural necessary condition (E1 must-pass inside package fsim): every rename of a received temp file to its destination (os.Rename or the configurable Rename hook) in the download device module, the upload owner module and the wget device module is reached only after digest-ok (bytes.Equal(SHA-384 recomputed over what was written, announced digest) is true, or — where the module allows it — no digest was announced, i.e. len(digest)==0) and, in the modules that count received bytes, after length-ok (received > announced is false). Received data is written only to files obtained from CreateTemp (os.CreateTemp or the CreateTemp hook): no other file-creating call exists in the package's transfer code, so the destination can come into being only through the guarded rename. Also: every Read in the transfer modules uses the returned byte count, and http.Response.ContentLength (-1 when undeclared) is used as a size only after a sign check. A loop over a constant table of message names that contains the digest message writes its element on every way round (no announcement is skipped); the declared methods of generic module types (DownloadContents[T]) are analysed as well. Not decided: bit identity, chunk/MTU boundaries, received < announced at end of stream (no finalize => no file)."
}

// writeCounters finds struct fields that accumulate the result of a Write:
// x.f += n where n comes from io.Writer.Write / io.Copy.
func writeCounters(p *Prog, pkg string) map[string]bool {
	out := map[string]bool{}
	for _, fn := range p.Funcs {
		if funcPkgPath(fn) != pkg {
			continue
		}
		m := p.matcher(fn)
		for _, b := range fn.Blocks {
			for _, in := range b.Instrs {
				st, ok := in.(*ssa.Store)
				if !ok {
					continue
				}
				fa, ok := st.Addr.(*ssa.FieldAddr)
				if !ok {
					continue
				}
				bo, ok := st.Val.(*ssa.BinOp)
				if !ok || bo.Op != token.ADD {
					continue
				}
				f := fieldName(fa.X.Type(), fa.Field)
				if fieldOfLoad(bo.X) != f {
					continue
				}
				if pv := m.Prov(bo.Y); pv.Has("call:io.Writer.Write") || pv.Has("call:io.Copy") {
					out[f] = true
				}
			}
		}
	}
	return out
}

// renameCall: call is os.Rename or a dynamic call whose function value may be
// os.Rename or comes from a func-typed field named Rename.
func renameCall(p *Prog, call ssa.CallInstruction) bool {
	c := call.Common()
	if c.IsInvoke() {
		return false
	}
	if fn := c.StaticCallee(); fn != nil {
		return p.FuncName(fn) == "os.Rename"
	}
	seen := map[ssa.Value]bool{}
	var may func(v ssa.Value) bool
	may = func(v ssa.Value) bool {
		if v == nil || seen[v] {
			return false
		}
		seen[v] = true
		switch x := v.(type) {
		case *ssa.Function:
			return p.FuncName(x) == "os.Rename"
		case *ssa.Phi:
			for _, e := range x.Edges {
				if may(e) {
					return true
				}
			}
		case *ssa.UnOp:
			if f := fieldOfLoad(x); strings.HasSuffix(f, ".Rename") {
				return true
			}
		}
		return false
	}
	return may(c.Value)
}

func c17Rules(p *Prog, counters map[string]bool) *RuleSet {
	isCounter := func(m *Matcher, v ssa.Value) bool { return counters[fieldOfLoad(stripConv(v))] }
	isField := func(m *Matcher, v ssa.Value) bool {
		return fieldOfLoad(stripConv(v)) != "" && !counters[fieldOfLoad(stripConv(v))]
	}
	digestField := func(m *Matcher, v ssa.Value) bool {
		f := fieldOfLoad(v)
		return f != "" && strings.HasPrefix(f, "fdo/fsim.") && strings.Contains(v.Type().String(), "[]byte")
	}
	return &RuleSet{
		Atoms: []AtomDef{
			AtomDef{Name: "length-ok", Doc: "received byte count > announced length is false", Edge: func(m *Matcher, pd Pred, holds bool) bool {
				switch pd.Kind {
				case "lt": // announced < received is false
					return !holds && isField(m, pd.X) && isCounter(m, pd.Y)
				case "le": // received <= announced holds
					return holds && isCounter(m, pd.X) && isField(m, pd.Y)
				case "eq":
					return holds && ((isCounter(m, pd.X) && isField(m, pd.Y)) || (isCounter(m, pd.Y) && isField(m, pd.X)))
				}
				return false
			}},
			equal("digest-eq", "SHA-384 recomputed over the received bytes equals the announced digest",
				provAnd(hasProvX("call:hash.Hash.Sum"), func(m *Matcher, v ssa.Value) bool { return !digestField(m, v) }), digestField),
			AtomDef{Name: "digest-absent", Doc: "no digest was announced (len(digest) == 0)", Edge: func(m *Matcher, pd Pred, holds bool) bool {
				var x ssa.Value
				switch pd.Kind {
				case "lt": // 0 < len(x) is false
					if !holds && isConstInt(pd.X, 0) {
						x = lenOf(m, pd.Y)
					}
				case "eq": // len(x) == 0 holds
					if holds && isConstInt(pd.Y, 0) {
						x = lenOf(m, pd.X)
					}
				case "le": // len(x) <= 0 holds
					if holds && isConstInt(pd.Y, 0) {
						x = lenOf(m, pd.X)
					}
				}
				return x != nil && digestField(m, x)
			}},
		},
		Derive: []Derivation{
			{"digest-ok", []Atom{"digest-eq"}},
			{"digest-ok", []Atom{"digest-absent"}},
		},
	}
}

func checkC17(c *Ctx, p *Prog, r *Result) {
	pkg := modulePath + "/fsim"
	counters := writeCounters(p, pkg)
	if len(counters) < 2 {
		r.fail("C17: expected at least 2 received-byte counters in package fsim, found %d", len(counters))
	}
	r.note("received-byte counters: %v", sortedKeys(counters))
	rs := c17Rules(p, counters)

	c17ReadCounts(p, r, pkg)
	c17ContentLength(p, r, pkg)
	c17AnnounceTable(p, r, pkg)

	r.rule("C17.rename-guarded", "every rename of a received temp file requires digest-ok, and length-ok in modules that count received bytes")
	r.floor("C17.rename-guarded", 3)
	nsites := 0
	for _, fn := range p.Funcs {
		if funcPkgPath(fn) != pkg {
			continue
		}
		var sites []ssa.CallInstruction
		for _, b := range fn.Blocks {
			for _, in := range b.Instrs {
				if call, ok := in.(ssa.CallInstruction); ok && renameCall(p, call) {
					sites = append(sites, call)
				}
			}
		}
		if len(sites) == 0 {
			continue
		}
		// entry point: the exported method of the module that reaches fn (the
		// function itself when nothing in the package calls it)
		roots := []*ssa.Function{fn}
		for _, e := range p.CallGraph().in[fn] {
			if funcPkgPath(e.Caller) == pkg && e.Kind == "static" {
				roots = append(roots, e.Caller)
			}
		}
		f := NewFlow(p, rs, []*ssa.Function{fn}, nil)
		r.useFlow(f)
		dumpFlow(f)
		req := []Atom{"digest-ok"}
		recv := ""
		if fn.Signature.Recv() != nil {
			recv = typeShort(fn.Signature.Recv().Type())
		}
		for cf := range counters {
			if strings.HasPrefix(cf, recv+".") && recv != "" {
				req = append(req, "length-ok")
				break
			}
		}
		r.requireAtSites(f, "C17.rename-guarded", sites, req)
		nsites += len(sites)
		_ = roots
	}

	// temp files only
	r.rule("C17.temp-files-only", "package fsim's transfer modules create files only through CreateTemp (os.CreateTemp or the CreateTemp hook); every store to an *os.File field is nil or such a file")
	r.floor("C17.temp-files-only", 3)
	for _, fn := range p.Funcs {
		if funcPkgPath(fn) != pkg {
			continue
		}
		name := p.FuncName(fn)
		transfer := strings.Contains(name, "Download") || strings.Contains(name, "Upload") || strings.Contains(name, "Wget")
		if !transfer {
			continue
		}
		m := p.matcher(fn)
		for _, b := range fn.Blocks {
			for _, in := range b.Instrs {
				switch x := in.(type) {
				case ssa.CallInstruction:
					switch n := p.calleeOf(x.Common()).Name; n {
					case "os.Create", "os.OpenFile", "os.WriteFile":
						r.table(p, "C17.temp-files-only", siteKey(p, x), p.instrPos(in), false, "direct file creation outside CreateTemp: "+n)
					case "os.CreateTemp":
						r.table(p, "C17.temp-files-only", siteKey(p, x), p.instrPos(in), true, "temp file")
					}
				case *ssa.Store:
					if !strings.Contains(x.Val.Type().String(), "os.File") {
						continue
					}
					pv := m.Prov(x.Val)
					cn, isConst := x.Val.(*ssa.Const)
					ok := (isConst && cn.IsNil()) || pv.Has("call:os.CreateTemp") || pv.HasPrefix("call:field:") || pv.Has("call:?")
					if fa, isF := x.Addr.(*ssa.FieldAddr); isF {
						r.table(p, "C17.temp-files-only", fmt.Sprintf("%s store to %s", name, fieldName(fa.X.Type(), fa.Field)), p.instrPos(in), ok, "value provenance: "+joinMax(pv.List(), 5))
					}
				}
			}
		}
	}
	if nsites < 3 {
		r.fail("C17: expected 3 rename sites, found %d", nsites)
	}
}

// c17ReadCounts: a Read may return fewer bytes than the buffer holds; code that
// forwards or hashes what was read must use the returned count.
func c17ReadCounts(p *Prog, r *Result, pkg string) {
	rule := "C17.read-count-used"
	r.rule(rule, "every call of a Read method (io.Reader / fs.File / os.File) in the file-transfer modules uses the returned byte count (a short read is legal; forwarding or hashing the whole buffer sends stale bytes and drops the tail)")
	r.floor(rule, 1)
	for _, fn := range p.Funcs {
		if funcPkgPath(fn) != pkg {
			continue
		}
		k := 0
		for _, b := range fn.Blocks {
			for _, in := range b.Instrs {
				call, ok := in.(*ssa.Call)
				if !ok {
					continue
				}
				n := p.calleeOf(call.Common()).Name
				tup, isTup := call.Type().(*types.Tuple)
				if !strings.HasSuffix(n, ".Read") || !isTup || tup.Len() != 2 || !isErrorType(tup.At(1).Type()) || tup.At(0).Type().String() != "int" {
					continue
				}
				k++
				used := false
				for _, ref := range *call.Referrers() {
					if ex, ok := ref.(*ssa.Extract); ok && ex.Index == 0 && len(*ex.Referrers()) > 0 {
						used = true
					}
				}
				r.table(p, rule, fmt.Sprintf("Read #%d in %s (%s)", k, p.FuncName(fn), n), p.instrPos(in), used, "the byte count returned by Read is discarded")
			}
		}
	}
}

// c17ContentLength: http.Response.ContentLength is -1 when the server did not
// announce a length; using it as a size needs a sign check first.
func c17ContentLength(p *Prog, r *Result, pkg string) {
	rule := "C17.content-length-signed"
	r.rule(rule, "a value loaded from http.Response.ContentLength (which is -1 for responses without a declared length) is passed to a call (io.LimitReader, make, CopyN ...) only where it was compared with zero / a lower bound first; comparisons and logging are free")
	var fns []*ssa.Function
	for _, fn := range p.Funcs {
		if funcPkgPath(fn) == pkg {
			fns = append(fns, fn)
		}
	}
	sortFuncs(p, fns)
	total := 0
	for _, fn := range fns {
		var loads []*ssa.UnOp
		for _, b := range fn.Blocks {
			for _, in := range b.Instrs {
				if u, ok := in.(*ssa.UnOp); ok && u.Op == token.MUL {
					if fa, ok := u.X.(*ssa.FieldAddr); ok && fieldName(fa.X.Type(), fa.Field) == "net/http.Response.ContentLength" {
						loads = append(loads, u)
					}
				}
			}
		}
		if len(loads) == 0 {
			continue
		}
		g := fn
		f := NewFlow(p, e3Rules(p), []*ssa.Function{g}, func(h *ssa.Function) bool { return h != g })
		for i, u := range loads {
			total++
			bad := ""
			var visit func(v ssa.Value, depth int)
			visit = func(v ssa.Value, depth int) {
				if depth > 3 || bad != "" {
					return
				}
				for _, ref := range *v.Referrers() {
					switch x := ref.(type) {
					case *ssa.Convert:
						visit(x, depth+1)
					case *ssa.ChangeType:
						visit(x, depth+1)
					case ssa.CallInstruction:
						n := p.calleeOf(x.Common()).Name
						if strings.HasPrefix(n, "log/slog.") || strings.HasPrefix(n, "fmt.") {
							continue
						}
						st := f.StateAt(x)
						if !st.Has(Atom("v:lb0:" + canon(u))) {
							bad = "passed to " + n + " at " + p.instrPos(x) + " without a lower-bound check"
						}
					case *ssa.MakeSlice:
						if !f.StateAt(x).Has(Atom("v:lb0:" + canon(u))) {
							bad = "sizes an allocation at " + p.instrPos(x) + " without a lower-bound check"
						}
					}
				}
			}
			visit(u, 0)
			r.table(p, rule, fmt.Sprintf("ContentLength load #%d in %s", i+1, p.FuncName(fn)), p.instrPos(u), bad == "", bad)
		}
	}
	if total == 0 {
		// nothing uses the field today: keep the rule armed with an explicit note
		r.table(p, rule, "no use of http.Response.ContentLength as a size in package fsim", "-", true, "no load of the field in the package (rule armed for future uses)")
	}
}

// c17AnnounceTable: a sender that announces a transfer by looping over a
// constant table of message names which contains the digest message must write
// the table's element on every way round the loop (leaving the loop otherwise
// only by returning an error): the receiver verifies the digest only if one was
// announced, so a skipped announcement silently downgrades the transfer to a
// length check.
func c17AnnounceTable(p *Prog, r *Result, pkg string) {
	rule := "C17.announce-table-complete"
	r.rule(rule, "in every loop over a constant table of message names that contains the digest message (sha-384), the write of the current element dominates every back edge of the loop: no announcement is skipped")
	r.floor(rule, 1)
	n := 0
	for _, fn := range p.Funcs {
		if funcPkgPath(fn) != pkg {
			continue
		}
		for _, b := range fn.Blocks {
			for _, in := range b.Instrs {
				call, ok := in.(ssa.CallInstruction)
				if !ok {
					continue
				}
				if nm := p.calleeOf(call.Common()).Name; nm != "fdo/serviceinfo.Producer.WriteChunk" {
					continue
				}
				// key = element of a constant table containing the digest message
				ld, ok := allArgs(call)[1].(*ssa.UnOp)
				if !ok || ld.Op != token.MUL {
					continue
				}
				ia, ok := ld.X.(*ssa.IndexAddr)
				if !ok {
					continue
				}
				sl, ok := ia.X.(*ssa.Slice)
				if !ok {
					continue
				}
				al, ok := sl.X.(*ssa.Alloc)
				if !ok {
					continue
				}
				hasDigest := false
				for _, ref := range *al.Referrers() {
					if ea, ok := ref.(*ssa.IndexAddr); ok {
						for _, r2 := range *ea.Referrers() {
							if st, ok := r2.(*ssa.Store); ok {
								if c, ok := st.Val.(*ssa.Const); ok && c.Value != nil && c.Value.ExactString() == `"sha-384"` {
									hasDigest = true
								}
							}
						}
					}
				}
				if !hasDigest {
					continue
				}
				// innermost loop header containing the call
				var header *ssa.BasicBlock
				for _, h := range fn.Blocks {
					if !h.Dominates(b) {
						continue
					}
					back := false
					for _, pb := range h.Preds {
						if h.Dominates(pb) {
							back = true
						}
					}
					if back && (header == nil || header.Dominates(h)) {
						header = h
					}
				}
				n++
				key := fmt.Sprintf("announce loop #%d in %s", n, p.FuncName(fn))
				if header == nil {
					r.table(p, rule, key, p.instrPos(call), false, "the table element is written outside a loop: undecided")
					continue
				}
				okv, detail := true, "the write dominates every back edge"
				for _, pb := range header.Preds {
					if header.Dominates(pb) && !b.Dominates(pb) {
						okv, detail = false, "a back edge from "+p.instrPos(pb.Instrs[len(pb.Instrs)-1])+" is not dominated by the write: an announcement can be skipped"
					}
				}
				r.table(p, rule, key, p.instrPos(call), okv, detail)
			}
		}
	}
}
