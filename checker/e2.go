package main

// E2 helpers: constants, registry calls, switch tables.

import (
	"go/constant"
	"go/token"
	"go/types"
	"sort"
	"strings"

	"golang.org/x/tools/go/ssa"
)

// constsOfType lists the package-level constants whose type's short name is t.
func (p *Prog) constsOfType(t string) map[string]constant.Value {
	out := map[string]constant.Value{}
	for _, pk := range p.Pkgs {
		if !strings.HasPrefix(pk.PkgPath, modulePath) || isHarnessPkg(pk.PkgPath) {
			continue
		}
		sc := pk.Types.Scope()
		for _, n := range sc.Names() {
			if c, ok := sc.Lookup(n).(*types.Const); ok && typeShort(c.Type()) == t {
				out[n] = c.Val()
			}
		}
	}
	return out
}

// callsTo lists all call instructions in module functions (harness excluded)
// whose callee has the given name.
func (p *Prog) callsTo(name string) []ssa.CallInstruction {
	var out []ssa.CallInstruction
	for _, fn := range p.Funcs {
		if pkg := funcPkgPath(fn); isHarnessPkg(pkg) {
			continue
		}
		for _, b := range fn.Blocks {
			for _, in := range b.Instrs {
				if c, ok := in.(ssa.CallInstruction); ok && p.calleeOf(c.Common()).Name == name {
					out = append(out, c)
				}
			}
		}
	}
	return out
}

func funcPkgPath(fn *ssa.Function) string {
	for q := fn; q != nil; q = q.Parent() {
		if q.Pkg != nil {
			return q.Pkg.Pkg.Path()
		}
	}
	return ""
}

// constValue returns the constant an SSA value denotes (through conversions).
func constValue(v ssa.Value) (constant.Value, bool) {
	c, ok := stripConv(v).(*ssa.Const)
	if !ok || c.Value == nil {
		return nil, false
	}
	return c.Value, true
}

// structLiteralFields: v is a struct value built from an alloc with constant
// field stores; returns field name -> stored value.
func structLiteralFields(v ssa.Value) map[string]ssa.Value {
	out := map[string]ssa.Value{}
	ld := loadOf(v)
	if ld == nil {
		return out
	}
	al, ok := ld.(*ssa.Alloc)
	if !ok {
		return out
	}
	for _, ref := range *al.Referrers() {
		fa, ok := ref.(*ssa.FieldAddr)
		if !ok {
			continue
		}
		for _, r2 := range *fa.Referrers() {
			if st, ok := r2.(*ssa.Store); ok && st.Addr == fa {
				st2 := types.Unalias(al.Type().Underlying().(*types.Pointer).Elem()).Underlying().(*types.Struct)
				out[st2.Field(fa.Field).Name()] = st.Val
			}
		}
	}
	return out
}

// switchConsts collects the constants that fn compares (==) with a value whose
// type has the given short name.
func switchConsts(fn *ssa.Function, typ string) map[string]bool {
	out := map[string]bool{}
	for _, b := range fn.Blocks {
		for _, in := range b.Instrs {
			bo, ok := in.(*ssa.BinOp)
			if !ok || bo.Op != token.EQL {
				continue
			}
			x, c := bo.X, bo.Y
			if _, isC := c.(*ssa.Const); !isC {
				x, c = bo.Y, bo.X
			}
			cc, isC := c.(*ssa.Const)
			if !isC || cc.Value == nil {
				continue
			}
			if typ != "" && typeShort(x.Type()) != typ {
				continue
			}
			out[cc.Value.ExactString()] = true
		}
	}
	return out
}

// caseReturns maps `x == const` tests to the constant returned in the taken
// arm (through jump-only blocks), for result index idx.
func caseReturns(fn *ssa.Function, idx int) map[string]string {
	out := map[string]string{}
	for _, b := range fn.Blocks {
		ifi, ok := b.Instrs[len(b.Instrs)-1].(*ssa.If)
		if !ok {
			continue
		}
		bo, ok := ifi.Cond.(*ssa.BinOp)
		if !ok || bo.Op != token.EQL {
			continue
		}
		cc, ok := bo.Y.(*ssa.Const)
		if !ok || cc.Value == nil {
			continue
		}
		t := b.Succs[0]
		for k := 0; k < 6; k++ {
			if _, isJump := t.Instrs[len(t.Instrs)-1].(*ssa.Jump); isJump && len(t.Instrs) == 1 {
				t = t.Succs[0]
				continue
			}
			break
		}
		if ret, ok := t.Instrs[len(t.Instrs)-1].(*ssa.Return); ok && idx < len(ret.Results) {
			if rv, ok := constValue(ret.Results[idx]); ok {
				out[cc.Value.ExactString()] = rv.ExactString()
			}
		}
	}
	return out
}

// returnConsts collects the constants fn returns at result idx.
func returnConsts(fn *ssa.Function, idx int) map[string]bool {
	out := map[string]bool{}
	for _, b := range fn.Blocks {
		if ret, ok := b.Instrs[len(b.Instrs)-1].(*ssa.Return); ok && idx < len(ret.Results) {
			if rv, ok := constValue(ret.Results[idx]); ok {
				out[rv.ExactString()] = true
			}
		}
	}
	return out
}

func sortedKeys[V any](m map[string]V) []string {
	var l []string
	for k := range m {
		l = append(l, k)
	}
	sort.Strings(l)
	return l
}

func subset(a, b map[string]bool) (bool, []string) {
	var miss []string
	for k := range a {
		if !b[k] {
			miss = append(miss, k)
		}
	}
	sort.Strings(miss)
	return len(miss) == 0, miss
}
