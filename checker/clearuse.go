package main

// "no use after clear": a secret buffer that was zeroed with the builtin
// clear() in the middle of a function (not deferred) must not be read on any
// path that follows — otherwise keys are derived from, or messages protected
// with, all-zero material (a deferred clear runs after every use).
//
// For every non-deferred clear(x) with x a byte slice: no instruction reachable
// after the call uses x, or a value loaded from the same location as x, as an
// operand (other than a further clear).

import (
	"fmt"
	"go/token"
	"go/types"

	"golang.org/x/tools/go/ssa"
)

func clearUseRule(p *Prog, r *Result, rule string, pkgs []string, floor int) {
	r.rule(rule, "a byte slice zeroed by a non-deferred clear() is not read again on any path after the clear (deferred clears run after the last use); sites counted: all clear() calls on byte slices in the key-exchange, COSE and protocol packages")
	r.floor(rule, floor)
	inPkg := map[string]bool{}
	for _, k := range pkgs {
		inPkg[k] = true
	}
	var fns []*ssa.Function
	for _, fn := range p.Funcs {
		if inPkg[funcPkgPath(fn)] {
			fns = append(fns, fn)
		}
	}
	sortFuncs(p, fns)
	for _, fn := range fns {
		k := 0
		for _, b := range fn.Blocks {
			for idx, in := range b.Instrs {
				var cc *ssa.CallCommon
				deferred := false
				switch x := in.(type) {
				case *ssa.Call:
					cc = x.Common()
				case *ssa.Defer:
					cc, deferred = x.Common(), true
				default:
					continue
				}
				bi, ok := cc.Value.(*ssa.Builtin)
				if !ok || bi.Name() != "clear" || len(cc.Args) != 1 {
					continue
				}
				sl, ok := cc.Args[0].Type().Underlying().(*types.Slice)
				if !ok {
					continue
				}
				if bt, ok := sl.Elem().Underlying().(*types.Basic); !ok || bt.Kind() != types.Uint8 {
					continue
				}
				k++
				construct := fmt.Sprintf("clear #%d in %s", k, p.FuncName(fn))
				if deferred {
					r.table(p, rule, construct, p.instrPos(in), true, "deferred: runs after every use in this function")
					continue
				}
				x := cc.Args[0]
				loc := ""
				if u, ok := x.(*ssa.UnOp); ok && u.Op == token.MUL {
					loc = canonAddr(u.X)
				}
				isAlias := func(v ssa.Value) bool {
					if v == x {
						return true
					}
					if u, ok := v.(*ssa.UnOp); ok && u.Op == token.MUL && loc != "" && canonAddr(u.X) == loc {
						return true
					}
					return false
				}
				var bad ssa.Instruction
				scan := func(ins []ssa.Instruction) {
					for _, y := range ins {
						if bad != nil {
							return
						}
						if c2, ok := y.(ssa.CallInstruction); ok {
							if b2, ok := c2.Common().Value.(*ssa.Builtin); ok && b2.Name() == "clear" {
								continue
							}
						}
						if _, isLoad := y.(*ssa.UnOp); isLoad {
							continue // the load itself is harmless; its consumers are checked
						}
						for _, op := range y.Operands(nil) {
							if *op != nil && isAlias(*op) {
								bad = y
								return
							}
						}
					}
				}
				scan(b.Instrs[idx+1:])
				seen := map[*ssa.BasicBlock]bool{}
				var walk func(bb *ssa.BasicBlock)
				walk = func(bb *ssa.BasicBlock) {
					if seen[bb] || bad != nil {
						return
					}
					seen[bb] = true
					scan(bb.Instrs)
					for _, s := range bb.Succs {
						walk(s)
					}
				}
				for _, s := range b.Succs {
					walk(s)
				}
				if bad != nil {
					r.table(p, rule, construct, p.instrPos(in), false, "the cleared buffer is used afterwards at "+p.instrPos(bad)+" ("+bad.String()+")")
				} else {
					r.table(p, rule, construct, p.instrPos(in), true, "no use of the buffer is reachable after the clear")
				}
			}
		}
	}
}
