package main

// C09.padding-ranges-agree — the block-cipher padder and unpadder agree.
//
// Interval analysis with the block size kept symbolic (bounds are c + k*bs):
//   producer  the function that appends bytes.Repeat([]byte{byte(n)}, n): the
//             range of n is computed from its defining expression
//             (x % bs in [0, bs-1] for x >= 0; differences of ranges);
//   acceptor  the function that strips n = last byte and returns b[:len(b)-n]:
//             the range of n is what the branch conditions dominating the
//             success return leave over.
// PKCS#7 requires both to be exactly [1, bs]: a padder that can emit 0 bytes
// makes whole-block plaintexts undecodable, an unpadder that rejects bs rejects
// them too, one that accepts 0 or more than bs accepts forged padding.

import (
	"fmt"
	"go/token"
	"math"

	"golang.org/x/tools/go/ssa"
)

type symBound struct {
	c, k int64 // c + k*bs
	inf  int   // -1: -inf, +1: +inf, 0: finite
}

func (b symBound) String() string {
	switch {
	case b.inf > 0:
		return "+inf"
	case b.inf < 0:
		return "-inf"
	case b.k == 0:
		return fmt.Sprint(b.c)
	case b.c == 0 && b.k == 1:
		return "bs"
	case b.k == 1:
		return fmt.Sprintf("bs%+d", b.c)
	}
	return fmt.Sprintf("%d*bs%+d", b.k, b.c)
}

type symRange struct{ lo, hi symBound }

func (r symRange) String() string { return "[" + r.lo.String() + ", " + r.hi.String() + "]" }

func sbSub(a, b symBound) symBound {
	if a.inf != 0 {
		return a
	}
	if b.inf != 0 {
		return symBound{inf: -b.inf}
	}
	return symBound{c: a.c - b.c, k: a.k - b.k}
}
func sbAdd(a, b symBound) symBound {
	if a.inf != 0 {
		return a
	}
	if b.inf != 0 {
		return b
	}
	return symBound{c: a.c + b.c, k: a.k + b.k}
}

func c09PaddingRanges(p *Prog, r *Result) {
	rule := "C09.padding-ranges-agree"
	r.rule(rule, "the CBC padder emits, and the unpadder accepts, exactly pad sizes 1..blockSize (interval analysis with the block size symbolic: producer range from the expression that sizes bytes.Repeat, acceptor range from the branch conditions dominating the success return)")
	r.floor(rule, 2)
	cosePkg := modulePath + "/cose"
	var produced, accepted *symRange
	var prodPos, accPos string
	for _, fn := range p.Funcs {
		if funcPkgPath(fn) != cosePkg {
			continue
		}
		// block-size parameter: an int parameter used as the right operand of %
		var bs *ssa.Parameter
		for _, b := range fn.Blocks {
			for _, in := range b.Instrs {
				if bo, ok := in.(*ssa.BinOp); ok && bo.Op == token.REM {
					if pr, ok := bo.Y.(*ssa.Parameter); ok {
						bs = pr
					}
				}
			}
		}
		var eval func(v ssa.Value, d int) (symRange, bool)
		eval = func(v ssa.Value, d int) (symRange, bool) {
			if d > 8 {
				return symRange{}, false
			}
			switch x := v.(type) {
			case *ssa.Parameter:
				if x == bs {
					return symRange{symBound{k: 1}, symBound{k: 1}}, true
				}
			case *ssa.Const:
				if c, ok := constInt(x); ok {
					return symRange{symBound{c: c}, symBound{c: c}}, true
				}
			case *ssa.Convert:
				return eval(x.X, d+1)
			case *ssa.Call:
				if bi, ok := x.Call.Value.(*ssa.Builtin); ok && bi.Name() == "len" {
					return symRange{symBound{}, symBound{inf: 1}}, true
				}
			case *ssa.BinOp:
				switch x.Op {
				case token.REM:
					if pr, ok := x.Y.(*ssa.Parameter); ok && pr == bs {
						if a, ok := eval(x.X, d+1); ok && a.lo.inf == 0 && a.lo.k >= 0 && a.lo.c >= 0 {
							return symRange{symBound{}, symBound{c: -1, k: 1}}, true
						}
					}
				case token.SUB:
					a, ok1 := eval(x.X, d+1)
					b, ok2 := eval(x.Y, d+1)
					if ok1 && ok2 {
						return symRange{sbSub(a.lo, b.hi), sbSub(a.hi, b.lo)}, true
					}
				case token.ADD:
					a, ok1 := eval(x.X, d+1)
					b, ok2 := eval(x.Y, d+1)
					if ok1 && ok2 {
						return symRange{sbAdd(a.lo, b.lo), sbAdd(a.hi, b.hi)}, true
					}
				}
			}
			return symRange{}, false
		}
		for _, b := range fn.Blocks {
			for _, in := range b.Instrs {
				call, ok := in.(*ssa.Call)
				if !ok || bs == nil || p.calleeOf(call.Common()).Name != "bytes.Repeat" {
					continue
				}
				n := call.Common().Args[1]
				if rg, ok := eval(n, 0); ok {
					produced, prodPos = &rg, p.instrPos(call)
				} else {
					r.table(p, rule, "pad size produced in "+p.FuncName(fn), p.instrPos(call), false, "pad size expression not understood: undecided")
				}
			}
		}
		// acceptor: returns b[:len(b)-n] with n = int(b[len(b)-1])
		if fn.Signature.Results().Len() != 2 || fn.Signature.Params().Len() != 2 {
			continue
		}
		var bsA *ssa.Parameter
		for _, pr := range fn.Params {
			if pr.Type().String() == "int" {
				bsA = pr
			}
		}
		if bsA == nil {
			continue
		}
		for _, b := range fn.Blocks {
			ret, ok := b.Instrs[len(b.Instrs)-1].(*ssa.Return)
			if !ok || len(ret.Results) != 2 {
				continue
			}
			if c, ok := ret.Results[1].(*ssa.Const); !ok || !c.IsNil() {
				continue
			}
			sl, ok := ret.Results[0].(*ssa.Slice)
			if !ok || sl.High == nil {
				continue
			}
			hb, ok := sl.High.(*ssa.BinOp)
			if !ok || hb.Op != token.SUB {
				continue
			}
			n := intRootNoVar(hb.Y) // the pad size
			lastByte := func(v ssa.Value) bool {
				u, ok := v.(*ssa.UnOp)
				if !ok || u.Op != token.MUL {
					return false
				}
				_, isIdx := u.X.(*ssa.IndexAddr)
				return isIdx
			}
			if !lastByte(n) {
				continue
			}
			lo, hi := symBound{}, symBound{c: math.MaxUint8} // a byte
			sameN := func(v ssa.Value) bool { return intRootNoVar(v) == n }
			isBS := func(v ssa.Value) bool { return intRootNoVar(v) == ssa.Value(bsA) }
			// dominating conditions
			for d := b; d.Idom() != nil; d = d.Idom() {
				id := d.Idom()
				ifi, ok := id.Instrs[len(id.Instrs)-1].(*ssa.If)
				if !ok {
					continue
				}
				edge := -1
				for i, s := range id.Succs {
					if s == d || s.Dominates(b) {
						edge = i
					}
				}
				if edge < 0 || (id.Succs[0] == id.Succs[1]) {
					continue
				}
				pd, onTrue := normCond(ifi.Cond)
				holds := (edge == 0) == onTrue
				switch pd.Kind {
				case "eq":
					for _, pr := range [][2]ssa.Value{{pd.X, pd.Y}, {pd.Y, pd.X}} {
						if c, ok := constInt(intRootNoVar(pr[1])); ok && sameN(pr[0]) {
							if holds {
								lo, hi = symBound{c: c}, symBound{c: c}
							} else if c == 0 && lo.k == 0 && lo.c == 0 {
								lo = symBound{c: 1}
							}
						}
					}
				case "lt", "le":
					strict := pd.Kind == "lt"
					a, bb := pd.X, pd.Y
					if !holds { // !(a<b) => b<=a ; !(a<=b) => b<a
						a, bb, strict = pd.Y, pd.X, !strict
					}
					adj := int64(0)
					if strict {
						adj = 1
					}
					// a (<|<=) bb holds
					switch {
					case sameN(a) && isBS(bb): // n <= bs - adj
						hi = symBound{c: -adj, k: 1}
					case sameN(bb) && isBS(a): // bs + adj <= n
						lo = symBound{c: adj, k: 1}
					case sameN(a):
						if c, ok := constInt(intRootNoVar(bb)); ok {
							hi = symBound{c: c - adj}
						}
					case sameN(bb):
						if c, ok := constInt(intRootNoVar(a)); ok {
							lo = symBound{c: c + adj}
						}
					}
				}
			}
			rg := symRange{lo, hi}
			accepted, accPos = &rg, p.instrPos(ret)
		}
	}
	want := symRange{symBound{c: 1}, symBound{k: 1}}
	if produced == nil {
		r.table(p, rule, "pad sizes produced", "-", false, "no bytes.Repeat padder with a symbolic block size found in package cose: undecided")
	} else {
		r.table(p, rule, "pad sizes produced", prodPos, *produced == want, "produces "+produced.String()+", PKCS#7 requires "+want.String())
	}
	if accepted == nil {
		r.table(p, rule, "pad sizes accepted", "-", false, "no unpadder of the shape b[:len(b)-int(b[len(b)-1])] found in package cose: undecided")
	} else {
		r.table(p, rule, "pad sizes accepted", accPos, *accepted == want, "accepts "+accepted.String()+", PKCS#7 requires "+want.String())
	}
}

// c09ChainLeafKey: FDO's X5CHAIN puts the end-entity certificate first; the
// key of a chain is the key of element 0. Every load of a certificate's
// PublicKey through an element of a certificate slice (in the protocol and key
// packages) must therefore index with the constant 0 — or run inside a loop
// over the chain that does not hand the key out (chain verification).
func c09ChainLeafKey(p *Prog, r *Result) {
	rule := "C09.chain-leaf-key"
	r.rule(rule, "wherever the key of a certificate chain is taken (a load of Certificate.PublicKey through an element of a slice of certificates in package fdo or fdo/protocol), the element index is the constant 0: the end-entity certificate comes first in an X5CHAIN")
	r.floor(rule, 3)
	n := 0
	for _, fn := range p.Funcs {
		if pk := funcPkgPath(fn); pk != modulePath && pk != modulePath+"/protocol" {
			continue
		}
		for _, b := range fn.Blocks {
			for _, in := range b.Instrs {
				fa, ok := in.(*ssa.FieldAddr)
				if !ok {
					continue
				}
				fld := fieldName(fa.X.Type(), fa.Field)
				if fld != "crypto/x509.Certificate.PublicKey" && fld != "fdo/cbor.X509Certificate.PublicKey" {
					continue
				}
				// the certificate pointer: a load of an element address
				ld, ok := fa.X.(*ssa.UnOp)
				if !ok || ld.Op != token.MUL {
					continue
				}
				ia, ok := ld.X.(*ssa.IndexAddr)
				if !ok {
					continue
				}
				n++
				_, isConst0 := constInt(ia.Index)
				ok0 := isConst0 && isConstInt(ia.Index, 0)
				r.table(p, rule, fmt.Sprintf("key load #%d in %s", n, p.FuncName(fn)), p.instrPos(fa), ok0, fmt.Sprintf("element index %s", ia.Index.String()))
			}
		}
	}
}
