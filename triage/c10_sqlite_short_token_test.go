// Triage reproducer (not a registered check): C10/C18/C08 defect #6.
// Copy into /repo/sqlite (package sqlite_test) and run
// `go test -run TestTriageC10ShortToken .` there. Before the fix any state
// access under a bearer token that base64-decodes to fewer than 16 bytes
// panics "slice bounds out of range [:16]".
package sqlite_test

import (
	"context"
	"path/filepath"
	"testing"

	"github.com/fido-device-onboard/go-fdo/sqlite"
)

func TestTriageC10ShortToken(t *testing.T) {
	db, err := sqlite.Open(filepath.Join(t.TempDir(), "db.sqlite"), "")
	if err != nil {
		t.Fatal(err)
	}
	defer func() { _ = db.Close() }()
	for _, tok := range []string{"", "AA", "QUJDREVGR0g"} {
		func() {
			defer func() {
				if r := recover(); r != nil {
					t.Errorf("token %q: panic: %v", tok, r)
				}
			}()
			ctx := db.TokenContext(context.Background(), tok)
			if _, err := db.GUID(ctx); err == nil {
				t.Errorf("token %q granted access", tok)
			}
			_ = db.InvalidateToken(ctx)
		}()
	}
}
