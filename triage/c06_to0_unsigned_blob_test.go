// Triage reproducer (not a registered check): C06 defect #1.
// Copy into /repo (package fdo) and run `go test -run TestTriageC06 .`.
// Before the fix the rendezvous server answers 23 and stores the blob although
// the to1d blob is signed by a key unrelated to the voucher's owner.
package fdo

import (
	"bytes"
	"context"
	"crypto/ecdsa"
	"crypto/elliptic"
	"crypto/rand"
	"crypto/x509"
	"crypto/x509/pkix"
	"math/big"
	"testing"
	"time"

	"github.com/fido-device-onboard/go-fdo/cbor"
	"github.com/fido-device-onboard/go-fdo/cose"
	"github.com/fido-device-onboard/go-fdo/protocol"
)

type triageTO0State struct {
	nonce  protocol.Nonce
	stored int
}

func (s *triageTO0State) SetTO0SignNonce(context.Context, protocol.Nonce) error { return nil }
func (s *triageTO0State) TO0SignNonce(context.Context) (protocol.Nonce, error)  { return s.nonce, nil }
func (s *triageTO0State) SetRVBlob(context.Context, *Voucher, *cose.Sign1[protocol.To1d, []byte], time.Time) error {
	s.stored++
	return nil
}
func (s *triageTO0State) RVBlob(context.Context, protocol.GUID) (*cose.Sign1[protocol.To1d, []byte], *Voucher, error) {
	return nil, nil, ErrNotFound
}

func triageVoucher(t *testing.T) (*Voucher, *ecdsa.PrivateKey) {
	t.Helper()
	mfg, _ := ecdsa.GenerateKey(elliptic.P384(), rand.Reader)
	owner, _ := ecdsa.GenerateKey(elliptic.P384(), rand.Reader)
	dev, _ := ecdsa.GenerateKey(elliptic.P384(), rand.Reader)
	tmpl := &x509.Certificate{SerialNumber: big.NewInt(1), Subject: pkix.Name{CommonName: "dev"},
		NotBefore: time.Now().Add(-time.Hour), NotAfter: time.Now().Add(time.Hour)}
	der, err := x509.CreateCertificate(rand.Reader, tmpl, tmpl, dev.Public(), dev)
	if err != nil {
		t.Fatal(err)
	}
	cert, _ := x509.ParseCertificate(der)
	chain := []*cbor.X509Certificate{(*cbor.X509Certificate)(cert)}
	mfgPub, err := protocol.NewPublicKey(protocol.Secp384r1KeyType, mfg.Public().(*ecdsa.PublicKey), false)
	if err != nil {
		t.Fatal(err)
	}
	ov := &Voucher{
		Version: 101,
		Header: *cbor.NewBstr(VoucherHeader{Version: 101, GUID: protocol.GUID{1, 2, 3}, DeviceInfo: "triage",
			ManufacturerKey: *mfgPub}),
		Hmac:      protocol.Hmac{Algorithm: protocol.HmacSha384Hash, Value: make([]byte, 48)},
		CertChain: &chain,
	}
	ext, err := ExtendVoucher(ov, mfg, owner.Public().(*ecdsa.PublicKey), nil)
	if err != nil {
		t.Fatal(err)
	}
	return ext, owner
}

func TestTriageC06UnsignedBlob(t *testing.T) {
	ov, _ := triageVoucher(t)
	stranger, _ := ecdsa.GenerateKey(elliptic.P384(), rand.Reader)
	st := &triageTO0State{nonce: protocol.Nonce{9, 9, 9}}

	d := to0d{Voucher: *ov, WaitSeconds: 60, NonceTO0Sign: st.nonce}
	h := protocol.Sha384Hash.HashFunc().New()
	if err := cbor.NewEncoder(h).Encode(d); err != nil {
		t.Fatal(err)
	}
	to1d := cose.Sign1[protocol.To1d, []byte]{Payload: cbor.NewByteWrap(protocol.To1d{
		To0dHash: protocol.Hash{Algorithm: protocol.Sha384Hash, Value: h.Sum(nil)},
	})}
	if err := to1d.Sign(stranger, nil, nil, nil); err != nil {
		t.Fatal(err)
	}
	body, err := cbor.Marshal(ownerSign{To0d: *cbor.NewBstr(d), To1d: *to1d.Tag()})
	if err != nil {
		t.Fatal(err)
	}

	srv := &TO0Server{Session: st, RVBlobs: st}
	typ, resp := srv.Respond(context.Background(), protocol.TO0OwnerSignMsgType, bytes.NewReader(body))
	if typ != protocol.ErrorMsgType || st.stored != 0 {
		t.Fatalf("blob signed by a stranger was accepted: respType=%d resp=%v stored=%d", typ, resp, st.stored)
	}
}
