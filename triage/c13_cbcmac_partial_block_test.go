// Triage reproducer (not a registered check): C13 defect #18.
// Copy into /repo/cose (package cose_test) and run
// `go test -run TestTriageC13CbcMac ./cose/`. AES-CBC-MAC (RFC 8152 section
// 9.2: zero IV, message zero-padded to a whole block) is compared with a
// reference built from crypto/cipher for message lengths 1..48. Before the fix
// every length > 16 that is not a multiple of 16 gave a different tag: Sum
// overwrote the chaining state behind the partial block with zeros instead of
// leaving it (XOR with the zero padding is the identity), so the tag no longer
// depended on most of the earlier blocks.
package cose_test

import (
	"bytes"
	"crypto/aes"
	"crypto/cipher"
	"testing"

	"github.com/fido-device-onboard/go-fdo/cose"
)

func TestTriageC13CbcMacPartialBlock(t *testing.T) {
	key := bytes.Repeat([]byte{0x42}, 16)
	for n := 1; n <= 48; n++ {
		msg := make([]byte, n)
		for i := range msg {
			msg[i] = byte(i*7 + 1)
		}
		// reference
		blk, _ := aes.NewCipher(key)
		padded := append([]byte{}, msg...)
		for len(padded)%16 != 0 {
			padded = append(padded, 0)
		}
		out := make([]byte, len(padded))
		cipher.NewCBCEncrypter(blk, make([]byte, 16)).CryptBlocks(out, padded)
		want := out[len(out)-16:]

		h, err := cose.AesCbcMac128_128.NewMac(key)
		if err != nil {
			t.Fatal(err)
		}
		_, _ = h.Write(msg)
		if got := h.Sum(nil); !bytes.Equal(got, want) {
			t.Errorf("len %d: tag %x, want %x", n, got, want)
		}
	}
}
