// Triage reproducer (not a registered check): C10 defect #14.
// Copy into /repo/fsim (package fsim_test) and run `go test -run TestTriageC10CommandStartFailure .` there.
// Before the fix an owner that asks the fdo.command device module to execute
// a program that cannot be started makes the device panic: execute() leaves
// c.cmd set with a nil Process and the error path of Receive calls reset(),
// which panics "command should always be started".
package fsim_test

import (
	"bytes"
	"context"
	"io"
	"testing"

	"github.com/fido-device-onboard/go-fdo/cbor"
	"github.com/fido-device-onboard/go-fdo/fsim"
)

func TestTriageC10CommandStartFailure(t *testing.T) {
	var c fsim.Command
	if err := c.Transition(true); err != nil {
		t.Fatal(err)
	}
	send := func(name string, v any) error {
		b, _ := cbor.Marshal(v)
		return c.Receive(context.Background(), name, bytes.NewReader(b), func(string) io.Writer { return io.Discard }, func() {})
	}
	if err := send("command", "/nonexistent/definitely-not-a-program"); err != nil {
		t.Fatal(err)
	}
	defer func() {
		if r := recover(); r != nil {
			t.Fatalf("device module panicked: %v", r)
		}
	}()
	if err := send("execute", struct{}{}); err == nil {
		t.Fatal("expected an error for a program that cannot be started")
	}
}
