package cose_test

import (
	"bytes"
	"crypto/ecdsa"
	"crypto/elliptic"
	"crypto/rand"
	"testing"

	"github.com/fido-device-onboard/go-fdo/cbor"
	"github.com/fido-device-onboard/go-fdo/cose"
)

func TestTriageC13ProtectedHeaderMalleable(t *testing.T) {
	key, err := ecdsa.GenerateKey(elliptic.P256(), rand.Reader)
	if err != nil {
		t.Fatal(err)
	}
	s1 := cose.Sign1[uint64, []byte]{Payload: cbor.NewByteWrap[uint64](1000)}
	if err := s1.Sign(key, nil, nil, nil); err != nil {
		t.Fatal(err)
	}
	enc, err := cbor.Marshal(s1)
	if err != nil {
		t.Fatal(err)
	}
	// 84 43 a1 01 26 ... : protected header {1: -7} in shortest form
	if !bytes.HasPrefix(enc, []byte{0x84, 0x43, 0xa1, 0x01, 0x26}) {
		t.Fatalf("unexpected encoding % x", enc[:8])
	}
	// the same map with -7 encoded in two bytes (38 06): different bits
	mod := append([]byte{0x84, 0x44, 0xa1, 0x01, 0x38, 0x06}, enc[5:]...)
	var got cose.Sign1[uint64, []byte]
	if err := cbor.Unmarshal(mod, &got); err != nil {
		t.Logf("altered object rejected at decode: %v", err)
		return
	}
	ok, err := got.Verify(key.Public(), nil, nil)
	if ok {
		t.Errorf("object with altered protected header bytes (% x -> % x) still verifies", enc[1:5], mod[1:6])
	} else {
		t.Logf("altered object rejected: %v", err)
	}
}

func TestTriageC13PayloadMalleable(t *testing.T) {
	key, err := ecdsa.GenerateKey(elliptic.P256(), rand.Reader)
	if err != nil {
		t.Fatal(err)
	}
	s1 := cose.Sign1[uint64, []byte]{Payload: cbor.NewByteWrap[uint64](10)}
	if err := s1.Sign(key, nil, nil, nil); err != nil {
		t.Fatal(err)
	}
	enc, err := cbor.Marshal(s1)
	if err != nil {
		t.Fatal(err)
	}
	// ... a0 41 0a 58 40 sig : payload bstr(1) 0x0a -> bstr(2) 18 0a
	i := bytes.Index(enc, []byte{0xa0, 0x41, 0x0a})
	if i < 0 {
		t.Fatalf("unexpected encoding % x", enc)
	}
	mod := append(append(append([]byte{}, enc[:i+1]...), 0x42, 0x18, 0x0a), enc[i+3:]...)
	var got cose.Sign1[uint64, []byte]
	if err := cbor.Unmarshal(mod, &got); err != nil {
		t.Logf("altered object rejected at decode: %v", err)
		return
	}
	ok, err := got.Verify(key.Public(), nil, nil)
	if ok {
		t.Errorf("object with altered payload bytes still verifies")
	} else {
		t.Logf("altered object rejected: %v", err)
	}
}
