// Triage reproducer (not a registered check): C10 defect #14.
// Copy into /repo (package fdo_test) and run
// `go test -run TestTriageC10Null .` there. Before the fix a CBOR null where a
// COSE payload, an X5CHAIN certificate or a service-info KV is expected leaves
// a nil pointer in the decoded value, and the first use dereferences it:
//   - TO1.ProveToRV (unauthenticated, 6 bytes) panics the rendezvous server,
//   - a peer-supplied X5CHAIN public key [null] panics PublicKey.Public(),
//   - a null service-info entry panics ChunkWriter.WriteChunk (owner and device).
package fdo_test

import (
	"bytes"
	"context"
	"testing"

	"github.com/fido-device-onboard/go-fdo"
	"github.com/fido-device-onboard/go-fdo/cbor"
	"github.com/fido-device-onboard/go-fdo/protocol"
	"github.com/fido-device-onboard/go-fdo/serviceinfo"
)

func noPanic(t *testing.T, name string, f func()) {
	t.Helper()
	defer func() {
		if r := recover(); r != nil {
			t.Errorf("%s: panic: %v", name, r)
		}
	}()
	f()
}

func TestTriageC10NullPointerItems(t *testing.T) {
	// COSE_Sign1 with a null payload: tag 18, [h'', {}, null, h'']
	nullPayloadSign1 := []byte{0xd2, 0x84, 0x40, 0xa0, 0xf6, 0x40}

	noPanic(t, "TO1.ProveToRV with null payload", func() {
		srv := &fdo.TO1Server{}
		typ, _ := srv.Respond(context.Background(), protocol.TO1ProveToRVMsgType, bytes.NewReader(nullPayloadSign1))
		if typ != protocol.ErrorMsgType {
			t.Errorf("expected an error message, got type %d", typ)
		}
	})

	noPanic(t, "X5CHAIN [null]", func() {
		var pk protocol.PublicKey
		// [keyType=10 (secp256r1), enc=2 (x5chain), body=[null]]
		if err := cbor.Unmarshal([]byte{0x83, 0x0a, 0x02, 0x81, 0xf6}, &pk); err != nil {
			return
		}
		if _, err := pk.Public(); err == nil {
			t.Errorf("expected an error for a null certificate")
		}
	})

	noPanic(t, "service info [null]", func() {
		var kvs []*serviceinfo.KV
		if err := cbor.Unmarshal([]byte{0x81, 0xf6}, &kvs); err != nil {
			return
		}
		_, w := serviceinfo.NewChunkInPipe(1)
		if err := w.WriteChunk(kvs[0]); err == nil {
			t.Errorf("expected an error for a null service info entry")
		}
	})
}
