// Triage reproducer (not a registered check): C10 defects #15 and #16.
// Copy into /repo/http (package http_test) and run
// `go test -run TestTriageC10Optional ./http/`. Before the fixes
//   - POST /fdo/101/msg/255 with PrevMsgType of a protocol whose responder is
//     nil panicked the handler (nil interface method call),
//   - a first service info chunk with key "" panicked ChunkWriter.WriteChunk.
package http_test

import (
	"bytes"
	"net/http"
	"net/http/httptest"
	"testing"

	"github.com/fido-device-onboard/go-fdo"
	"github.com/fido-device-onboard/go-fdo/cbor"
	fdohttp "github.com/fido-device-onboard/go-fdo/http"
	"github.com/fido-device-onboard/go-fdo/protocol"
	"github.com/fido-device-onboard/go-fdo/serviceinfo"
)

type noTokens struct{ protocol.TokenService }

func TestTriageC10OptionalNil(t *testing.T) {
	func() {
		defer func() {
			if r := recover(); r != nil {
				t.Errorf("error message for unconfigured protocol: panic: %v", r)
			}
		}()
		h := &fdohttp.Handler{Tokens: noTokens{}, TO1Responder: &fdo.TO1Server{}}
		body, _ := cbor.Marshal(protocol.ErrorMessage{Code: 1, PrevMsgType: 10, ErrString: "x"})
		req := httptest.NewRequest(http.MethodPost, "/fdo/101/msg/255", bytes.NewReader(body))
		req.Header.Set("Content-Type", "application/cbor")
		h.ServeHTTP(httptest.NewRecorder(), req)
	}()
	func() {
		defer func() {
			if r := recover(); r != nil {
				t.Errorf("empty first key: panic: %v", r)
			}
		}()
		_, w := serviceinfo.NewChunkInPipe(1)
		_ = w.WriteChunk(&serviceinfo.KV{Key: "", Val: []byte{1}})
	}()
}
