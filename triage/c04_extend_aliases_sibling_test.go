// Triage reproducer (copy into the repository root as a _test.go file).
// Two extensions of the SAME voucher to different next owners must yield two
// independent vouchers. Before the repair ExtendVoucher appended the new entry
// to a slice sharing the parent's backing array: with spare capacity (a voucher
// extended three times has len 3, cap 4) the second extension overwrote the
// entry of the first, so the voucher handed to buyer A named buyer B as owner.
package fdo_test

import (
	"crypto/ecdsa"
	"crypto/elliptic"
	"crypto/rand"
	"crypto/x509"
	"encoding/pem"
	"os"
	"testing"

	"github.com/fido-device-onboard/go-fdo"
	"github.com/fido-device-onboard/go-fdo/cbor"
)

func TestTriageC04ExtendTwiceIndependent(t *testing.T) {
	pemBytes, err := os.ReadFile("testdata/ov.pem")
	if err != nil {
		t.Fatal(err)
	}
	blk, _ := pem.Decode(pemBytes)
	var ov fdo.Voucher
	if err := cbor.Unmarshal(blk.Bytes, &ov); err != nil {
		t.Fatal(err)
	}
	keyBytes, err := os.ReadFile("testdata/mfg_key.pem")
	if err != nil {
		t.Fatal(err)
	}
	kblk, _ := pem.Decode(keyBytes)
	mfgKey, err := x509.ParseECPrivateKey(kblk.Bytes)
	if err != nil {
		t.Fatal(err)
	}
	signer := mfgKey
	cur := &ov
	for i := 0; i < 3; i++ {
		next, _ := ecdsa.GenerateKey(elliptic.P384(), rand.Reader)
		cur, err = fdo.ExtendVoucher(cur, signer, &next.PublicKey, nil)
		if err != nil {
			t.Fatal(err)
		}
		signer = next
	}
	a, _ := ecdsa.GenerateKey(elliptic.P384(), rand.Reader)
	b, _ := ecdsa.GenerateKey(elliptic.P384(), rand.Reader)
	va, err := fdo.ExtendVoucher(cur, signer, &a.PublicKey, nil)
	if err != nil {
		t.Fatal(err)
	}
	if _, err := fdo.ExtendVoucher(cur, signer, &b.PublicKey, nil); err != nil {
		t.Fatal(err)
	}
	got, err := va.OwnerPublicKey()
	if err != nil {
		t.Fatal(err)
	}
	if !a.PublicKey.Equal(got) {
		t.Fatalf("voucher extended to A reports another owner after the parent was extended to B (B: %v)", b.PublicKey.Equal(got))
	}
}
