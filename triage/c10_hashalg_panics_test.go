// Triage reproducer (not a registered check): C10/C04 defect #9.
// Copy into /repo (package fdo) together with c06_to0_unsigned_blob_test.go
// (triageTO0State, triageVoucher) and run `go test -run TestTriageC10HashAlg .`.
// Before the fix (a) a TO0.OwnerSign whose to1d names an unknown hash type makes
// the rendezvous server panic "HashAlg missing switch case(s)" and (b)
// hashAlgFor panics for an RSA-1024 peer key (reachable in DI and TO2 with a
// peer-chosen manufacturer / owner key).
package fdo

import (
	"bytes"
	"context"
	"crypto/ecdsa"
	"crypto/elliptic"
	"crypto/rand"
	"crypto/rsa"
	"testing"

	"github.com/fido-device-onboard/go-fdo/cbor"
	"github.com/fido-device-onboard/go-fdo/protocol"
)

func TestTriageC10HashAlgUnknown(t *testing.T) {
	ov, _ := triageVoucher(t)
	st := &triageTO0State{nonce: protocol.Nonce{1}}
	// encode an ownerSign whose to1d hash type is 99: build it as generic CBOR
	d := to0d{Voucher: *ov, WaitSeconds: 1, NonceTO0Sign: st.nonce}
	to1dPayload, _ := cbor.Marshal([]any{[]any{}, []any{int64(99), []byte{1, 2, 3}}})
	msg := []any{
		cbor.NewBstr(d),
		cbor.Tag[[]any]{Num: 18, Val: []any{[]byte{}, map[int]any{}, to1dPayload, []byte{0, 0}}},
	}
	body, err := cbor.Marshal(msg)
	if err != nil {
		t.Fatal(err)
	}
	defer func() {
		if r := recover(); r != nil {
			t.Fatalf("rendezvous server panicked: %v", r)
		}
	}()
	typ, _ := (&TO0Server{Session: st, RVBlobs: st}).Respond(context.Background(), protocol.TO0OwnerSignMsgType, bytes.NewReader(body))
	if typ != protocol.ErrorMsgType {
		t.Fatalf("expected an error message, got %d", typ)
	}
}

func TestTriageC10HashAlgForRSA1024(t *testing.T) {
	dev, _ := ecdsa.GenerateKey(elliptic.P384(), rand.Reader)
	big, _ := rsa.GenerateKey(rand.Reader, 1024)
	defer func() {
		if r := recover(); r != nil {
			t.Fatalf("hashAlgFor panicked: %v", r)
		}
	}()
	if _, err := hashAlgFor(dev.Public(), big.Public()); err == nil {
		t.Fatal("expected an error for an RSA-1024 peer key")
	}
}
