// Triage reproducer (not a registered check): C16/C15 defect #25.
// Copy into /repo (package fdo_test) and run
// `go test -run TestTriageC16ManyDeviceModules .`.
//
// Devmod.writeModuleMessages sized every devmod:modules chunk against the bare
// negotiated size and measured the chunk inline instead of as the byte-string
// value of a KV, while the device's message loop only has the negotiated size
// minus 5 per message. Whenever the module list does not fit one message the
// last chunk of a message was cut in two by the ChunkReader and its halves went
// out in two TO2.DeviceServiceInfo messages; the owner's devmod module parses
// each message on its own and fails ("unexpected EOF"), so TO2 fails for every
// device with more module names than fit one message (about 90 at the default
// size of 1300; a unit-level sweep over sizes 60..1400 cut 3130 chunks).
package fdo_test

import (
	"context"
	"fmt"
	"io"
	"testing"

	"github.com/fido-device-onboard/go-fdo/fdotest"
	"github.com/fido-device-onboard/go-fdo/serviceinfo"
)

type triageNopModule struct{}

func (triageNopModule) Transition(bool) error { return nil }
func (triageNopModule) Receive(context.Context, string, io.Reader, func(string) io.Writer, func()) error {
	return nil
}
func (triageNopModule) Yield(context.Context, func(string) io.Writer, func()) error { return nil }

func TestTriageC16ManyDeviceModules(t *testing.T) {
	mods := map[string]serviceinfo.DeviceModule{}
	for i := 0; i < 200; i++ {
		mods[fmt.Sprintf("vendor.mod%03d", i)] = triageNopModule{}
	}
	fdotest.RunClientTestSuite(t, fdotest.Config{DeviceModules: mods})
}
