// Triage reproducer (not a registered check): C19/C10 defect #17.
// Copy into /repo/serviceinfo (package serviceinfo_test) and run
// `go test -run TestTriageC19NextAfterClose ./serviceinfo/`. Before the fix
// roughly half of the NextServiceInfo calls made after Close panicked with
// "send on closed channel" (TO2 does this when it fails while the devmod writer
// goroutine is still running; an unrecovered goroutine panic kills the device).
package serviceinfo_test

import (
	"testing"

	"github.com/fido-device-onboard/go-fdo/serviceinfo"
)

func TestTriageC19NextAfterClose(t *testing.T) {
	panics := 0
	for i := 0; i < 200; i++ {
		func() {
			defer func() {
				if r := recover(); r != nil {
					panics++
				}
			}()
			_, w := serviceinfo.NewChunkOutPipe(0)
			_ = w.Close()
			_ = w.NextServiceInfo("m", "x")
		}()
	}
	if panics > 0 {
		t.Errorf("%d/200 NextServiceInfo-after-Close calls panicked", panics)
	}
}
