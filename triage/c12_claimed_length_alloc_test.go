// Triage demonstration (not a registered check): C12 known finding #12.
// Copy into /repo/cbor (package cbor_test) and run `go test -run TestTriageC12Claimed ./cbor`.
// The decoder allocates according to the CLAIMED length (below the 100 000
// limit) before any element is read: 40 bytes of input make it allocate tens
// of megabytes. This test documents the amplification; it fails on today's
// tree by design (known finding, not repaired: a repair changes the
// allocation strategy of decodeArrayToSlice / decodeByteSlice).
package cbor_test

import (
	"runtime"
	"testing"

	"github.com/fido-device-onboard/go-fdo/cbor"
)

func TestTriageC12ClaimedLengthAllocation(t *testing.T) {
	// eight nested arrays, each claiming 99 999 elements, then nothing
	var in []byte
	for i := 0; i < 8; i++ {
		in = append(in, 0x9a, 0x00, 0x01, 0x86, 0x9f)
	}
	var before, after runtime.MemStats
	runtime.GC()
	runtime.ReadMemStats(&before)
	var v any
	err := cbor.Unmarshal(in, &v)
	runtime.ReadMemStats(&after)
	if err == nil {
		t.Fatal("truncated input accepted")
	}
	alloc := after.TotalAlloc - before.TotalAlloc
	t.Logf("input %d bytes, allocated %d bytes (x%d)", len(in), alloc, alloc/uint64(len(in)))
	if alloc > 64*uint64(len(in))+1<<16 {
		t.Errorf("allocation is proportional to claimed, not received, length: %d bytes for %d input bytes", alloc, len(in))
	}
}
