// Triage reproducer (not a registered check): C10 defect #8.
// Copy into /repo (package fdo) and run `go test -run TestTriageC10Devmod .`.
// Before the fix the owner's built-in devmod module (a) allocates whatever
// module count the device announces (nummodules = 2^40 -> makeslice panic /
// out of memory) and (b) panics "slice bounds out of range" when a modules
// chunk carries more names than were announced.
package fdo

import (
	"bytes"
	"context"
	"testing"

	"github.com/fido-device-onboard/go-fdo/cbor"
)

func TestTriageC10DevmodModules(t *testing.T) {
	try := func(name string, f func(d *devmodOwnerModule) error) {
		defer func() {
			if r := recover(); r != nil {
				t.Errorf("%s: panic: %v", name, r)
			}
		}()
		if err := f(&devmodOwnerModule{}); err == nil {
			t.Errorf("%s: accepted", name)
		}
	}
	msg := func(v any) *bytes.Reader { b, _ := cbor.Marshal(v); return bytes.NewReader(b) }
	try("huge nummodules", func(d *devmodOwnerModule) error {
		return d.HandleInfo(context.Background(), "nummodules", msg(int64(1)<<40))
	})
	try("negative nummodules", func(d *devmodOwnerModule) error {
		return d.HandleInfo(context.Background(), "nummodules", msg(-1))
	})
	try("more modules than announced", func(d *devmodOwnerModule) error {
		if err := d.HandleInfo(context.Background(), "nummodules", msg(2)); err != nil {
			return nil
		}
		return d.HandleInfo(context.Background(), "modules", msg([]any{0, 5, "a", "b", "c", "d", "e"}))
	})
}
