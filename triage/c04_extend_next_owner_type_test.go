// Triage reproducer (not a registered check): C04 defect #13.
// Copy into /repo (package fdo) together with c06_to0_unsigned_blob_test.go
// (for triageVoucher) and run `go test -run TestTriageC04ExtendNextOwner .`.
// Before the fix ExtendVoucher accepts a next-owner key whose type or size
// differs from the manufacturer key's (P-384 voucher extended to an RSA key or
// to a P-256 key); the result is a voucher whose new entry names a key of a
// type the chain cannot carry.
package fdo

import (
	"crypto/ecdsa"
	"crypto/elliptic"
	"crypto/rand"
	"crypto/rsa"
	"testing"
)

func TestTriageC04ExtendNextOwnerType(t *testing.T) {
	ov, owner := triageVoucher(t) // P-384 manufacturer, extended once to `owner` (P-384)
	rsaKey, _ := rsa.GenerateKey(rand.Reader, 2048)
	if _, err := ExtendVoucher(ov, owner, &rsaKey.PublicKey, nil); err == nil {
		t.Error("P-384 voucher was extended to an RSA next owner")
	}
	p256, _ := ecdsa.GenerateKey(elliptic.P256(), rand.Reader)
	if _, err := ExtendVoucher(ov, owner, &p256.PublicKey, nil); err == nil {
		t.Error("P-384 voucher was extended to a P-256 next owner")
	}
	p384, _ := ecdsa.GenerateKey(elliptic.P384(), rand.Reader)
	if _, err := ExtendVoucher(ov, owner, &p384.PublicKey, nil); err != nil {
		t.Errorf("control: extension to a P-384 key failed: %v", err)
	}
}
