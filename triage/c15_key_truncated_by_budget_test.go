// Triage reproducer (not a registered check): C15 defect #20 (reported by the
// C16 seeding agent, confirmed). Copy into /repo/serviceinfo (package
// serviceinfo_test) and run `go test -run TestSmallRemainingBudget ./serviceinfo/`.
// Two service infos are chunked; after the first one the message has `left`
// bytes of budget. Before the fix left=7,8 silently dropped the second service
// info and left=9..21 failed with "could not read service info key: unexpected
// EOF" (which aborts TO2 on the device).
package serviceinfo_test

import (
	"errors"
	"io"
	"testing"

	"github.com/fido-device-onboard/go-fdo/serviceinfo"
)

// two logical service infos; after the first has been packed, the budget left
// for the message is `left`
func run(t *testing.T, left uint16) (got []string, err error) {
	r, w := serviceinfo.NewChunkOutPipe(2)
	go func() {
		_ = w.NextServiceInfo("modname", "first")
		_, _ = w.Write([]byte{0x01})
		_ = w.NextServiceInfo("modname", "second")
		_, _ = w.Write([]byte{0x02})
		_ = w.Close()
	}()
	budget := uint16(1300)
	first := true
	for {
		kv, err := r.ReadChunk(budget)
		if errors.Is(err, io.EOF) {
			return got, nil
		}
		if errors.Is(err, serviceinfo.ErrSizeTooSmall) {
			// start a new message
			budget = 1300
			continue
		}
		if err != nil {
			return got, err
		}
		got = append(got, kv.Key)
		if first {
			first = false
			budget = left
		} else {
			budget -= uint16(kv.Size())
		}
	}
}

func TestSmallRemainingBudget(t *testing.T) {
	for left := uint16(1); left <= 40; left++ {
		got, err := run(t, left)
		if err != nil {
			t.Errorf("left=%d: error %v (got %v)", left, err, got)
		} else if len(got) != 2 {
			t.Errorf("left=%d: delivered %v, want both service infos", left, got)
		}
	}
}
