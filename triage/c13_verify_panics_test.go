// Triage reproducer (not a registered check): C13/C10 defect #5.
// Copy into /repo/cose (package cose_test) and run
// `go test -run TestTriageC13 ./cose`. Before the fix Sign1.Verify panics
// (a) "slice bounds out of range [48:4]" on a 4-byte signature with a P-384 key
// and (b) "signature algorithm not registered" on an unknown protected alg id.
package cose_test

import (
	"crypto/ecdsa"
	"crypto/elliptic"
	"crypto/rand"
	"testing"

	"github.com/fido-device-onboard/go-fdo/cbor"
	"github.com/fido-device-onboard/go-fdo/cose"
)

func TestTriageC13VerifyPanics(t *testing.T) {
	key, _ := ecdsa.GenerateKey(elliptic.P384(), rand.Reader)
	mk := func() cose.Sign1[[]byte, []byte] {
		s1 := cose.Sign1[[]byte, []byte]{Payload: cbor.NewByteWrap([]byte("hi"))}
		if err := s1.Sign(key, nil, nil, nil); err != nil {
			t.Fatal(err)
		}
		return s1
	}
	try := func(name string, s1 cose.Sign1[[]byte, []byte]) {
		defer func() {
			if r := recover(); r != nil {
				t.Errorf("%s: panic: %v", name, r)
			}
		}()
		if ok, _ := s1.Verify(key.Public(), nil, nil); ok {
			t.Errorf("%s: verified", name)
		}
	}
	short := mk()
	short.Signature = []byte{1, 2, 3, 4}
	try("short signature", short)
	long := mk()
	long.Signature = append(long.Signature, 0, 0)
	try("long signature", long)
	unk := mk()
	unk.Protected[cose.AlgLabel] = int64(-999)
	try("unknown alg", unk)
}
