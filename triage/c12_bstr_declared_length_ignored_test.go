package cbor_test

import (
	"bytes"
	"testing"

	"github.com/fido-device-onboard/go-fdo/cbor"
)

// A byte string that declares more bytes than the item it wraps: the decoder
// of Bstr / ByteWrap decodes the inner item and leaves the rest of the byte
// string unread, so the following items are parsed out of what the encoding
// says is byte-string content.
func TestTriageC12BstrDeclaredLengthIgnored(t *testing.T) {
	type msg struct {
		A cbor.Bstr[uint64]
		B uint64
	}
	canonical, err := cbor.Marshal(msg{A: cbor.Bstr[uint64]{Val: 10}, B: 7})
	if err != nil {
		t.Fatal(err)
	}
	if !bytes.Equal(canonical, []byte{0x82, 0x41, 0x0a, 0x07}) {
		t.Fatalf("unexpected encoding % x", canonical)
	}
	// [ bstr(2){0a 07} ] is an array of ONE element as far as CBOR is
	// concerned; declared as array of two it is truncated input
	altered := []byte{0x82, 0x42, 0x0a, 0x07}
	var got msg
	if err := cbor.Unmarshal(altered, &got); err == nil {
		t.Errorf("truncated input % x decoded as %+v: the byte string's declared length was ignored", altered, got)
	}

	type wrapped struct {
		A cbor.ByteWrap[uint64]
		B uint64
	}
	var got2 wrapped
	if err := cbor.Unmarshal(altered, &got2); err == nil {
		t.Errorf("truncated input % x decoded as %+v (ByteWrap): the byte string's declared length was ignored", altered, got2)
	}

	// trailing data inside the byte string
	var got3 struct{ A cbor.Bstr[uint64] }
	if err := cbor.Unmarshal([]byte{0x81, 0x42, 0x0a, 0x07}, &got3); err == nil {
		t.Errorf("byte string with trailing data after the wrapped item decoded as %+v", got3)
	}
}
