// Triage reproducer (not a registered check): C05 defect #2.
// Copy into /repo/kex (package kex) and run `go test -run TestTriageC05 ./kex`.
// Before the fix an encrypt-then-MAC session accepts a bare COSE_Encrypt0
// (the COSE_Mac0 wrapper stripped), so the ciphertext is never authenticated.
package kex

import (
	"bytes"
	"crypto/rand"
	"testing"

	"github.com/fido-device-onboard/go-fdo/cbor"
	"github.com/fido-device-onboard/go-fdo/cose"
)

func TestTriageC05BareEncrypt0(t *testing.T) {
	for _, id := range []CipherSuiteID{CoseAes128CbcCipher, CoseAes128CtrCipher, CoseAes256CbcCipher, CoseAes256CtrCipher} {
		suite := id.Suite()
		sek := make([]byte, 32)
		if id == CoseAes128CbcCipher || id == CoseAes128CtrCipher {
			sek = sek[:16]
		}
		s := SessionCrypter{ID: id, Cipher: suite, SEK: sek, SVK: make([]byte, 64)}
		var enc0 cose.Encrypt0[any, []byte]
		if err := enc0.Encrypt(suite.EncryptAlg, s.SEK, "attacker chosen", nil); err != nil {
			t.Fatal(err)
		}
		wire, err := cbor.Marshal(enc0.Tag())
		if err != nil {
			t.Fatal(err)
		}
		if pt, err := s.Decrypt(rand.Reader, bytes.NewReader(wire)); err == nil {
			t.Errorf("suite %s accepted an unauthenticated COSE_Encrypt0: % x", id, pt)
		}
	}
}

// Same defect, other direction (also C10): an AEAD session handed a COSE_Mac0
// tagged message reaches MacAlgorithm(0).NewMac, which panics "mac algorithm
// not registered".
func TestTriageC05Mac0UnderAEADPanics(t *testing.T) {
	suite := A256GcmCipher.Suite()
	s := SessionCrypter{ID: A256GcmCipher, Cipher: suite, SEK: make([]byte, 32)}
	var enc0 cose.Encrypt0[any, []byte]
	if err := enc0.Encrypt(suite.EncryptAlg, s.SEK, "x", nil); err != nil {
		t.Fatal(err)
	}
	mac0 := cose.Mac0[cose.Encrypt0[any, []byte], []byte]{Payload: cbor.NewByteWrap(enc0), Value: []byte{1}}
	wire, err := cbor.Marshal(mac0.Tag())
	if err != nil {
		t.Fatal(err)
	}
	if _, err := s.Decrypt(rand.Reader, bytes.NewReader(wire)); err == nil {
		t.Error("accepted")
	}
}
