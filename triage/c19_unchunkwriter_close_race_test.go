// Triage reproducer (not a registered check): C19 defect #24.
// Copy into /repo/serviceinfo (package serviceinfo_test) and run
// `go test -race -count=3 -run TestTriageC19CloseRacesProducer ./serviceinfo/`.
//
// This is the shape of the device's transfer step in to2.go: a goroutine writes
// the devmod messages (`go c.Devmod.Write(..., serviceInfoWriter)`) while the
// main goroutine's `defer serviceInfoWriter.Close()` runs as soon as
// exchangeServiceInfo returns (early, when the owner rejects the first
// message). Before the fix UnchunkWriter.Close read and wrote the field `w`
// without any lock while nextPipe / NextServiceInfo / Write read and wrote it in
// the producer goroutine: the race detector reports it on every run (the
// repository's own TestCloseDuringNextServiceInfo does too under -race), and a
// writer stored by nextPipe after Close had picked up the previous one was never
// closed, so its reader never saw EOF.
package serviceinfo_test

import (
	"io"
	"sync"
	"testing"

	"github.com/fido-device-onboard/go-fdo/serviceinfo"
)

func TestTriageC19CloseRacesProducer(t *testing.T) {
	for i := 0; i < 50; i++ {
		r, w := serviceinfo.NewChunkOutPipe(0)
		var wg sync.WaitGroup
		wg.Add(2)
		go func() { // the devmod writer
			defer wg.Done()
			for j := 0; j < 4; j++ {
				if err := w.NextServiceInfo("devmod", "active"); err != nil {
					return
				}
				if _, err := w.Write([]byte{0xf5}); err != nil {
					return
				}
			}
			_ = w.Close()
		}()
		go func() { // the message loop: reads one chunk, then fails
			defer wg.Done()
			_, _ = r.ReadChunk(1300)
			go func() {
				for {
					if _, err := r.ReadChunk(1300); err != nil {
						if err != io.EOF {
							return
						}
						return
					}
				}
			}()
		}()
		_ = w.Close() // transfer's deferred Close
		wg.Wait()
	}
}
