// Triage reproducer (not a registered check): C10/C02 defect #3.
// Copy into /repo (package fdo) together with c06_to0_unsigned_blob_test.go
// (for triageVoucher) and run `go test -run TestTriageC10OVNextEntry .`.
// Before the fix GetOVNextEntry with index == len(entries) or a negative index
// panics with an index out of range inside TO2Server.Respond.
package fdo

import (
	"bytes"
	"context"
	"testing"

	"github.com/fido-device-onboard/go-fdo/cbor"
	"github.com/fido-device-onboard/go-fdo/protocol"
)

type triageTO2State struct {
	TO2SessionState
	OwnerVoucherPersistentState
	ov *Voucher
}

func (s *triageTO2State) GUID(context.Context) (protocol.GUID, error) { return s.ov.Header.Val.GUID, nil }
func (s *triageTO2State) Voucher(context.Context, protocol.GUID) (*Voucher, error) {
	return s.ov, nil
}

func TestTriageC10OVNextEntryIndex(t *testing.T) {
	ov, _ := triageVoucher(t)
	st := &triageTO2State{ov: ov}
	srv := &TO2Server{Session: st, Vouchers: st}
	for _, idx := range []int{1, -1, 1 << 40} {
		body, _ := cbor.Marshal(struct{ N int }{idx})
		func() {
			defer func() {
				if r := recover(); r != nil {
					t.Errorf("index %d: panic: %v", idx, r)
				}
			}()
			typ, _ := srv.Respond(context.Background(), protocol.TO2GetOVNextEntryMsgType, bytes.NewReader(body))
			if typ != protocol.ErrorMsgType {
				t.Errorf("index %d: expected error message, got %d", idx, typ)
			}
		}()
	}
}
