// Triage reproducer (not a registered check): C10/C05 defect #10.
// Copy into /repo/cose (package cose_test) and run `go test -run TestTriageC10Crypter ./cose`.
// Before the fix the three Crypter.Decrypt implementations panic on peer input:
// a wrong-length IV/nonce header (cipher.NewCTR / NewCBCDecrypter / GCM Open),
// a CBC ciphertext that is empty or not a multiple of the block size, and CBC
// padding larger than the plaintext.
package cose_test

import (
	"testing"

	"github.com/fido-device-onboard/go-fdo/cose"
)

func TestTriageC10CrypterDecryptPanics(t *testing.T) {
	key16 := make([]byte, 16)
	try := func(name string, alg cose.EncryptAlgorithm, iv, ct, aad []byte) {
		defer func() {
			if r := recover(); r != nil {
				t.Errorf("%s: panic: %v", name, r)
			}
		}()
		c, err := alg.NewCrypter(key16)
		if err != nil {
			t.Fatal(err)
		}
		if _, err := c.Decrypt(nil, ct, aad, cose.HeaderMap{cose.IvLabel: iv}); err == nil {
			t.Errorf("%s: accepted", name)
		}
	}
	try("GCM short nonce", cose.A128GCM, []byte{1, 2, 3}, make([]byte, 32), []byte{1})
	try("CTR short IV", cose.A128CTR, []byte{1, 2, 3}, make([]byte, 32), nil)
	try("CBC short IV", cose.A128CBC, []byte{1, 2, 3}, make([]byte, 32), nil)
	try("CBC partial block", cose.A128CBC, make([]byte, 16), make([]byte, 17), nil)
	try("CBC empty", cose.A128CBC, make([]byte, 16), []byte{}, nil)
	// a block decrypting to a last byte larger than its length: try many ciphertexts
	for i := 0; i < 64; i++ {
		ct := make([]byte, 16)
		ct[0] = byte(i)
		func() {
			defer func() {
				if r := recover(); r != nil {
					t.Errorf("CBC bad padding (%d): panic: %v", i, r)
				}
			}()
			c, _ := cose.A128CBC.NewCrypter(key16)
			_, _ = c.Decrypt(nil, ct, nil, cose.HeaderMap{cose.IvLabel: make([]byte, 16)})
		}()
	}
}
