// Triage reproducer (not a registered check): C10 defect #19.
// Copy into /repo (package fdo_test) and run `go test -run TestTriageC10DINullMfgInfo .`
// DI.AppStart with a null DeviceMfgInfo ("null info is valid" for DIServer) is
// handed to the SignDeviceCertificate callback as a nil pointer; the callback
// shipped in package custom dereferenced it and panicked the DI server.
package fdo_test

import (
	"bytes"
	"context"
	"crypto/ecdsa"
	"crypto/elliptic"
	"crypto/rand"
	"testing"

	"github.com/fido-device-onboard/go-fdo"
	"github.com/fido-device-onboard/go-fdo/custom"
	"github.com/fido-device-onboard/go-fdo/protocol"
)

func TestTriageC10DINullMfgInfo(t *testing.T) {
	key, _ := ecdsa.GenerateKey(elliptic.P256(), rand.Reader)
	srv := &fdo.DIServer[custom.DeviceMfgInfo]{
		SignDeviceCertificate: custom.SignDeviceCertificate(key, nil),
	}
	defer func() {
		if r := recover(); r != nil {
			t.Errorf("panic: %v", r)
		}
	}()
	// DI.AppStart = [null]
	typ, _ := srv.Respond(context.Background(), protocol.DIAppStartMsgType, bytes.NewReader([]byte{0x81, 0xf6}))
	if typ != protocol.ErrorMsgType {
		t.Errorf("expected an error message, got %d", typ)
	}
}
