// Known finding C12.length-mul-bounded (reported, not repaired): copy into cbor/ as a
// _test.go file. decodeLen doubles a map's pair count in uint64 before the limit
// check, so a head claiming 2^63 pairs wraps to 0 and is accepted on the raw path.
package cbor_test

import (
	"testing"

	"github.com/fido-device-onboard/go-fdo/cbor"
)

func TestTriageC12MapHeadWraps(t *testing.T) {
	in := []byte{0xbb, 0x80, 0, 0, 0, 0, 0, 0, 0}
	var raw cbor.RawBytes
	if err := cbor.Unmarshal(in, &raw); err == nil {
		t.Fatalf("a map head claiming 2^63 pairs was accepted: % x", []byte(raw))
	}
}
