// Triage reproducer (not a registered check): C19 defect #21 (reported by the
// C19 seeding agent, confirmed). Copy into /repo/sqlite (package sqlite_test) and
// run `go test -run TestConcurrentSessions .` there. 16 goroutines create tokens
// and store a GUID each; before the fix 318 of 640 operations failed with
// "sqlite3: database is locked".
package sqlite_test

import (
	"context"
	"path/filepath"
	"sync"
	"testing"

	"github.com/fido-device-onboard/go-fdo/protocol"
	"github.com/fido-device-onboard/go-fdo/sqlite"
)

func TestConcurrentSessions(t *testing.T) {
	db, err := sqlite.Open(filepath.Join(t.TempDir(), "db.sqlite"), "")
	if err != nil {
		t.Fatal(err)
	}
	defer func() { _ = db.Close() }()
	var wg sync.WaitGroup
	errs := make(chan error, 64*20)
	for i := 0; i < 16; i++ {
		wg.Add(1)
		go func() {
			defer wg.Done()
			for j := 0; j < 20; j++ {
				tok, err := db.NewToken(context.Background(), protocol.TO2Protocol)
				if err != nil {
					errs <- err
					continue
				}
				ctx := db.TokenContext(context.Background(), tok)
				if err := db.SetGUID(ctx, protocol.GUID{byte(j)}); err != nil {
					errs <- err
				}
			}
		}()
	}
	wg.Wait()
	close(errs)
	n := 0
	var first error
	for e := range errs {
		if first == nil {
			first = e
		}
		n++
	}
	if n > 0 {
		t.Errorf("%d of 640 operations failed, first: %v", n, first)
	}
}
