// Triage reproducer (not a registered check): C20/C10 defect #4.
// Copy into /repo/protocol (package protocol_test) and run
// `go test -run TestTriageC20 ./protocol`. Before the fix interpreting an
// RVExtRV instruction with an empty value panics "data cannot be empty".
package protocol_test

import (
	"testing"

	"github.com/fido-device-onboard/go-fdo/protocol"
)

func TestTriageC20EmptyExtRV(t *testing.T) {
	info := [][]protocol.RvInstruction{{{Variable: protocol.RVExtRV, Value: nil}}}
	defer func() {
		if r := recover(); r != nil {
			t.Fatalf("panic: %v", r)
		}
	}()
	_ = protocol.ParseDeviceRvInfo(info)
	_ = protocol.ParseOwnerRvInfo(info)
}
