// Triage reproducer (not a registered check): C11 defect #11.
// Copy into /repo/cose (package cose_test) and run `go test -run TestTriageC11 ./cose`.
// Before the fix a text label cannot be encoded: IntOrStr.MarshalCBOR marshals
// the method value v.String ("unsupported type: func() string").
package cose_test

import (
	"testing"

	"github.com/fido-device-onboard/go-fdo/cbor"
	"github.com/fido-device-onboard/go-fdo/cose"
)

func TestTriageC11TextLabel(t *testing.T) {
	b, err := cbor.Marshal(cose.Label{Str: "x"})
	if err != nil {
		t.Fatal(err)
	}
	var l cose.Label
	if err := cbor.Unmarshal(b, &l); err != nil || l.Str != "x" {
		t.Fatalf("round trip: %v %+v", err, l)
	}
}
