// Triage reproducer (not a registered check): C10 defect #28.
// Copy into /repo (package fdo_test) and run
// `go test -run TestTriageC10ReplayedProveDevice .`.
//
// A key-exchange session clears its private exponent / key once the shared
// secret is computed (ECDHSession.priv, DHSession.a). TO2.ProveDevice (64) can
// be sent twice in one session: the stored nonce does not change, so the replay
// passes every check and reaches Session.SetParameter a second time, which
// dereferences the cleared pointer. A replayed (or resent) message 64 panics
// the owner service (9 "panicked" lines before the fix, none after; the run
// itself still reports failures afterwards because the error message that now
// answers the replay ends the session, as it should).
package fdo_test

import (
	"context"
	"io"
	"testing"

	"github.com/fido-device-onboard/go-fdo"
	"github.com/fido-device-onboard/go-fdo/custom"
	"github.com/fido-device-onboard/go-fdo/fdotest"
	"github.com/fido-device-onboard/go-fdo/kex"
	"github.com/fido-device-onboard/go-fdo/protocol"
)

type replay64 struct {
	*fdotest.Transport
	t *testing.T
}

func (r *replay64) Send(ctx context.Context, msgType uint8, msg any, sess kex.Session) (uint8, io.ReadCloser, error) {
	typ, body, err := r.Transport.Send(ctx, msgType, msg, sess)
	if msgType == protocol.TO2ProveDeviceMsgType && err == nil {
		func() {
			defer func() {
				if p := recover(); p != nil {
					r.t.Errorf("replayed TO2.ProveDevice panicked the owner service: %v", p)
				}
			}()
			typ2, body2, err2 := r.Transport.Send(ctx, msgType, msg, sess)
			if err2 == nil {
				_ = body2.Close()
			}
			r.t.Logf("replayed 64 answered with %d (err=%v)", typ2, err2)
		}()
	}
	return typ, body, err
}

func TestTriageC10ReplayedProveDevice(t *testing.T) {
	fdotest.RunClientTestSuite(t, fdotest.Config{
		// the replay is answered with an error message, which ends the
		// session: the run itself is expected to fail, it must not panic
		CustomExpect: func(t *testing.T, err error) {},
		NewTransport: func(t *testing.T, tokens protocol.TokenService, di, to0, to1, to2 protocol.Responder) fdo.Transport {
			return &replay64{t: t, Transport: &fdotest.Transport{
				T: t, Tokens: tokens,
				DIResponder:  di.(*fdo.DIServer[custom.DeviceMfgInfo]),
				TO0Responder: to0.(*fdo.TO0Server),
				TO1Responder: to1.(*fdo.TO1Server),
				TO2Responder: to2.(*fdo.TO2Server),
			}}
		},
	})
}
