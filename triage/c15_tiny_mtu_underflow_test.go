// Triage reproducer (not a registered check): C15/C10 defect #22.
// Copy into /repo (package fdo, next to to2.go) and run
// `go test -run TestTriageC15TinyMTU .`. The owner announces a maximum device
// service info size of 3 bytes. Before the fix the device computed its budget
// as mtu-5 in uint16 arithmetic (65534) and put a single ~3 KB message on the
// wire; after it, the exchange fails with an error instead.
package fdo

import (
	"bytes"
	"context"
	"fmt"
	"io"
	"testing"
	"time"

	"github.com/fido-device-onboard/go-fdo/cbor"
	"github.com/fido-device-onboard/go-fdo/kex"
	"github.com/fido-device-onboard/go-fdo/protocol"
	"github.com/fido-device-onboard/go-fdo/serviceinfo"
)

type triageSizeTransport struct {
	setupNonce protocol.Nonce
	sizes      []int
}

func (tr *triageSizeTransport) Send(_ context.Context, msgType uint8, msg any, _ kex.Session) (uint8, io.ReadCloser, error) {
	body := func(v any) (io.ReadCloser, error) {
		data, err := cbor.Marshal(v)
		if err != nil {
			return nil, err
		}
		return io.NopCloser(bytes.NewReader(data)), nil
	}
	switch msgType {
	case protocol.TO2DeviceServiceInfoMsgType:
		data, err := cbor.Marshal(msg)
		if err != nil {
			return 0, nil, err
		}
		var wire deviceServiceInfo
		if err := cbor.Unmarshal(data, &wire); err != nil {
			return 0, nil, err
		}
		tr.sizes = append(tr.sizes, len(data))
		rc, err := body(ownerServiceInfo{IsDone: !wire.IsMoreServiceInfo})
		return protocol.TO2OwnerServiceInfoMsgType, rc, err
	case protocol.TO2DoneMsgType:
		rc, err := body(done2Msg{NonceTO2SetupDv: tr.setupNonce})
		return protocol.TO2Done2MsgType, rc, err
	default:
		return 0, nil, fmt.Errorf("unexpected message type %d", msgType)
	}
}

func TestTriageC15TinyMTU(t *testing.T) {
	const mtu = 3
	r, w := serviceinfo.NewChunkOutPipe(0)
	go func() {
		_ = w.NextServiceInfo("m", "large")
		_, _ = w.Write(make([]byte, 3000))
		_ = w.Close()
	}()
	var proveNonce, setupNonce protocol.Nonce
	tr := &triageSizeTransport{setupNonce: setupNonce}
	ctx, cancel := context.WithTimeout(contextWithErrMsg(context.Background()), 5*time.Second)
	defer cancel()
	err := exchangeServiceInfo(ctx, tr, proveNonce, setupNonce, mtu, r, nil, &TO2Config{})
	for i, size := range tr.sizes {
		if size > mtu {
			t.Errorf("TO2.DeviceServiceInfo #%d is %d bytes on the wire, the owner allowed %d (err=%v)", i, size, mtu, err)
		}
	}
}
