// Triage reproducer (not a registered check): C10 defect #27.
// Copy into /repo (package fdo, internal test) and run
// `go test -run TestTriageC10NullDeviceCert .`.
//
// The rendezvous server stores the voucher an owner registers in TO0 after
// checking only its entries and the to1d signature; the device certificate
// chain is not looked at. A voucher whose certificate is CBOR null is therefore
// accepted and stored. The next TO1.ProveToRV for that GUID — signed with any
// key, the signature is checked afterwards — makes rvRedirect call
// Voucher.DevicePublicKey, which dereferenced the nil certificate: a panic in
// the rendezvous server caused by peer bytes that arrived one request earlier.
package fdo
