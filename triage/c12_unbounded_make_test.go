// Triage reproducer (not a registered check): C12/C10 defect #7.
// Copy into /repo/cbor (package cbor_test) and run `go test -run TestTriageC12 ./cbor`.
// Before the fix a 9-byte input claiming a 2^40..2^62-byte string makes the
// three convention types allocate the claimed length (runtime panic
// "makeslice: len out of range" or an out-of-memory abort).
package cbor_test

import (
	"testing"

	"github.com/fido-device-onboard/go-fdo/cbor"
)

func TestTriageC12UnboundedMake(t *testing.T) {
	huge := []byte{0x5b, 0x40, 0, 0, 0, 0, 0, 0, 0} // bstr, length 2^62
	try := func(name string, v any) {
		defer func() {
			if r := recover(); r != nil {
				t.Errorf("%s: panic: %v", name, r)
			}
		}()
		if err := cbor.Unmarshal(huge, v); err == nil {
			t.Errorf("%s: accepted", name)
		}
	}
	try("ByteWrap[[]byte]", new(cbor.ByteWrap[[]byte]))
	try("X509Certificate", new(cbor.X509Certificate))
	try("X509CertificateRequest", new(cbor.X509CertificateRequest))
}
