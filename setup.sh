#!/bin/bash
# Build the checker offline from /verif/checker (module cache only).
set -e
cd "$(dirname "$0")/checker"
export GOFLAGS=-mod=mod GOPROXY=off
unset GOWORK GOTOOLCHAIN GOSUMDB
mkdir -p ../bin ../evidence
go build -o ../bin/fdocheck .
echo "built $(cd .. && pwd)/bin/fdocheck"
